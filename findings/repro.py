"""Concrete reproductions of the genuine defects listed in DESIGN.md section 4.

NOT part of the checking machinery (the checks are static); this is the evidence that each
finding is a real defect of terrapower/armi: a failing input against the real code.

usage:  cd <tree> && /venv/bin/python /verif/findings/repro.py [F1 F3 ...]
Each repro prints `<id> DEFECT <what was observed>` or `<id> ok`.
"""
import io
import os
import sys
import tempfile

import numpy as np


def F1():
    from armi.bookkeeping.db.layout import replaceNonesWithNonsense, replaceNonsenseWithNones

    data = np.array([np.uint8(3), None, np.uint8(2)], dtype=object)
    packed = replaceNonesWithNonsense(data, "p")
    back = replaceNonsenseWithNones(packed, "p")
    good = list(back) == [3, None, 2]
    return good, f"wrote {list(packed)!r} read back {list(back)!r}"


def F2():
    from armi.bookkeeping.db.jaggedArray import JaggedArray

    try:
        ja = JaggedArray([np.int64(5), np.array([1, 2])], "p")
    except TypeError:
        return True, "rejected at write time"
    n = len(ja.offsets) + len(ja.nones)
    return n == 2, f"2 entries given, {n} stored (silently dropped)"


def F3():
    import struct
    from armi.nuclearDataIO.cccc import cccc

    stream = io.BytesIO()
    rec = cccc.BinaryRecordWriter(stream)
    rec.open()
    rec.rwInt(7)
    rec.rwLong(9)
    rec.close()
    raw = stream.getvalue()
    lead = struct.unpack("i", raw[:4])[0]
    payload = len(raw) - 8
    return lead == payload, f"leading count {lead}, payload bytes {payload}"


def F4():
    import ast, inspect
    from armi.nuclearDataIO.cccc import geodst

    src = inspect.getsource(geodst.GeodstStream.readWrite)
    # evaluate the guard of the first `if` over the GEODST IGOM range
    tree = ast.parse("if 1:\n" + src) if src.startswith(" ") else ast.parse(src)
    test = next(n for n in ast.walk(tree) if isinstance(n, ast.If) and "geomType" in ast.unparse(n.test)).test
    sat = [g for g in range(0, 20) if eval(compile(ast.Expression(test), "g", "eval"), {"geomType": g})]
    return bool(sat), f"2D-record guard `{ast.unparse(test)}` satisfiable for IGOM in {sat}"


def F5():
    from armi.nuclearDataIO import nuclearFileMetadata as m

    keys = m.REGIONXS_POWER_CONVERT_DIRECTIONAL_DIFF
    dup = sorted({k for k in keys if list(keys).count(k) > 1})
    return not dup and "d2Multiplier" in keys, f"duplicate keys {dup}; d2Multiplier present: {'d2Multiplier' in keys}"


def F6():
    import inspect
    from armi.nuclearDataIO.cccc import cccc

    rec = cccc.BinaryRecordWriter(io.BytesIO())
    rec.open()
    import armi.nuclearDataIO.cccc.pmatrx as p
    import ast

    src = inspect.getsource(p)
    call = next(
        n
        for n in ast.walk(ast.parse(src))
        if isinstance(n, ast.Call) and getattr(n.func, "attr", "") == "rwList" and "activationXS[xsNum]" in ast.unparse(n)
    )
    # execute the same call shape with concrete values
    args = [[1.0, 2.0]] + [a for a in call.args[1:]]
    ng = 2
    env = {"self": type("S", (), {"_numNeutronGroups": ng})(), "record": rec}
    try:
        eval("record.rwList([1.0,2.0], " + ", ".join(ast.unparse(a) for a in call.args[1:]) + ")", env)
        return True, "activation XS list written"
    except Exception as e:
        return False, f"{ast.unparse(call)} raises {type(e).__name__}: {e}"


def F7():
    from armi.operators.operator import Operator

    called = []

    class I:
        def __init__(s, n, ret):
            s.name, s.ret = n, ret

        def interactBOC(s, cycle=None):
            called.append(s.name)
            return s.ret

        def enabled(s):
            return True

    class FakeTimer:
        def getTimer(self, m):
            import contextlib

            return contextlib.nullcontext()

    op = Operator.__new__(Operator)
    op.cs = {"debugDB": False, "verbosity": "error", "branchVerbosity": "error"}
    op.timer = FakeTimer()
    op._interactAll.__func__  # exists
    op.printInterfaceSummary = lambda *a, **k: None
    op._checkCsConsistency = lambda *a, **k: None
    op._expandCycleAndTimeNodeArgs = lambda *a, **k: ""
    op._debugDB = lambda *a, **k: None
    op._finalizeInteract = lambda *a, **k: None
    op.r = type("R", (), {"p": type("P", (), {"cycle": 0, "timeNode": 0})()})()
    op._currentInterface = None
    try:
        op._interactAll("BOC", [I("a", True), I("b", None)], 0)
    except Exception as e:  # noqa
        return None, f"harness could not drive _interactAll: {type(e).__name__} {e}"
    return called == ["a", "b"], f"interfaces called at BOC after a halt request: {called}"


def F8():
    from armi.reactor import grids

    g = grids.HexGrid.fromPitch(1.0)
    g.backUp()
    g.changePitch(2.0)
    g.backUp()
    g.changePitch(3.0)
    g.restoreBackup()
    g.restoreBackup()
    return abs(g.pitch - 1.0) < 1e-12, f"pitch after nested restore: {g.pitch} (expected 1.0)"


def F9():
    from armi import settings
    from armi.settings import settingsIO

    cs = settings.Settings()
    rdr = settingsIO.SettingsReader(cs)
    if "nTasks" not in cs:
        return None, "no nTasks setting"
    rdr._renamer.renameSetting("numProcessors")
    rdr._applySettings("numProcessors", 4)
    return cs["nTasks"] == 4 and "numProcessors" not in rdr.invalidSettings, (
        f"nTasks={cs['nTasks']} invalid={sorted(rdr.invalidSettings)}"
    )


def F14():
    import ast, inspect
    import armi.utils as u

    src = inspect.getsource(u.safeCopy)
    free = [n.id for n in ast.walk(ast.parse(src)) if isinstance(n, ast.Name) and n.id == "Return"]
    return not free, f"safeCopy time-out path evaluates undefined name(s) {free} -> NameError"


def F10():
    from armi.physics.neutronics import crossSectionGroupManager as m
    from armi.reactor.flags import Flags

    class P(dict):
        __getattr__ = dict.__getitem__

    class B:
        def __init__(s, fuel, hm, bu):
            s.fuel, s.p = fuel, P(massHmBOL=hm, percentBu=bu)

        def hasFlags(s, spec, exact=False):
            return s.fuel

        def getVolume(s):
            return 1.0

    coll = m.BlockCollection(["U235"], validBlockTypes=["fuel"])
    coll.extend([B(True, 1.0, 10.0), B(True, 1.0, 20.0), B(False, 2.0, 99.0)])
    bu = coll._calcWeightedBurnup()
    return abs(bu - 15.0) < 1e-9, f"HM-weighted burnup of eligible members is 15.0, got {bu} (ineligible member averaged in)"


def F12():
    from armi.reactor.tests.test_reactors import loadTestReactor

    o, r = loadTestReactor(inputFileName="smallestTestReactor/armiRunSmallest.yaml")
    core = r.core
    core._trackAssems = True
    if r.excore.get("sfp") is not None:
        sfp = r.excore["sfp"]
        r.remove(sfp)
        dict.pop(r.excore, "sfp", None)
    if r.excore.get("sfp") is not None:
        return None, "could not build a reactor without a spent fuel pool"
    a = core.getAssemblies()[0]
    name, bname = a.getName(), a[0].getName()
    core.removeAssembly(a)
    stale = name in core.assembliesByName or bname in core.blocksByName
    return not stale, (
        f"after removeAssembly (trackAssems, no pool): in core={a in core.getAssemblies()} "
        f"assembliesByName has it={name in core.assembliesByName} blocksByName has its block={bname in core.blocksByName}"
    )


def F17():
    from armi.reactor import composites

    a, b, x = composites.Composite("A"), composites.Composite("B"), composites.Composite("x")
    a.add(x)
    b.add(x)
    ok = not (x in a and x.parent is b)
    return ok, f"A.add(x); B.add(x): x in A={x in a}, x in B={x in b}, x.parent is B={x.parent is b} (two parents list x, only one is its parent)"


def F18():
    import copy
    from armi.reactor.tests.test_reactors import loadTestReactor

    o, r = loadTestReactor(inputFileName="smallestTestReactor/armiRunSmallest.yaml")
    core = r.core
    a = core.getAssemblies()[0]
    new = copy.deepcopy(a)
    new.makeUnique()
    n0 = len(core)
    try:
        core.add(new, a.spatialLocator)
        return None, "adding to an occupied location was not refused"
    except (ValueError, KeyError) as e:
        err = type(e).__name__
    listed = new in core.childrenByLocator.values() or new.getName() in core.assembliesByName
    return len(core) == n0, f"refused add ({err}) left the core with {len(core)} children (was {n0}); new assembly is a child={new in core}, in a lookup table={listed}"


def F19():
    import math
    from armi.reactor.tests.test_reactors import loadTestReactor
    from armi.reactor import reactorParameters
    from armi.nucDirectory import nuclideBases

    o, r = loadTestReactor(inputFileName="smallestTestReactor/armiRunSmallest.yaml")
    b = r.core.getFirstBlock()
    c = next(x for x in b if x.getNumberDensity("U235") > 0)
    c.setNumberDensity("FE", 0.01)
    reactorParameters.makeParametersReadOnly(r)
    out = []
    n0 = c.getNumberDensity("U235")
    try:
        c.setNumberDensity("U235", 2 * n0)
        res = "no refusal"
    except RuntimeError:
        res = "refused"
    out.append(f"setNumberDensity {res}, U235 {n0:.3e} -> {c.getNumberDensity('U235'):.3e}")
    bad = c.getNumberDensity("U235") != n0
    o0 = list(b.p.orientation)
    try:
        b.rotate(math.pi / 3)
        res = "no refusal"
    except RuntimeError:
        res = "refused"
    out.append(f"rotate {res}, orientation {o0} -> {list(b.p.orientation)}")
    bad = bad or list(b.p.orientation) != o0
    o1 = list(b.p.orientation)
    try:
        b.setRotationNum(3)
        res = "no refusal"
    except RuntimeError:
        res = "refused"
    out.append(f"setRotationNum {res}, orientation {o1} -> {list(b.p.orientation)}")
    bad = bad or list(b.p.orientation) != o1
    had = "FE" in c.p.numberDensities
    try:
        b.expandElementalToIsotopics(nuclideBases.byName["FE"])
        res = "no refusal"
    except RuntimeError:
        res = "refused"
    out.append(f"expandElementalToIsotopics {res}, FE in numberDensities {had} -> {'FE' in c.p.numberDensities}")
    bad = bad or (had and "FE" not in c.p.numberDensities)
    return not bad, "read-only reactor: " + "; ".join(out)


def F11():
    from armi.physics.neutronics import crossSectionGroupManager as m

    bad = []
    for lab in m._ALLOWABLE_XS_TYPE_LIST:
        n = m.getXSTypeNumberFromLabel(lab)
        try:
            back = m.getXSTypeLabelFromNumber(n)
        except ValueError as e:
            back = "ValueError"
        if back != lab:
            bad.append((lab, n, back))
    return not bad, f"{len(bad)} of {len(m._ALLOWABLE_XS_TYPE_LIST)} admissible single-character type labels do not round trip, e.g. {bad[:3]} ... {bad[-2:]}"


def F13():
    import os
    from armi.nuclearDataIO.cccc import isotxs
    from armi.nuclearDataIO import xsLibraries
    from armi.tests import ISOAA_PATH

    import armi.nuclearDataIO as ndio

    fx = os.path.join(os.path.dirname(ndio.__file__), "tests", "fixtures")
    aa, ab = os.path.join(fx, "mc2v3-AA.isotxs"), os.path.join(fx, "mc2v3-AB.isotxs")
    target = isotxs.readBinary(aa)
    other = xsLibraries.IsotxsLibrary()
    other.merge(isotxs.readBinary(ab))  # new nuclides first
    other.merge(isotxs.readBinary(aa))  # then nuclides that conflict with the target
    before = list(target.nuclideLabels)
    try:
        target.merge(other)
        return None, "conflicting merge was not rejected"
    except Exception as e:
        err = type(e).__name__
    after = list(target.nuclideLabels)
    return before == after, f"merge rejected ({err}) but the target library changed: {len(before)} -> {len(after)} nuclides (those merged before the conflict was found stay)"


def F20():
    from armi.reactor import grids

    g = grids.CartesianGrid.fromRectangle(1.0, 1.0)
    lab = g.getLabel((-1, 2, 0))
    try:
        back = grids.locatorLabelToIndices(lab)
    except ValueError as e:
        return False, f"Cartesian cell (-1, 2, 0) has label {lab!r}, which does not parse back: ValueError({e})"
    return tuple(back) == (-1, 2, 0), f"label {lab!r} parses back to {back}"


def F21():
    from armi.nucDirectory import nuclideBases as nb

    bad = []
    for n in nb.instances:
        for getter, table in ((n.getMcc3IdEndfbVII0, nb.byMcc3IdEndfbVII0), (n.getMcc3IdEndfbVII1, nb.byMcc3IdEndfbVII1), (n.getMcc2Id, nb.byMcc2Id)):
            try:
                i = getter()
            except Exception:
                continue
            if i and table.get(i) is not None and table[i] is not n:
                bad.append((n.name, i, table[i].name))
    return not bad, f"lookups by MC2 id that return ANOTHER nuclide: {sorted(set(bad))}"


def F22():
    from armi.materials.sulfur import Sulfur

    m = Sulfur()
    tot = sum(m.massFrac.values())
    return abs(tot - 1.0) < 1e-4, f"Sulfur default mass fractions {dict(m.massFrac)} sum to {tot:.6f}"


def F23():
    import numpy as np
    from armi.bookkeeping.db.layout import replaceNonesWithNonsense, replaceNonsenseWithNones

    def mk(lst):
        a = np.empty(len(lst), dtype=object)
        for i, v in enumerate(lst):
            a[i] = v
        return a

    bad = []
    for d in ([1, None, 2.5], [np.array([1, 2]), None, np.array([1.5, 2.5])], [np.array([1, 2]), None, np.array([1.0, 2.0])]):
        try:
            back = replaceNonsenseWithNones(replaceNonesWithNonsense(mk(d), "p"), "p")
        except (ValueError, TypeError):
            continue  # rejected at write time: fine
        same = all((x is None and y is None) or (x is not None and y is not None and np.array_equal(x, y)) for x, y in zip(d, back))
        if not same:
            bad.append((d, list(back)))
    return not bad, f"stored-but-reads-back-different: {bad}"


def F24():
    import numpy as np
    from armi.nuclearDataIO.cccc import compxs
    from armi.tests import COMPXS_PATH

    lib = compxs.readAscii(COMPXS_PATH)
    md = lib.compxsMetadata
    ng = md["numGroups"]
    md["fileWideChiFlag"] = 1
    md["fileWideChi"] = np.arange(ng, dtype=float).reshape(ng, 1) / 100.0
    with tempfile.TemporaryDirectory() as d:
        f = os.path.join(d, "c.bin")
        try:
            compxs.writeBinary(lib, f)
            back = compxs.readBinary(f).compxsMetadata["fileWideChi"]
        except Exception as e:  # noqa
            return False, f"COMPXS with fileWideChiFlag=1 cannot be written/read: {type(e).__name__}: {str(e)[:80]}"
    return bool(np.allclose(back, md["fileWideChi"])), "COMPXS file-wide chi round trip"


def F25():
    import numpy as np
    from armi.nuclearDataIO.cccc import fixsrc

    a = np.arange(24, dtype=float).reshape(2, 3, 2, 2)
    with tempfile.TemporaryDirectory() as d:
        f = os.path.join(d, "f.bin")
        fixsrc.writeBinary(f, a)
        try:
            b = fixsrc.readBinary(f)
        except Exception as e:  # noqa
            return False, f"FIXSRC written by armi cannot be read: {type(e).__name__}: {e}"
    return bool(np.array_equal(a, b)), "FIXSRC round trip"


def F26():
    from armi.nuclearDataIO.cccc import dlayxs

    src = os.path.join(os.path.dirname(dlayxs.__file__), "tests", "fixtures", "mc2v3.dlayxs")
    d = dlayxs.readBinary(src)
    with tempfile.TemporaryDirectory() as tmp:
        f = os.path.join(tmp, "d.ascii")
        dlayxs.writeAscii(d, f)
        try:
            d2 = dlayxs.readAscii(f)
        except Exception as e:  # noqa
            return False, f"ASCII DLAYXS written by armi cannot be read back: {type(e).__name__}: {str(e)[:80]}"
    return bool(dlayxs.compare(d, d2)), "DLAYXS ascii round trip"


def F27():
    import math
    from armi.nuclearDataIO.cccc import cccc

    vals = [1.0, -2.5e-100, 3.3e200, float("inf"), float("nan"), 5e-324, 1.7976931348623157e308]

    class S(cccc.Stream):
        def __init__(self, fn, mode, v):
            cccc.Stream.__init__(self, fn, mode)
            self.v = v

        def readWrite(self):
            with self.createRecord() as rec:
                for i in range(len(self.v)):
                    self.v[i] = rec.rwDouble(self.v[i])

    with tempfile.TemporaryDirectory() as tmp:
        f = os.path.join(tmp, "x.ascii")
        with S(f, "w", list(vals)) as w:
            w.readWrite()
        try:
            with S(f, "r", [None] * len(vals)) as r:
                r.readWrite()
        except Exception as e:  # noqa
            return False, f"ASCII record with extreme floats cannot be read back: {type(e).__name__}: {str(e)[:80]}"
    same = all(a == b or (math.isnan(a) and math.isnan(b)) for a, b in zip(vals, r.v))
    return same, f"wrote {vals} read {r.v}"


def F28():
    import numpy as np
    from armi.nuclearDataIO.cccc import pmatrx
    from armi.nuclearDataIO.tests.test_xsLibraries import PMATRX_AA

    lib = pmatrx.readBinary(PMATRX_AA)
    lib.pmatrxMetadata["maxScatteringOrder"] = 3
    for nuc in lib.nuclides:
        nuc.pmatrxMetadata["maxScatteringOrder"] = 3
        sh = nuc.isotropicProduction.shape
        nuc.linearAnisotropicProduction = np.full(sh, 2.0)
        nuc.nOrderProductionMatrix[3] = np.full(sh, 3.0)
    with tempfile.TemporaryDirectory() as tmp:
        f = os.path.join(tmp, "p3.bin")
        pmatrx.writeBinary(lib, f)
        try:
            l2 = pmatrx.readBinary(f)
        except Exception as e:  # noqa
            return False, f"PMATRX with order-3 production matrices cannot be read back: {type(e).__name__}: {str(e)[:80]}"
    return bool(np.all(l2.nuclides[0].nOrderProductionMatrix[3] == 3.0)), "PMATRX order-3 round trip"


def F29():
    from armi import settings

    cs = settings.Settings()
    with tempfile.TemporaryDirectory() as tmp:
        f = os.path.join(tmp, "full.yaml")
        cs.writeToYamlFile(f, style="full")
        try:
            cs2 = settings.Settings(f)
        except Exception as e:  # noqa
            return False, f"a full-style settings file of all defaults cannot be read back: {type(e).__name__}: {str(e)[:100]}"
    diff = [k for k in cs.keys() if k != "versions" and cs[k] != cs2[k]]
    return not diff, f"settings differing after full-style round trip: {diff}"


def F30():
    from armi.physics.neutronics import crossSectionGroupManager as x
    from armi.physics.neutronics.fissionProductModel.tests import test_lumpedFissionProduct
    from armi.reactor.tests.test_blocks import buildSimpleFuelBlock

    bc = x.MedianBlockCollection(["U235", "U238"])
    bc.validBlockTypes = None
    lfps = test_lumpedFissionProduct.getDummyLFPFile().createLFPsFromFile()
    for bu in (1.0, 2.0, 3.0):
        b = buildSimpleFuelBlock()
        b.p.percentBu = bu
        b.setLumpedFissionProducts(lfps)
        bc.append(b)
    try:
        rep = bc.createRepresentativeBlock()
    except AttributeError as e:
        return False, f"median representative of blocks with LFPs cannot be built: {e}"
    return rep.p.percentBu == 2.0, f"median representative burnup {rep.p.percentBu}"


def F31():
    from armi.reactor.tests.test_blocks import buildSimpleFuelBlock

    b = buildSimpleFuelBlock()
    try:
        b.p.envGroupNum = 52
    except RuntimeError:
        return True, "envGroupNum 52 is rejected"
    letter = b.p.envGroup
    b.p.envGroup = letter
    return b.p.envGroupNum == 52, f"envGroupNum=52 stored letter {letter!r}; setting that letter gives number {b.p.envGroupNum}"


def F32():
    import io
    from armi.utils import asciimaps

    data = {(i, j): "A" for i in range(-2, 3) for j in range(-2, 3)}
    m = asciimaps.AsciiMapCartesian()
    m.asciiLabelByIndices = dict(data)
    try:
        m.gridContentsToAscii()
    except ValueError:
        return True, "Cartesian map with negative indices is refused"
    s = io.StringIO()
    m.writeAscii(s)
    m2 = asciimaps.AsciiMapCartesian()
    m2.readAscii(s.getvalue())
    back = {k: v for k, v in m2.asciiLabelByIndices.items() if v != asciimaps.PLACEHOLDER}
    return back == data, f"drawn map reads back {len(back)} of {len(data)} cells"


def F33():
    from armi.reactor.blueprints.tests.test_materialModifications import TestMaterialModifications

    t = TestMaterialModifications()
    try:
        t.loadUZrAssembly(
            """
        material modifications:
            by component:
                fuel1:
                    U235_wt_frac: [0.20, 0.10]
                fuel2:
                    U235_wt_frac: [0.50]
"""
        )
    except ValueError:
        return True, "wrong-length by-component list is refused"
    return False, "a by-component list with 2 entries for 1 block was accepted because another component has the same modification name"


ALL = dict(F33=F33, F32=F32, F31=F31, F30=F30, F29=F29, F28=F28, F26=F26, F27=F27, F24=F24, F25=F25, F23=F23, F10=F10, F12=F12, F17=F17, F18=F18, F19=F19, F11=F11, F13=F13, F20=F20, F21=F21, F22=F22, F1=F1, F2=F2, F3=F3, F4=F4, F5=F5, F6=F6, F7=F7, F8=F8, F9=F9, F14=F14)

if __name__ == "__main__":
    sys.path.insert(0, os.getcwd())
    from armi import configure

    configure(permissive=True)
    ids = sys.argv[1:] or list(ALL)
    bad = 0
    for i in ids:
        try:
            ok, what = ALL[i]()
        except Exception as e:  # noqa
            ok, what = None, f"repro crashed: {type(e).__name__}: {e}"
        print(i, "ok" if ok else ("DEFECT" if ok is False else "INCONCLUSIVE"), "-", what)
        bad += ok is False
    sys.exit(1 if bad else 0)
