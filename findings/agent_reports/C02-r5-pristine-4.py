"""Pristine defect: expandElementalToIsotopics overwrites isotope densities that are already present.

For a component holding both the elemental nuclide (FE) and one of its isotopes (FE56, e.g. an
activation/depletion product tracked explicitly), the expansion SETS FE56 = N(FE)*abundance instead of
adding to it: the atoms (and mass) that were in FE56 before vanish.
"""
import sys, os
sys.path.insert(0, os.getcwd())
import atexit, shutil
if not os.path.exists("logs"):
    atexit.register(shutil.rmtree, "logs", ignore_errors=True)
from armi import configure
configure(permissive=True)
import armi
assert armi.__file__.startswith(os.getcwd()), armi.__file__
from armi import runLog
runLog.setVerbosity("error")

from armi.reactor import blocks, components
from armi.nucDirectory import nuclideBases
T = dict(Tinput=400.0, Thot=400.0)
b = blocks.HexBlock("x", height=10.0)
clad = components.Circle("clad", "HT9", od=0.86, id=0.70, mult=61, **T)
b.add(clad)
b.add(components.Hexagon("duct", "HT9", op=9.0, ip=8.6, mult=1, **T))
clad.setNumberDensity("FE56", 0.01)
feNucs = [nb.name for nb in nuclideBases.byName["FE"].element.nuclides]
n0 = sum(clad.getNumberDensity(n) for n in feNucs)
m0 = clad.getMass(feNucs)
b.expandElementalToIsotopics(nuclideBases.byName["FE"])
n1 = sum(clad.getNumberDensity(n) for n in feNucs)
m1 = clad.getMass(feNucs)
print("iron atom density in clad before", n0, "after expansion (expected the same)", n1)
print("iron mass in clad before", m0, "after", m1)
bad = abs(n1 - n0) > 1e-6 * n0
print("DEFECT" if bad else "OK")
sys.exit(1 if bad else 0)
