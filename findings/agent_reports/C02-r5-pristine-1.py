"""Pristine defect: mass edits/reads on a COMPONENT of a symmetry-cut block disagree with Component.getMass.

Component.getMass divides the volume by the parent block's symmetry factor, but ArmiObject.setMass /
addMass / getMasses / getHMMoles on the same component use the uncut Component.getVolume().
So on the central block of a 1/3 core (factor 3): c.setMass(nuc, m) reads back m/3, and
c.getMasses()[nuc] is 3x c.getMass(nuc).
"""
import sys, os
sys.path.insert(0, os.getcwd())
import atexit, shutil
if not os.path.exists("logs"):
    atexit.register(shutil.rmtree, "logs", ignore_errors=True)
from armi import configure
configure(permissive=True)
import armi
assert armi.__file__.startswith(os.getcwd()), armi.__file__
from armi import runLog
runLog.setVerbosity("error")

import io, contextlib
from armi.reactor.tests.test_reactors import loadTestReactor
from armi.reactor.flags import Flags
from armi.tests import TEST_ROOT
with contextlib.redirect_stdout(io.StringIO()):
    o, r = loadTestReactor(TEST_ROOT)
core = r.core
a = core.childrenByLocator[core.spatialGrid[0, 0, 0]]
b = a.getFirstBlock(Flags.FUEL)
fuel = b.getComponent(Flags.FUEL)
bad = 0
print("block symmetry factor:", b.getSymmetryFactor())
fuel.setMass("U235", 10.0)
got = fuel.getMass("U235")
print("fuel.setMass('U235', 10.0); fuel.getMass('U235')  expected 10.0, observed", got)
bad += abs(got - 10.0) > 1e-6
m1, m2 = fuel.getMasses()["U235"], fuel.getMass("U235")
print("fuel.getMasses()['U235'] expected == getMass('U235') =", m2, ", observed", m1)
bad += abs(m1 - m2) > 1e-6 * m2
fuel.addMass("U235", 3.0)
got2 = fuel.getMass("U235")
print("fuel.addMass('U235', 3.0): expected", got + 3.0, "observed", got2)
bad += abs(got2 - got - 3.0) > 1e-6
hmMolesBlock = b.getHMMoles()
hmMolesKids = sum(c.getHMMoles() for c in b)
print("block.getHMMoles() expected == sum over components =", hmMolesKids, ", observed", hmMolesBlock)
bad += abs(hmMolesBlock - hmMolesKids) > 1e-6 * hmMolesKids
print("DEFECT" if bad else "OK")
sys.exit(1 if bad else 0)
