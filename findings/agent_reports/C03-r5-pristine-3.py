"""Pristine defect (C03, lower confidence): leaving a state-retaining scope with temperatureInC and
numberDensities among the parameters to keep restores the *cached volume* from before the
temperature change, so the kept (hot) state has volume != area*height and its mass changes.
(The same stale cache appears when code assigns ``c.temperatureInC = T`` directly, as
crossSectionGroupManager.AverageBlockCollection._makeRepresentativeBlock does after
setNumberDensities, which caches the volume at the old temperature.)
"""
import sys, os

sys.path.insert(0, os.getcwd())
from armi import configure

configure(permissive=True)
import armi

assert armi.__file__.startswith(os.getcwd()), armi.__file__
from armi import runLog

runLog.setVerbosity("error")
from armi.reactor import blocks
from armi.reactor.components import Circle, Hexagon

b = blocks.HexBlock("b", height=10.0)
c = Circle("clad", "HT9", 25.0, 300.0, od=1.0, id=0.8, mult=1)
d = Hexagon("duct", "HT9", 25.0, 300.0, op=5.0, ip=4.8, mult=1)
b.add(c)
b.add(d)
m0 = c.getMass()
keep = [c.p.paramDefs["temperatureInC"], c.p.paramDefs["numberDensities"]]
with b.retainState(keep):
    c.setTemperature(700.0)
    mInside = c.getMass()
mAfter, vol, expected = c.getMass(), c.getVolume(), c.getArea() * b.getHeight()
print("temperature after the scope : {}".format(c.temperatureInC))
print("mass before / inside / after: {:.9f} / {:.9f} / {:.9f}".format(m0, mInside, mAfter))
print("cached volume {:.10f} vs area*height {:.10f}".format(vol, expected))
if abs(vol - expected) > 1e-10 or abs(mAfter - m0) > 1e-9 * m0:
    print("DEFECT: kept temperature/number densities are combined with the volume cached at the old temperature")
    sys.exit(1)
print("no defect observed")
