"""C11 pristine finding 3: a HexBlock whose components do not fill the pitch hexagon (here: pins and
duct but no coolant component, so the space between the pins is not modelled) has block number
densities averaged over the SUM of the component volumes, but its re-meshed (homogenized) copy is a
full hexagon of the block pitch.  makeAssemWithUniformMesh therefore multiplies the atoms of every
nuclide by hexArea / sum(componentAreas), even onto the identical axial mesh.

Run: cd <armi tree> && python C11-pristine-3.py   (exit 1 when the defect shows)
"""
import sys, os

sys.path.insert(0, os.getcwd())
from armi import configure

configure(permissive=True)
import armi

assert armi.__file__.startswith(os.getcwd()), armi.__file__
from armi import runLog

runLog.setVerbosity("error")
from armi.reactor import assemblies, blocks, components, grids
from armi.reactor.converters.uniformMesh import UniformMeshGeometryConverter as UMC


def buildBlock(height):
    b = blocks.HexBlock("fuel", height=height)
    b.setType("fuel")
    b.add(components.Circle("fuel", "UZr", Tinput=25.0, Thot=25.0, od=0.76, id=0.0, mult=127.0))
    b.add(components.Circle("clad", "HT9", Tinput=25.0, Thot=25.0, od=0.80, id=0.77, mult=127.0))
    b.add(components.Hexagon("duct", "HT9", Tinput=25.0, Thot=25.0, op=16.0, ip=15.3, mult=1.0))
    b.p.xsType = "A"
    return b


a = assemblies.HexAssembly("fuel")
a.spatialGrid = grids.AxialGrid.fromNCells(2)
for h in (20.0, 30.0):
    a.add(buildBlock(h))
a.calculateZCoords()


def atoms(a):
    tot = {}
    for b in a:
        v = b.getVolume() * b.getSymmetryFactor()
        for n, d in b.getNumberDensities().items():
            tot[n] = tot.get(n, 0.0) + d * v
    return tot


t0 = atoms(a)
u = UMC.makeAssemWithUniformMesh(a, a.getAxialMesh())
t1 = atoms(u)
ratio = t1["U235"] / t0["U235"]
print(f"source block: sum of component areas {a[0].getArea():.4f} cm2, pitch hexagon {a[0].getMaxArea():.4f} cm2")
print(f"expected U235 atoms after re-meshing onto the identical mesh: {t0['U235']:.6e}")
print(f"observed                                                   : {t1['U235']:.6e}  (ratio {ratio:.6f})")
if abs(ratio - 1.0) > 1e-9:
    print("DEFECT SHOWN")
    sys.exit(1)
print("no defect observed")
sys.exit(0)
