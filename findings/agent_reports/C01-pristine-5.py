"""Pristine C01 defect 5: a removed component whose locator is a MultiIndexLocation is not fully detached:
MultiIndexLocation.detachedCopy() re-uses the inner IndexLocation objects, which still point at the old block grid
(and are the grid-owned cached cells)."""
import sys, os

sys.path.insert(0, os.getcwd())
from armi import configure

configure(permissive=True)
import armi

assert armi.__file__.startswith(os.getcwd()), armi.__file__
import copy, pickle
from armi import settings, tests, runLog
from armi.reactor import assemblies, blocks, grids, composites
from armi.reactor.components import Hexagon, Circle
from armi.materials import uZr

runLog.setVerbosity("error")


def mkBlock(typ="fuel"):
    b = blocks.HexBlock("TestBlock")
    b.setType(typ)
    b.add(Hexagon("duct", uZr.UZr(), Tinput=600, Thot=600, op=16.0, ip=15.0, mult=1))
    b.add(Circle("fuel", uZr.UZr(), Tinput=600, Thot=600, od=0.5, id=0.0, mult=7))
    b.add(Circle("clad", uZr.UZr(), Tinput=600, Thot=600, od=0.6, id=0.5, mult=7))
    return b


def mkAssem(n=2, num=None):
    a = assemblies.HexAssembly("fuel", assemNum=num)
    a.spatialGrid = grids.AxialGrid.fromNCells(n)
    for _ in range(n):
        a.add(mkBlock())
    return a


bad = []


def check(ok, expected, observed):
    print(("ok      " if ok else "DEFECT  ") + f"expected: {expected}; observed: {observed}")
    if not ok:
        bad.append(observed)


def finish():
    print("DEFECT PRESENT" if bad else "no defect observed")
    sys.exit(1 if bad else 0)

blk = mkBlock()
blk.spatialGrid = grids.HexGrid.fromPitch(1.0)
blk.spatialGrid.armiObject = blk
c = blk[1]
c.spatialLocator = blk.spatialGrid[[(0, 0, 0), (1, 0, 0), (0, 1, 0)]]
blk.remove(c)
check(c.parent is None and c.spatialLocator.grid is None, "removed component: no parent, locator.grid None", f"parent={c.parent!r}, grid={c.spatialLocator.grid!r}")
inner = [loc.grid is blk.spatialGrid for loc in c.spatialLocator]
check(not any(inner), "every inner location of the detached MultiIndexLocation has grid None", f"inner locations still attached to the old block grid: {inner}")
shared = [loc is blk.spatialGrid[tuple(int(v) for v in loc.indices)] for loc in c.spatialLocator]
check(not any(shared), "detached locator shares no location object with the old grid", f"inner location is the grid's own cached cell: {shared}")
finish()
