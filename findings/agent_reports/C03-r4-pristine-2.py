"""Pristine defect (C03): a *solid* DerivedShape (e.g. a graphite/steel matrix filling the rest of
a block) does not conserve mass when its temperature changes: setTemperature scales its number
densities by 1/(1+dL/L)^2 but a DerivedShape's area never expands, so mass per unit height drops.
The same happens for the volumetric shapes (Sphere, Cube, ...) whose THERMAL_EXPANSION_DIMS is empty."""
import sys, os

sys.path.insert(0, os.getcwd())
from armi import configure

configure(permissive=True)
import armi

assert armi.__file__.startswith(os.getcwd()), armi.__file__
import math
from armi.reactor import blocks
from armi.reactor.components import Circle, Hexagon, DerivedShape

b = blocks.HexBlock("b", height=10.0)
hole = Circle("coolant", "Sodium", 400, 400, od=0.8, id=0.0, mult=7)
duct = Hexagon("duct", "HT9", 25, 400, op=5.0, ip=4.8)
matrix = DerivedShape("matrix", "Graphite", 25.0, 400.0)
for c in (hole, duct, matrix):
    b.add(c)
a0, m0 = matrix.getArea(), matrix.getMass()
matrix.setTemperature(800.0)
a1, m1 = matrix.getArea(), matrix.getMass()
print(f"matrix area  400C -> 800C: {a0!r} -> {a1!r}")
print(f"expected mass (conserved) = {m0!r}")
print(f"observed mass             = {m1!r}  (ratio {m1/m0:.6f})")
import shutil; shutil.rmtree(os.path.join(os.getcwd(), "logs"), ignore_errors=True)
if not math.isclose(m0, m1, rel_tol=1e-9):
    print("DEFECT: solid DerivedShape loses mass when heated (densities scaled, area not)")
    sys.exit(1)
print("ok")
