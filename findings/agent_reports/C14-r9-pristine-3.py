"""Pristine defect candidate: dischargeSwap of a fresh (negative-numbered) assembly with stationary blocks.
The outgoing assembly's grid plate stays in the core inside the incoming assembly; Core.add then renumbers
the incoming assembly and renames that block, but its old name is never removed from blocksByName
(the purge of the outgoing assembly only deleted the names of the blocks it holds now)."""
import sys, os; sys.path.insert(0, os.getcwd())
from armi import configure; configure(permissive=True)
import armi
assert armi.__file__.startswith(os.getcwd())
import shutil
from armi.testing import loadTestReactor, reduceTestReactorRings
from armi.physics.fuelCycle import fuelHandlers
probs = {}
for track in (False, True):
    o, r = loadTestReactor(customSettings={"trackAssems": track})
    reduceTestReactorRings(r, o.cs, 3)
    core = r.core
    fh = fuelHandlers.FuelHandler(o)
    outgoing = core[3]
    fresh = core.createFreshFeed(o.cs)
    fh.dischargeSwap(fresh, outgoing)
    live = {id(b) for a in core.getAssemblies(includeSFP=True) for b in a}
    stale = [(k, b.getName()) for k, b in core.blocksByName.items() if b.getName() != k]
    purged = []
    missing = [b.getName() for a in core.getAssemblies(includeSFP=True) for b in a if core.blocksByName.get(b.getName()) is not b]
    probs[track] = (stale, purged, missing)
shutil.rmtree(os.path.join(os.getcwd(), "logs"), ignore_errors=True)
print("expected: every blocksByName key is the current name of the block it returns; every core/pool block found under its current name")
bad = False
for track, (stale, purged, missing) in probs.items():
    print("observed (trackAssems=%s): stale keys %s ; missing %s" % (track, stale, missing))
    bad = bad or bool(stale or purged or missing)
sys.exit(1 if bad else 0)
