"""C07 pristine 1: labels of cells with a negative index cannot be converted back (Grid.getLabel / locatorLabelToIndices are not inverse for Cartesian/structured grids)."""
import sys, os
sys.path.insert(0, os.getcwd())
from armi import configure
configure(permissive=True)
import armi
assert armi.__file__.startswith(os.getcwd()), armi.__file__
import math
import numpy as np
from armi.reactor import grids
bad = []

g = grids.CartesianGrid.fromRectangle(1.0, 1.0, numRings=3)
for idx in [(1, 2, 0), (-1, 2, 0), (2, -3, 0), (-2, -2, 1)]:
    label = g.getLabel(idx)
    try:
        back = grids.locatorLabelToIndices(label)
    except Exception as e:
        bad.append(f"indices {idx}: label {label!r}; expected locatorLabelToIndices -> {idx}, observed {e!r}")
        continue
    if tuple(back) != idx:
        bad.append(f"indices {idx}: label {label!r}; expected {idx}, observed {back}")

if bad:
    print("DEFECT")
    for b in bad[:10]:
        print("  ", b)
    sys.exit(1)
print("no defect observed")
sys.exit(0)

