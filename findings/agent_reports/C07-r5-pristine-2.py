import sys, os
sys.path.insert(0, os.getcwd())
from armi import configure
configure(permissive=True)
import armi
assert armi.__file__.startswith(os.getcwd()), armi.__file__
import math
import numpy as np
from armi.reactor import grids


class Obj:
    """Minimal stand-in for an ArmiObject: parent, spatialGrid, spatialLocator."""

    def __init__(self, parent=None):
        self.parent = parent
        self.spatialGrid = None
        self.spatialLocator = None


def nest():
    core = Obj(); assem = Obj(core); block = Obj(assem)
    core.spatialGrid = grids.CartesianGrid.fromRectangle(1.0, 1.0, armiObject=core)
    assem.spatialGrid = grids.AxialGrid.fromNCells(5, armiObject=assem)
    block.spatialGrid = grids.CartesianGrid.fromRectangle(0.1, 0.1, armiObject=block)
    core.spatialLocator = grids.CoordinateLocation(0.0, 0.0, 0.0, None)
    assem.spatialLocator = core.spatialGrid[2, 3, 0]
    block.spatialLocator = assem.spatialGrid[0, 0, 3]
    return core, assem, block


# A CoordinateLocation (free point) inside a nested grid: getGlobalCoordinates adds the parents'
# coordinates, but getGlobalCellBase/getGlobalCellTop return the bare local numbers.
core, assem, block = nest()
free = grids.CoordinateLocation(0.01, 0.02, 0.3, block.spatialGrid)
centre = free.getGlobalCoordinates()
base = free.getGlobalCellBase()
top = free.getGlobalCellTop()
print("global centre of the point      ", centre)
print("expected base == top == centre  ")
print("observed global base / top      ", base, top)
if not (np.allclose(base, centre) and np.allclose(top, centre)):
    print("DEFECT: a point's global cell base/top ignore the enclosing grids (local numbers returned)")
    sys.exit(1)
print("no defect")
