# Composite.backUp/restoreBackup test `if self.spatialGrid:`; a grid's truth value is len(grid) = number of
# index locations created so far, so a grid that is empty at backUp but not at restore is restored without
# having been backed up (and vice versa)
import sys, os; sys.path.insert(0, os.getcwd())
from armi import configure; configure(permissive=True)
from armi.reactor import composites, grids
c = composites.Composite("c")
g = grids.HexGrid.fromPitch(1.0, numRings=0)  # no index locations pre-built
g.armiObject = c
c.spatialGrid = g
print("len(grid) at entry:", len(g))
p0 = g.pitch
try:
    with c.retainState():
        g.changePitch(2.0)
        g[0, 0, 0]  # first location is created inside the scope -> grid becomes truthy
    print("expected pitch restored to", p0, "observed", g.pitch)
    sys.exit(0 if g.pitch == p0 else 1)
except Exception as e:
    print("expected pitch restored to", p0, "; observed exception on scope exit:", type(e).__name__, e, "pitch now", g.pitch)
    sys.exit(1)
