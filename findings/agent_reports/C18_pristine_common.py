HEAD = """
nuclide flags:
    U235: {burn: false, xs: true}
    U238: {burn: false, xs: true}
    PU239: {burn: false, xs: true}
    PU240: {burn: false, xs: true}
    TH232: {burn: false, xs: true}
    ZR: {burn: false, xs: true}
    NA: {burn: false, xs: true}
    FE: {burn: false, xs: true}
    CR: {burn: false, xs: true}
    MN: {burn: false, xs: true}
    MO: {burn: false, xs: true}
    NI: {burn: false, xs: true}
    SI: {burn: false, xs: true}
    V: {burn: false, xs: true}
    W: {burn: false, xs: true}
    C: {burn: false, xs: true}
custom isotopics:
    plut:
        input format: mass fractions
        PU239: 0.9
        PU240: 0.1
    dep:
        input format: mass fractions
        U238: 1.0
"""
BLOCKS = """
blocks:
    fuel: &block_fuel
        GRIDLINE
        fuel:
            shape: Circle
            material: FUELMAT
            Tinput: 25.0
            Thot: 600.0
            id: 0.0
            od: 0.7
            FUELMULT
        clad:
            shape: Circle
            material: HT9
            Tinput: 25.0
            Thot: 450.0
            id: 0.8
            od: 0.9
            CLADMULT
        coolant:
            shape: DerivedShape
            material: Sodium
            Tinput: 450.0
            Thot: 450.0
        duct:
            shape: Hexagon
            material: HT9
            Tinput: 25.0
            Thot: 450.0
            ip: 15.0
            op: 15.6
            mult: 1
    small: &block_small
        fuel:
            shape: Circle
            material: UZr
            Tinput: 25.0
            Thot: 600.0
            id: 0.0
            od: 0.7
            mult: 169
        duct:
            shape: Hexagon
            material: HT9
            Tinput: 25.0
            Thot: 450.0
            ip: 14.0
            op: 14.6
            mult: 1
"""


def blocks(grid="", mat="UZr", fuelmult="mult: 169", cladmult="mult: 169"):
    return (
        BLOCKS.replace("GRIDLINE", grid)
        .replace("FUELMAT", mat)
        .replace("FUELMULT", fuelmult)
        .replace("CLADMULT", cladmult)
    )
