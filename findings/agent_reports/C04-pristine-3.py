"""C04 pristine 3: assigned persistent parameters that are recomputed, defaulted or dropped by a save/load."""
import sys, os

sys.path.insert(0, os.getcwd())
from armi import configure

configure(permissive=True)

import shutil
import tempfile

import armi

assert armi.__file__.startswith(os.getcwd()), armi.__file__

from armi import runLog
from armi.bookkeeping.db import Database
from armi.reactor import grids
from armi.testing import loadTestReactor, reduceTestReactorRings
from armi.tests import TEST_ROOT


def build():
    o, r = loadTestReactor(TEST_ROOT)
    runLog.setVerbosity("error")
    reduceTestReactorRings(r, o.cs, 2)
    return o, r


def roundTrip(o, r, tmp, tag="rt"):
    """Returns (loadedReactor, None) or (None, 'what failed')."""
    db = Database(os.path.join(tmp, tag + ".h5"), "w")
    db.open()
    try:
        try:
            db.writeToDB(r)
        except Exception as e:
            return None, "writeToDB raised {}: {}".format(type(e).__name__, str(e)[:150])
        try:
            return db.load(0, 0, cs=o.cs, bp=r.blueprints), None
        except Exception as e:
            return None, "load raised {}: {}".format(type(e).__name__, str(e)[:150])
    finally:
        db.h5db.close()
        db.h5db = None


def report(problems):
    if problems:
        print("DEFECT SHOWN on unchanged armi ({} observations)".format(len(problems)))
        for p in problems:
            print("  ", p)
        return 1
    print("no defect observed")
    return 0


def main():
    o, r = build()
    core = r.core
    b = core[1][1]
    bOther = core[0][1]
    fuel = b[0]
    # arbitrary assignments of persistent parameters
    b.p.kgHM = 123.0  # recomputed by Core.processLoading -> setBlockMassParams
    b.p.z = 17.0  # recomputed by Assembly.calculateZCoords
    core.p.maxAssemNum = 500  # recomputed by Core.processLoading
    core.p.beta = 0.0042  # reset from settings by the neutronics plugin hook
    fuel.p.zrFrac = 0.1  # no default; other Circles never set it -> whole dataset skipped
    b.p.pinLocation = []  # empty list comes back as None
    bOther.p.pinLocation = [1, 2, 3]
    b.p.power = float("nan")  # NaN comes back as None once any block holds None
    bOther.p.power = None
    expected = {
        "block kgHM": b.p.kgHM,
        "block z": b.p.z,
        "core maxAssemNum": core.p.maxAssemNum,
        "core beta": core.p.beta,
        "fuel zrFrac": fuel.p.zrFrac,
        "block pinLocation": b.p.pinLocation,
        "block power": b.p.power,
    }
    tmp = tempfile.mkdtemp(prefix="c04p3")
    try:
        r2, err = roundTrip(o, r, tmp)
    finally:
        shutil.rmtree(tmp, ignore_errors=True)
    if err:
        return report([err])
    b2 = r2.core[1][1]
    assert b2.p.serialNum == b.p.serialNum
    observed = {
        "block kgHM": b2.p.kgHM,
        "block z": b2.p.z,
        "core maxAssemNum": r2.core.p.maxAssemNum,
        "core beta": r2.core.p.beta,
        "fuel zrFrac": b2[0].p.get("zrFrac", "<unset>"),
        "block pinLocation": b2.p.pinLocation,
        "block power": b2.p.power,
    }
    problems = []
    for k, v in expected.items():
        w = observed[k]
        same = (v == w) or (
            isinstance(v, float) and isinstance(w, float) and v != v and w != w
        )
        if isinstance(v, list):
            same = isinstance(w, (list, tuple)) and list(w) == v
        if not same:
            problems.append("{}: expected {!r}, observed {!r}".format(k, v, w))
    return report(problems)


if __name__ == "__main__":
    sys.exit(main())
