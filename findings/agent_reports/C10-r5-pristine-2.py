"""C10 pristine defect 2: a rejected nuclide merge is not atomic.

XSNuclide.merge first merges metadata and the neutron/gamma XS collections and only then checks the
PMATRX-type attributes. Target: FE56AA with PMATRX data only. Other: FE56AA with PMATRX data AND neutron
micros. The PMATRX conflict raises AttributeError, but by then the target nuclide already took the
micros of the rejected library.
"""
import sys, os

sys.path.insert(0, os.getcwd())
from armi import configure

configure(permissive=True)
import armi

assert armi.__file__.startswith(os.getcwd()), armi.__file__
import numpy as np
from armi.nuclearDataIO import xsLibraries, xsNuclides, xsCollections
from armi.nuclearDataIO.cccc import isotxs


t = xsLibraries.IsotxsLibrary()
n = xsNuclides.XSNuclide(t, "FE56AA")
n.neutronHeating = np.array([1.0, 2.0, 3.0])
t["FE56AA"] = n
o = xsLibraries.IsotxsLibrary()
n2 = xsNuclides.XSNuclide(o, "FE56AA")
n2.neutronHeating = np.array([4.0, 5.0, 6.0])
n2.micros.nGamma = np.array([7.0, 8.0, 9.0])
o["FE56AA"] = n2
try:
    t.merge(o)
    print("unexpected: no error")
    sys.exit(2)
except AttributeError as ee:
    print("merge rejected as expected: {}".format(str(ee).splitlines()[0]))
print("expected target FE56AA micros.nGamma after rejected merge: None")
print("observed target FE56AA micros.nGamma after rejected merge: {}".format(t["FE56AA"].micros.nGamma))
if t["FE56AA"].micros.nGamma is not None:
    print("DEFECT: target nuclide took neutron data from a library whose merge was rejected")
    sys.exit(1)
print("no defect")
sys.exit(0)
