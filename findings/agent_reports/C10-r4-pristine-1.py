"""Pristine defect (C10): macroscopic energy-deposition constants for a composition holding a nuclide whose
library entry has no heating data depend on the ALPHABETICAL position of that nuclide.

computeMacroscopicGroupConstants initialises its accumulator from the first (sorted) nuclide. A nuclide that
is in the library but has neutronHeating None (ISOTXS nuclide for which the merged PMATRX had no entry) gives
np.asarray(None): shape (), .any() False.
  * sorted after a nuclide with data  -> the "shape differs and all zero" branch replaces it by zeros: silently
    treated as zero contribution;
  * sorted first                      -> accumulator is a 0-d array and `+= N * None` raises TypeError.
Expected: both compositions behave the same way (either the additive value, or the same error).
"""
import sys, os

sys.path.insert(0, os.getcwd())
from armi import configure

configure(permissive=True)
import numpy as np
import armi
from armi.nucDirectory import nuclideBases
from armi.nuclearDataIO import xsCollections, xsLibraries, xsNuclides
from armi.utils import units

assert armi.__file__.startswith(os.getcwd()), armi.__file__
NG = 3


def lib(withHeating):
    ll = xsLibraries.IsotxsLibrary()
    ll.neutronEnergyUpperBounds = np.array([1e7, 1e4, 1.0])
    for name in ("FE56", "U235"):
        base = nuclideBases.byName[name]
        nuc = xsNuclides.XSNuclide(ll, base.label + "AA")
        nuc._base = base
        nuc.micros.nGamma = np.ones(NG)
        if name == withHeating:
            nuc.neutronHeating = np.array([1.0, 2.0, 3.0])
        ll[base.label + "AA"] = nuc
    return ll


def run(withHeating):
    dens = {"FE56": 0.1, "U235": 0.2}
    try:
        return xsCollections.computeNeutronEnergyDepositionConstants(dens, lib(withHeating), "AA")
    except Exception as ee:
        return "{}: {}".format(type(ee).__name__, ee)


a = run("FE56")  # U235 (sorted last) lacks heating
b = run("U235")  # FE56 (sorted first) lacks heating
print("only FE56 has heating (missing one sorted last):", a)
print("only U235 has heating (missing one sorted first):", b)
print("expected: the same treatment in both cases, e.g. N*heating*J/eV =",
      0.1 * np.array([1.0, 2.0, 3.0]) * units.JOULES_PER_eV, "and", 0.2 * np.array([1.0, 2.0, 3.0]) * units.JOULES_PER_eV,
      "(or the same error twice)")
if isinstance(a, str) != isinstance(b, str):
    print("DEFECT: one composition is silently summed with the data-less nuclide as zero, the other raises")
    sys.exit(1)
print("no defect observed")
