import sys, os
sys.path.insert(0, os.getcwd())
from armi import configure
configure(permissive=True)
import armi
assert armi.__file__.startswith(os.getcwd()), armi.__file__
import math
import numpy as np
from armi.reactor import grids


class Obj:
    """Minimal stand-in for an ArmiObject: parent, spatialGrid, spatialLocator."""

    def __init__(self, parent=None):
        self.parent = parent
        self.spatialGrid = None
        self.spatialLocator = None


def nest():
    core = Obj(); assem = Obj(core); block = Obj(assem)
    core.spatialGrid = grids.CartesianGrid.fromRectangle(1.0, 1.0, armiObject=core)
    assem.spatialGrid = grids.AxialGrid.fromNCells(5, armiObject=assem)
    block.spatialGrid = grids.CartesianGrid.fromRectangle(0.1, 0.1, armiObject=block)
    core.spatialLocator = grids.CoordinateLocation(0.0, 0.0, 0.0, None)
    assem.spatialLocator = core.spatialGrid[2, 3, 0]
    block.spatialLocator = assem.spatialGrid[0, 0, 3]
    return core, assem, block


# HexGrid.triangleCoords uses a fixed flats-up table: in a corners-up grid the 6 "triangle centres"
# point at the hexagon's corners (30, 90, ... degrees) instead of at the faces / neighbours
# (0, 60, ... degrees), i.e. they sit on the lines separating the triangles.
bad = False
for cornersUp in (False, True):
    h = grids.HexGrid.fromPitch(1.0, cornersUp=cornersUp)
    c = h.getCoordinates((2, -1, 0))[:2]
    tri = h.triangleCoords((2, -1, 0)) - c
    nbr = [h.getCoordinates(n)[:2] - c for n in h.getNeighboringCellIndices(2, -1, 0)]
    angT = [round(math.degrees(math.atan2(y, x)) % 360, 3) for x, y in tri]
    angN = [round(math.degrees(math.atan2(y, x)) % 360, 3) for x, y in nbr]
    print("cornersUp", cornersUp, "triangle-centre directions", angT, "expected (towards the 6 faces/neighbours)", angN)
    if angT != angN:
        bad = True
if bad:
    print("DEFECT: triangle centres are not rotated with the corners-up orientation")
    sys.exit(1)
print("no defect")
