"""Pristine C01 defect 4: Composite.setChildren(items) empties the container BEFORE consuming ``items``; any lazy
iterable over the same container (reversed(c), iter(c), filter(..., c), a generator) therefore yields nothing
and the re-order silently deletes all children."""
import sys, os

sys.path.insert(0, os.getcwd())
from armi import configure

configure(permissive=True)
import armi

assert armi.__file__.startswith(os.getcwd()), armi.__file__
import copy, pickle
from armi import settings, tests, runLog
from armi.reactor import assemblies, blocks, grids, composites
from armi.reactor.components import Hexagon, Circle
from armi.materials import uZr

runLog.setVerbosity("error")


def mkBlock(typ="fuel"):
    b = blocks.HexBlock("TestBlock")
    b.setType(typ)
    b.add(Hexagon("duct", uZr.UZr(), Tinput=600, Thot=600, op=16.0, ip=15.0, mult=1))
    b.add(Circle("fuel", uZr.UZr(), Tinput=600, Thot=600, od=0.5, id=0.0, mult=7))
    b.add(Circle("clad", uZr.UZr(), Tinput=600, Thot=600, od=0.6, id=0.5, mult=7))
    return b


def mkAssem(n=2, num=None):
    a = assemblies.HexAssembly("fuel", assemNum=num)
    a.spatialGrid = grids.AxialGrid.fromNCells(n)
    for _ in range(n):
        a.add(mkBlock())
    return a


bad = []


def check(ok, expected, observed):
    print(("ok      " if ok else "DEFECT  ") + f"expected: {expected}; observed: {observed}")
    if not ok:
        bad.append(observed)


def finish():
    print("DEFECT PRESENT" if bad else "no defect observed")
    sys.exit(1 if bad else 0)

for label, mk in [("reversed(c)", lambda c: reversed(c)), ("iter(c)", lambda c: iter(c)), ("generator", lambda c: (k for k in c if k.name != "k1")), ("list(reversed(c))", lambda c: list(reversed(c)))]:
    c = composites.Composite("p")
    kids = [composites.Composite(f"k{i}") for i in range(3)]
    for k in kids:
        c.add(k)
    want = [k.name for k in mk(c)]
    c.setChildren(mk(c))
    got = [k.name for k in c._children]
    check(got == want, f"setChildren({label}) leaves {want}", f"{got}; parents {[None if k.parent is None else k.parent.name for k in kids]}")
finish()
