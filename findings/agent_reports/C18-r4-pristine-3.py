"""Pristine defect: a core system whose `grid name` matches no grid is built silently as an EMPTY core.

SystemBlueprint.construct does `bp.gridDesigns.get(self.gridName, None)` and then treats None as "this system needs no
grid".  A typo in the grid name of the core therefore gives a reactor with zero assemblies and no error, although the
blueprint names something that does not exist (an unknown reference that should be refused).
"""
import sys, os
sys.path.insert(0, os.getcwd())
from armi import configure
configure(permissive=True)
import armi
assert armi.__file__.startswith(os.getcwd()), armi.__file__
from armi import settings, runLog
from armi.reactor import blueprints, reactors
runLog.setVerbosity("error")

BASE = r"""
nuclide flags:
    U: {burn: false, xs: true}
    ZR: {burn: false, xs: true}
blocks:
    b: &block_b
        fuel:
            shape: Hexagon
            material: UZr
            Tinput: 600.0
            Thot: 600.0
            ip: 0.0
            mult: 1
            op: 10.0
assemblies:
    one:
        specifier: "1"
        blocks: [*block_b]
        height: [10.0]
        axial mesh points: [1]
        xs types: [A]
    two:
        specifier: "2"
        blocks: [*block_b]
        height: [10.0]
        axial mesh points: [1]
        xs types: [B]
systems:
    core:
        grid name: GRIDNAME
        origin: {x: 0.0, y: 0.0, z: 0.0}
grids:
    core:
        geom: hex
        symmetry: full
"""
TXT = BASE.replace("GRIDNAME", "cor") + """        lattice map: |
          - 2 2
           2 1 2
            2 2
"""
TXT = TXT.replace("geom: hex", "geom: hex_corners_up")
bp = blueprints.Blueprints.load(TXT)
try:
    r = reactors.factory(settings.Settings(), bp)
except Exception as e:
    print("refused with", repr(e))
    print("no defect observed")
    sys.exit(0)
print("expected: an error naming the unknown grid `cor` (or a 7-assembly core)")
print(f"observed: no error, core holds {len(r.core)} assemblies, core.spatialGrid = {r.core.spatialGrid}")
if len(r.core) == 0:
    print("DEFECT: unknown grid name silently produced an empty core")
    sys.exit(1)
print("no defect observed")
