"""C12 pristine defect 3 (by-design approximation, but a literal violation of the statement): when
fuel and clad of the fuel blocks grow by different fractions, the plenum block above (target: clad,
all of its own solids given the SAME factor 1.0) is squeezed between the fuel-driven block boundary
below and the clad-driven boundary above; its number densities are untouched, so the mass of its
target component (and of every other solid in it) is NOT conserved."""
import sys, os

sys.path.insert(0, os.getcwd())
from armi import configure

configure(permissive=True)
import armi

assert armi.__file__.startswith(os.getcwd()), armi.__file__

from armi.reactor import grids
from armi.reactor.assemblies import HexAssembly
from armi.reactor.blocks import HexBlock
from armi.reactor.components import DerivedShape
from armi.reactor.components.basicShapes import Circle, Hexagon
from armi.reactor.converters.axialExpansionChanger import AxialExpansionChanger
from armi.reactor.converters.axialExpansionChanger.expansionData import (
    iterSolidComponents,
)
from armi.reactor.flags import Flags


def buildBlock(blockType, height=10.0, T=25.0):
    b = HexBlock(blockType, height=height)
    common = {"Tinput": 25.0, "Thot": T}
    main = Circle(blockType, "HT9", od=0.76, id=0.0, mult=127.0, **common)
    clad = Circle("clad", "HT9", od=0.80, id=0.77, mult=127.0, **common)
    duct = Hexagon("duct", "HT9", op=16.0, ip=15.3, mult=1.0, **common)
    cool = DerivedShape("coolant", "Sodium", **common)
    inter = Hexagon("intercoolant", "Sodium", op=17.0, ip=16.0, mult=1.0, **common)
    for c in (main, clad, duct, cool, inter):
        b.add(c)
    b.setType(blockType)
    b.getVolumeFractions()
    return b


def buildDummy(height=10.0, T=25.0):
    b = HexBlock("dummy", height=height)
    b.add(Hexagon("dummy coolant", "Sodium", Tinput=25.0, Thot=T, op=17.0, ip=0.0, mult=1.0))
    b.getVolumeFractions()
    b.setType("dummy")
    return b


def buildAssembly():
    a = HexAssembly("testAssemblyType")
    a.spatialGrid = grids.AxialGrid.fromNCells(numCells=1)
    a.spatialGrid.armiObject = a
    for t in ("shield", "fuel", "fuel", "plenum"):
        a.add(buildBlock(t))
    a.add(buildDummy())
    a.calculateZCoords()
    a.reestablishBlockOrder()
    return a



def main():
    a = buildAssembly()
    fb = a.getBlocks(Flags.FUEL)
    plenum = a.getBlocks(Flags.PLENUM)[0]
    comps = [b.getComponent(Flags.FUEL) for b in fb]
    m0 = {c: c.getMass() for c in iterSolidComponents(plenum)}
    AxialExpansionChanger().performPrescribedAxialExpansion(a, comps, [1.10] * len(comps))
    target = plenum.getComponentByName(plenum.p.axialExpTargetComponent)
    print("expected: mass of the plenum target component (", target.name, ") conserved")
    ratios = {c.name: c.getMass() / m0[c] for c in m0}
    print("observed: plenum height", plenum.getHeight(), "mass ratios", ratios)
    if abs(ratios[target.name] - 1.0) > 1e-9:
        print("DEFECT: target-component mass of the plenum block not conserved")
        return 1
    print("no defect observed")
    return 0


if __name__ == "__main__":
    sys.exit(main())
