"""C09 pristine defect 3: two silent value changes on a write/read round trip.

(a) IORecord.rwBool only accepts the builtin bool: `False if not isinstance(val, bool)`.
    A numpy bool (what comparisons on numpy data produce, e.g. lib flag = arr.any()) is
    silently written as 0, so a PMATRX header flag such as hasDoseConversionFactor=np.True_
    is written False and the announced optional record is dropped.
(b) GeodstStream._rw6DRecord/_rw7DRecord allocate the region map as int16 when reading, so a
    region number above 32767 written through the (32-bit) integer field cannot be read back
    (wraps with older numpy, OverflowError with numpy 2).
Run: cd <armi tree> && python C09-pristine-3.py   (exit 1 when a defect shows)
"""
import sys, os

sys.path.insert(0, os.getcwd())
from armi import configure

configure(permissive=True)
import io
import tempfile

import numpy as np

import armi
from armi.nuclearDataIO import cccc
from armi.nuclearDataIO.cccc import geodst

assert armi.__file__.startswith(os.getcwd()), armi.__file__
bad = []

# (a)
s = io.BytesIO()
with cccc.BinaryRecordWriter(s) as rec:
    rec.rwBool(True)
    rec.rwBool(np.bool_(True))
    rec.rwBool(np.array([1.0, 2.0]).any())
s.seek(0)
with cccc.BinaryRecordReader(s) as rec:
    got = [rec.rwBool(None) for _ in range(3)]
print("(a) rwBool: expected [True, True, True] observed", got)
if got != [True, True, True]:
    bad.append("rwBool numpy bool")

# (b)
fixture = os.path.join(
    os.getcwd(), "armi", "nuclearDataIO", "cccc", "tests", "fixtures", "simple_hexz.geodst"
)
g = geodst.readBinary(fixture)
g.coarseMeshRegions = g.coarseMeshRegions.astype(np.int32)
g.coarseMeshRegions[0, 0, 0] = 40000
g.metadata["NREG"] = 40000
g.regionVolumes = np.ones(40000, dtype=np.float32)
g.regionZoneNumber = np.ones(40000, dtype=int)
with tempfile.TemporaryDirectory() as tmp:
    p = os.path.join(tmp, "GEODST")
    geodst.writeBinary(g, p)
    try:
        back = geodst.readBinary(p)
        observed = int(back.coarseMeshRegions[0, 0, 0])
    except Exception as ee:
        observed = "{}: {}".format(type(ee).__name__, ee)
print("(b) GEODST region number: expected 40000 read back, observed", observed)
if observed != 40000:
    bad.append("GEODST int16 region map")

if bad:
    print("DEFECT PRESENT:", bad)
    sys.exit(1)
print("no defect observed")
sys.exit(0)
