"""C12 pristine defect 2: re-designating a block's axial-expansion target on an existing
ExpansionData (determineTargetComponent / _setExpansionTarget) never un-registers the previous
target. _componentDeterminesBlockHeight then holds two targets for the block and the block
boundary follows whichever comes LAST in component order, not the designated one
(b.p.axialExpTargetComponent).

Expected: after determineTargetComponent(plenumBlock, Flags.PLENUM) the plenum block top
moves with the 'plenum' component.  Observed: it still moves with the clad.
"""
import sys, os

sys.path.insert(0, os.getcwd())
from armi import configure

configure(permissive=True)
import armi

assert armi.__file__.startswith(os.getcwd()), armi.__file__

from armi.reactor import grids
from armi.reactor.assemblies import HexAssembly
from armi.reactor.blocks import HexBlock
from armi.reactor.components import DerivedShape
from armi.reactor.components.basicShapes import Circle, Hexagon
from armi.reactor.converters.axialExpansionChanger import AxialExpansionChanger
from armi.reactor.flags import Flags

T = 400.0


def pinBlock(blockType, height):
    b = HexBlock(blockType, height=height)
    for c in [
        Circle(blockType, "HT9", Tinput=25.0, Thot=T, od=0.76, id=0.0, mult=127.0),
        Circle("clad", "HT9", Tinput=25.0, Thot=T, od=0.80, id=0.77, mult=127.0),
        Hexagon("duct", "HT9", Tinput=25.0, Thot=T, op=16.0, ip=15.3, mult=1.0),
        DerivedShape("coolant", "Sodium", Tinput=25.0, Thot=T),
        Hexagon("intercoolant", "Sodium", Tinput=25.0, Thot=T, op=17.0, ip=16.0),
    ]:
        b.add(c)
    b.setType(blockType)
    b.getVolumeFractions()
    return b


def dummyBlock(height):
    b = HexBlock("dummy", height=height)
    b.add(Hexagon("dummy coolant", "Sodium", Tinput=25.0, Thot=T, op=17.0, ip=0.0))
    b.getVolumeFractions()
    b.setType("dummy")
    return b


def main():
    a = HexAssembly("fuel")
    a.spatialGrid = grids.AxialGrid.fromNCells(numCells=1)
    a.spatialGrid.armiObject = a
    for b in (pinBlock("shield", 10.0), pinBlock("fuel", 12.0), pinBlock("fuel", 15.0), pinBlock("plenum", 20.0), dummyBlock(30.0)):
        a.add(b)
    a.calculateZCoords()
    a.reestablishBlockOrder()

    chg = AxialExpansionChanger()
    chg.setAssembly(a)  # plenum block: default target = clad
    plenum = a[3]
    first = plenum.p.axialExpTargetComponent
    new = chg.expansionData.determineTargetComponent(plenum, Flags.PLENUM)  # on-the-fly re-designation
    pin, clad = plenum.getComponentByName("plenum"), plenum.getComponentByName("clad")
    chg.expansionData.setExpansionFactors([pin, clad], [1.10, 1.02])
    chg.axiallyExpandAssembly()

    print(f"default target '{first}', re-designated target '{plenum.p.axialExpTargetComponent}' ({new})")
    print(f"registered targets in block: {[c.name for c in plenum if chg.expansionData.isTargetComponent(c)]}")
    print(f"expected: plenum block ztop == top of designated 'plenum' component = {pin.ztop}")
    print(f"observed: plenum block ztop = {plenum.p.ztop} (clad top = {clad.ztop})")
    if abs(plenum.p.ztop - pin.ztop) > 1e-9:
        print("DEFECT: block boundary did not move with its designated target component")
        return 1
    return 0


if __name__ == "__main__":
    sys.exit(main())
