"""
PRISTINE defect (C05): a value assigned to a parameter that has no default (NoDefault) is silently
thrown away by Database._writeParams when any OTHER object of the same type has not assigned that
parameter.  `temp` then contains the NoDefault sentinel, and the branch
`if parameters.NoDefault in data: data = None` skips the whole dataset - no error at write time,
and the assigned value does not come back on reading.

Run: cd <armi tree> && /venv/bin/python /tmp/seedout4/C05-pristine-1.py   (exit 1 = defect shown)
"""
import sys, os

sys.path.insert(0, os.getcwd())
from armi import configure

configure(permissive=True)
import armi

assert armi.__file__.startswith(os.getcwd())
import shutil, tempfile
from armi.bookkeeping.db.database import Database
from armi.reactor import components


def mk(i):
    return components.Circle("c%d" % i, "HT9", 20, 20, od=1.0 + i, id=0.0, mult=1)


comps = [mk(i) for i in range(3)]
comps[1].p.zrFrac = 0.1  # Component param with default=NoDefault, saveToDB=True
d = tempfile.mkdtemp()
db = Database(os.path.join(d, "x.h5"), "w")
db.open()
g = db.h5db.create_group("c00n00")
db._writeParams(g, comps)  # accepted, no error
stored = "zrFrac" in g["Circle"]
new = [mk(i) for i in range(3)]
Database._readParams(g, "Circle", new)
try:
    got = new[1].p.zrFrac
except Exception as ee:
    got = "%s: %s" % (type(ee).__name__, str(ee)[:90])
db.close(True)
shutil.rmtree(d, ignore_errors=True)
print("expected: component 1 zrFrac == 0.1 after the round trip (or an error at write time)")
print("observed: dataset written: %s ; component 1 zrFrac after read: %s" % (stored, got))
if got != 0.1:
    print("DEFECT: assigned value silently dropped")
    sys.exit(1)
print("no defect")
