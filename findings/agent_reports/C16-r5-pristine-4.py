"""Pristine defect (C16, cache leak): a retainState scope opened on a single Component restores that
component, but a volume that a LINKED SIBLING cached while the scope was open survives the scope:
clearLinkedCache() invalidates the sibling's cached volume when the dimension is edited inside the
scope, the sibling recomputes (and caches) it from the temporary dimension, and nothing invalidates
it again when the scope ends. After the scope sibling.getVolume() disagrees with its own area*height.
"""
import sys, os

sys.path.insert(0, os.getcwd())
from armi import configure

configure(permissive=True)
import armi

assert armi.__file__.startswith(os.getcwd()), armi.__file__
from armi import runLog
from armi.reactor import blocks, components

runLog.setVerbosity("error")

b = blocks.HexBlock("blk", height=10.0)
fuel = components.Circle(
    "fuel", "UZr", Tinput=25.0, Thot=600.0, od=0.76, id=0.0, mult=127.0
)
clad = components.Circle(
    "clad",
    "HT9",
    Tinput=25.0,
    Thot=450.0,
    od=0.80,
    id="fuel.od",
    mult=127.0,
    components={"fuel": fuel},
)
duct = components.Hexagon(
    "duct", "HT9", Tinput=25.0, Thot=400.0, op=16.0, ip=15.3, mult=1.0
)
cool = components.DerivedShape("coolant", "Sodium", Tinput=25.0, Thot=400.0)
for c in (fuel, clad, duct, cool):
    b.add(c)

vClad0 = clad.getVolume()
vCool0 = cool.getVolume()
with fuel.retainState():
    fuel.setDimension("od", 0.5)
    clad.getVolume()  # computed (and cached in clad.p.volume) inside the scope
vClad1 = clad.getVolume()
vCool1 = cool.getVolume()
print("fuel od restored:", fuel.getDimension("od", cold=True), "(expected 0.76)")
print("clad volume before scope {:.4f}, after scope {:.4f}, area*height now {:.4f}".format(
    vClad0, vClad1, clad.getArea() * b.getHeight()))
print("coolant volume before scope {:.4f}, after scope {:.4f}".format(vCool0, vCool1))
problems = []
if abs(vClad1 - vClad0) > 1e-9 * vClad0:
    problems.append(
        "clad.getVolume() is {:.4f} after the scope, was {:.4f} before it (fuel fully restored)".format(
            vClad1, vClad0
        )
    )
if abs(vCool1 - vCool0) > 1e-9 * vCool0:
    problems.append(
        "coolant (derived shape) volume is {:.4f} after the scope, was {:.4f} before it".format(
            vCool1, vCool0
        )
    )
if problems:
    print("DEFECT")
    for p in problems:
        print("  " + p)
    sys.exit(1)
print("OK")
