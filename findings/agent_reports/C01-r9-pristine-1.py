import sys, os; sys.path.insert(0, os.getcwd())
from armi import configure; configure(permissive=True)
import armi
assert armi.__file__.startswith(os.getcwd()), armi.__file__
from armi.reactor import composites, blocks, assemblies, grids

bad = []
# (1) adding an object that already has another parent: it ends up listed by two parents
p1, p2, x = composites.Composite("p1"), composites.Composite("p2"), composites.Composite("x")
p1.add(x); p2.add(x)
owners = [p.name for p in (p1, p2) if x in p]
if len(owners) != 1:
    bad.append("add() of a child that already has a parent: expected it listed by exactly one parent, observed listed by %s (x.parent=%s)" % (owners, x.parent.name))
# (2) append/extend put an object in the child list without making this its parent
p3, y = composites.Composite("p3"), composites.Composite("y")
p3.append(y)
if y.parent is not p3:
    bad.append("append(): expected child.parent is the composite, observed parent=%r" % (y.parent,))
# (3) Assembly.insert leaves two blocks on the same axial location / stale names
a = assemblies.HexAssembly("asm")
a.spatialGrid = grids.AxialGrid.fromNCells(1); a.spatialGrid.armiObject = a
bs = []
for i in range(3):
    b = blocks.HexBlock("b%d" % i); b.p.height = 1.0; bs.append(b)
a.add(bs[0]); a.add(bs[1])
a.insert(0, bs[2])
ks = [b.spatialLocator.k for b in a]
if ks != list(range(len(a))):
    bad.append("Assembly.insert(0, b): expected block k indices %s in child order, observed %s" % (list(range(len(a))), ks))
if bad:
    print("DEFECT")
    for m in bad: print("  " + m)
    sys.exit(1)
print("no defect observed")
