"""C09 pristine defect 4 (string lengths): a string longer than its field is truncated by the binary
writer but written in full by the ASCII writer, which shifts every following field: the ASCII
file of the same container can no longer be read (or is read misaligned).

BinaryRecordWriter.rwString packs with '%ds' (truncates to the field length);
AsciiRecordWriter.rwString formats with '{value:<{length}}', which pads but never truncates,
while numBytes and the reader both assume exactly `length` characters.
Shown with LABELS: composition labels of 10 characters in the 8 character fields.
"""
import sys, os

sys.path.insert(0, os.getcwd())
from armi import configure

configure(permissive=True)
import tempfile

import numpy as np

import armi
from armi.nuclearDataIO.cccc import labels

assert armi.__file__.startswith(os.getcwd()), armi.__file__
FIX = os.path.join(os.getcwd(), "armi", "nuclearDataIO", "cccc", "tests", "fixtures", "labels.binary")

data = labels.readBinary(FIX)
data.zoneLabels = np.array(["ZN{:08d}".format(i) for i in range(len(data.zoneLabels))])  # 10 characters
observed = {}
with tempfile.TemporaryDirectory() as tmp:
    for mode, w, r in (("binary", labels.writeBinary, labels.readBinary), ("ascii", labels.writeAscii, labels.readAscii)):
        name = os.path.join(tmp, "LABELS." + mode)
        w(data, name)
        try:
            back = r(name)
            observed[mode] = "zone labels {} ... region labels equal: {}".format(
                list(back.zoneLabels[:2]), list(back.regionLabels) == list(data.regionLabels)
            )
        except Exception as ee:
            observed[mode] = "reading raised {}: {}".format(type(ee).__name__, str(ee).strip().splitlines()[0])

print("expected: both encodings treat the 8-character field alike and the written file reads back")
for k, v in observed.items():
    print("observed {}: {}".format(k, v))
if "raised" in observed["ascii"] or "equal: False" in observed["ascii"]:
    print("DEFECT")
    sys.exit(1)
sys.exit(0)
