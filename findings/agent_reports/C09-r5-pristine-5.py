"""C09 pristine defect 5: a DLAYXS file in which a nuclide contributes to fewer (or more) than 6 precursor
families cannot be read.

CCCC-IV DLAYXS 3D record: ((SNUDEL(J,K),J=1,NGROUP),K=1,NKFAMI),(NUMFAM(K),K=1,NKFAMI).
DlayxsIO._rwYield reads/writes NKFAMI yield vectors but always Dlayxs.numPrecursorGroups (= 6) family
numbers, and DelayedNeutronData is always allocated with 6 precursor groups. A hand-packed, spec-conformant
file with NKFAMI = 4 therefore fails in the reader.
"""
import sys, os

sys.path.insert(0, os.getcwd())
from armi import configure

configure(permissive=True)
import struct
import tempfile

import armi
from armi import runLog
from armi.nuclearDataIO.cccc import dlayxs

assert armi.__file__.startswith(os.getcwd()), armi.__file__
runLog.setVerbosity("error")


def rec(payload):
    return struct.pack("i", len(payload)) + payload + struct.pack("i", len(payload))


ng, nfam, nkfam = 2, 4, 4
blob = rec(b"DLAYXS  USER    USER           1")
blob += rec(struct.pack("4i", ng, 1, nfam, 0))
blob += rec(
    b"U235_7  "
    + struct.pack(f"{nfam}f", 0.0125, 0.0318, 0.109, 0.317)  # decay constants
    + struct.pack(f"{nfam * ng}f", *[0.5] * (nfam * ng))  # emission spectra
    + struct.pack(f"{ng}f", 1.0e7, 1.0e3)  # emax
    + struct.pack("f", 1.0e-5)  # emin
    + struct.pack("i", nkfam)  # NKFAM
    + struct.pack("i", 0)  # LOCA
)
blob += rec(
    struct.pack(f"{nkfam * ng}f", *[0.001 * (k + 1) for k in range(nkfam * ng)])
    + struct.pack(f"{nkfam}i", 1, 2, 3, 4)
)

with tempfile.TemporaryDirectory() as tmp:
    p1, p2 = os.path.join(tmp, "DLAYXS"), os.path.join(tmp, "DLAYXS.again")
    open(p1, "wb").write(blob)
    try:
        lib = dlayxs.readBinary(p1)
        dlayxs.writeBinary(lib, p2)
        same = open(p2, "rb").read() == blob
        print("read ok; families", list(lib.nuclideFamily.values()), "byte-identical rewrite:", same)
        if not same:
            print("DEFECT: DLAYXS with NKFAMI=4 is not reproduced byte for byte")
            sys.exit(1)
    except Exception as ee:
        print("expected a DLAYXS file with NKFAMI=4 to be read; observed", type(ee).__name__, str(ee).strip().splitlines()[0])
        print("DEFECT: DLAYXS with NKFAMI != 6 cannot be read")
        sys.exit(1)
print("no defect observed")
sys.exit(0)
