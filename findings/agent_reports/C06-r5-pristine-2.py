"""C06 pristine defect 2: the 'location' history of an object below assembly level is inconsistent
between written steps and the current (not yet written) step.

Written steps return the complete core indices (i, j, k) that the layout stores
(IndexLocation.getCompleteIndices), but the value supplied for the current step by
DatabaseInterface.getHistory / getHistories and Database.getHistories is
comp.spatialLocator.indices, i.e. the block's indices inside its assembly (0, 0, k) - so a block
that never moved appears to jump to the core centre at the current step (and comes back once the
step is written). getHistories additionally returns an ndarray instead of a tuple for that step.
Run as: cd <armi tree> && python C06-pristine-2.py ; exit 1 when the defect shows.
"""
import sys, os

sys.path.insert(0, os.getcwd())
from armi import configure

configure(permissive=True)
import armi

assert armi.__file__.startswith(os.getcwd()), armi.__file__
import io, tempfile, contextlib
from armi import runLog
from armi.testing import loadTestReactor, reduceTestReactorRings
from armi.bookkeeping.db.databaseInterface import DatabaseInterface

quiet = io.StringIO()
os.chdir(tempfile.mkdtemp(prefix="C06-p2-"))
with contextlib.redirect_stdout(quiet), contextlib.redirect_stderr(quiet):
    o, r = loadTestReactor(customSettings={"db": True, "verbosity": "error"})
    reduceTestReactorRings(r, o.cs, 3)
    runLog.setVerbosity("error")
    o.removeAllInterfaces()
    dbi = DatabaseInterface(r, o.cs)
    o.addInterface(dbi)
    dbi.initDB()
    a = [x for x in r.core if tuple(x.spatialLocator.indices[:2]) != (0, 0)][0]
    b = a[1]
    for c, n in [(0, 0), (0, 1)]:
        r.p.cycle, r.p.timeNode = c, n
        dbi.database.writeToDB(r)
    r.p.cycle, r.p.timeNode = 0, 2  # current step, nothing moved, not written yet
    h1 = dict(dbi.getHistory(b, ["location"])["location"])
    h2 = dict(dbi.getHistories([b], ["location"])[b]["location"])
    # now write the step and ask the database again
    dbi.database.writeToDB(r)
    h3 = dict(dbi.database.getHistory(b, ["location"], [(0, 2)])["location"])
    dbi.closeDB()

want = tuple(int(i) for i in b.spatialLocator.getCompleteIndices())
print("block", b.getName(), "never moves; complete indices", want)
print("expected location at every step:", want)
print("DatabaseInterface.getHistory  :", h1)
print("DatabaseInterface.getHistories:", h2)
print("after writing (0,2), Database.getHistory:", h3)
bad = any(tuple(int(i) for i in v) != want for v in list(h1.values()) + list(h2.values()))
print("DEFECT: the current step reports the in-assembly indices" if bad else "OK")
sys.exit(1 if bad else 0)
