"""Pristine C01 defect 2: Core.add checks that the target location is free only AFTER Composite.add has attached
the assembly; the rejected assembly stays a child of the core (parent=core, no grid location, not in
childrenByLocator). The error path also looks up childrenByLocator[a.spatialLocator] (wrong key) and raises
KeyError instead of the intended ValueError."""
import sys, os

sys.path.insert(0, os.getcwd())
from armi import configure

configure(permissive=True)
import armi

assert armi.__file__.startswith(os.getcwd()), armi.__file__
import copy, pickle
from armi import settings, tests, runLog
from armi.reactor import assemblies, blocks, grids, composites
from armi.reactor.components import Hexagon, Circle
from armi.materials import uZr

runLog.setVerbosity("error")


def mkBlock(typ="fuel"):
    b = blocks.HexBlock("TestBlock")
    b.setType(typ)
    b.add(Hexagon("duct", uZr.UZr(), Tinput=600, Thot=600, op=16.0, ip=15.0, mult=1))
    b.add(Circle("fuel", uZr.UZr(), Tinput=600, Thot=600, od=0.5, id=0.0, mult=7))
    b.add(Circle("clad", uZr.UZr(), Tinput=600, Thot=600, od=0.6, id=0.5, mult=7))
    return b


def mkAssem(n=2, num=None):
    a = assemblies.HexAssembly("fuel", assemNum=num)
    a.spatialGrid = grids.AxialGrid.fromNCells(n)
    for _ in range(n):
        a.add(mkBlock())
    return a


bad = []


def check(ok, expected, observed):
    print(("ok      " if ok else "DEFECT  ") + f"expected: {expected}; observed: {observed}")
    if not ok:
        bad.append(observed)


def finish():
    print("DEFECT PRESENT" if bad else "no defect observed")
    sys.exit(1 if bad else 0)

r = tests.getEmptyHexReactor()
A = mkAssem(2)
A.spatialLocator = r.core.spatialGrid[1, 0, 0]
r.core.add(A)
B = mkAssem(2)
err = None
try:
    r.core.add(B, r.core.spatialGrid[1, 0, 0])  # occupied
except Exception as e:  # noqa
    err = e
check(isinstance(err, ValueError), "ValueError for an occupied location", f"{type(err).__name__}: {err}")
listed = any(c is B for c in r.core._children)
check(not listed and B.parent is None, "rejected assembly is not in the model (no parent, not listed)", f"listed by core: {listed}, parent: {B.parent!r}, locator grid: {B.spatialLocator.grid!r}")
check(len(r.core) == len(r.core.childrenByLocator), "one childrenByLocator entry per core child", f"{len(r.core)} children vs {len(r.core.childrenByLocator)} located")
finish()
