"""C18 pristine defect 2: a specifier in a pin lattice map that no component claims is dropped silently.

An unknown specifier in the *core* map is refused (KeyError from constructAssem).  In a block's pin
lattice the same mistake -- position ``X`` that no component lists in its ``latticeIDs`` -- is accepted:
the position is simply left empty, the multiplicities are learned from the remaining positions, and the
block is built with 6 pins where the map draws 7.  Nothing is logged.
Run as: cd <armi tree> && /venv/bin/python /tmp/seedout5/C18-pristine-2.py
"""
import sys, os

sys.path.insert(0, os.getcwd())
from armi import configure

configure(permissive=True)
import armi

assert armi.__file__.startswith(os.getcwd()), armi.__file__
sys.path.insert(0, os.path.dirname(os.path.abspath(__file__)))
from C18_pristine_common import HEAD, blocks

from armi import runLog, settings
from armi.reactor import blueprints

runLog.setVerbosity("error")

text = HEAD + blocks(grid="grid name: pins", fuelmult="latticeIDs: [F]", cladmult="latticeIDs: [F]") + """
assemblies:
    fuel a:
        specifier: A
        blocks: [*block_fuel]
        height: [25.0]
        axial mesh points: [1]
        xs types: [A]
grids:
    pins:
        geom: hex_corners_up
        symmetry: full
        lattice map: |
            - F F
             F X F
              F F
"""
print("expected: an error naming the unknown pin-lattice specifier `X` (7 positions drawn, 6 claimed)")
try:
    bp = blueprints.Blueprints.load(text)
    a = bp.constructAssem(settings.Settings(), name="fuel a")
except Exception as e:
    print(f"observed: refused with {type(e).__name__}: {e}")
    bad = False
else:
    b = a[0]
    print(
        "observed: built without complaint; "
        + ", ".join(f"{c.name} mult={c.getDimension('mult')}" for c in b)
        + f"; grid contents {dict(bp.gridDesigns['pins'].gridContents)}"
    )
    bad = True

if os.path.isdir("logs") and not os.listdir("logs"):
    os.rmdir("logs")
print("DEFECT SHOWN" if bad else "no defect")
sys.exit(1 if bad else 0)
