"""
Pristine defect (C15, lower severity): for a simple-input history with burnSteps: 0 and nCycles > 1
armi.utils.getStepLengths returns [[]] (ONE cycle) whatever nCycles is, so getBurnSteps /
getNodesPerCycle have the wrong length and the (cycle,node) <-> cumulative node conversions are not
inverse to each other; the Operator refuses such a history outright (ValueError from
_checkReactorCycleAttrs), i.e. a multi-cycle zero-burn-step history can only be run when written
in the detailed form with ``step days: []``.
Run as: cd <armi tree> && /venv/bin/python C15-pristine-3.py   (exit 1 when the defect shows)
"""
import sys, os

sys.path.insert(0, os.getcwd())
from armi import configure

configure(permissive=True)
import armi

assert armi.__file__.startswith(os.getcwd()), armi.__file__
from armi import settings
from armi.utils import (
    getCumulativeNodeNum,
    getCycleNodeFromCumulativeNode,
    getNodesPerCycle,
    getStepLengths,
)

cs = settings.Settings().modified(
    newSettings={"nCycles": 3, "burnSteps": 0, "cycleLength": 10.0, "power": 1.0e6}
)
bad = False
steps = getStepLengths(cs)
print("expected step lengths [[], [], []]; observed", steps)
bad |= steps != [[], [], []]
print("expected nodes per cycle [1, 1, 1]; observed", getNodesPerCycle(cs))
for c in range(3):
    cum = getCumulativeNodeNum(c, 0, cs)
    back = getCycleNodeFromCumulativeNode(c, cs)
    print(f"(cycle {c}, node 0): expected cumulative node {c}, observed {cum}; "
          f"cumulative node {c} -> expected ({c}, 0), observed {back}")
    bad |= cum != c or tuple(back) != (c, 0)
print("DEFECT" if bad else "OK")
sys.exit(1 if bad else 0)
