"""C15 pristine defect 2: TightCoupler.storePreviousIterationValue keeps a *reference* to the value
returned by getTightCouplingValue(). If an interface returns a list / numpy array that it updates in
place (numpy arrays are explicitly supported), the "previous" value is the same object as the "current"
one, eps is 0 and the operator declares the time node converged after the first coupled iteration even
though the value still changes by far more than the tolerance. Expected: iterate until the change is
below the tolerance or the cap (tightCouplingMaxNumIters) is reached.
"""
import sys, os; sys.path.insert(0, os.getcwd())
import atexit, shutil

if not os.path.exists("logs"):
    atexit.register(shutil.rmtree, "logs", True)
from armi import configure; configure(permissive=True)
import armi

assert armi.__file__.startswith(os.getcwd()), armi.__file__
import logging

logging.disable(1000)
import numpy as np

from armi import interfaces
from armi.operators.operator import Operator
from armi.testing import loadTestReactor

CAP = 5
CALLS = []


class InPlace(interfaces.Interface):
    name = "inplace"
    function = "f1"

    def __init__(self, r, cs):
        interfaces.Interface.__init__(self, r, cs)
        self.field = np.zeros(3)
        self.k = 0

    def interactEveryNode(self, cycle, node):
        self.k = 0

    def interactCoupled(self, iteration):
        CALLS.append((self.r.p.cycle, self.r.p.timeNode, iteration))
        self.k += 1
        self.field += 100.0 / self.k  # changes by 100, 50, 33, 25, 20: never within 0.1

    def getTightCouplingValue(self):
        return self.field


class FakeDB(interfaces.Interface):
    name = "database"

    def writeDBEveryNode(self):
        pass


o0, r = loadTestReactor()
cs = o0.cs.modified(
    newSettings={
        "nCycles": 1,
        "burnSteps": 1,
        "tightCoupling": True,
        "tightCouplingSettings": {"f1": {"parameter": "x", "convergence": 0.1}},
        "tightCouplingMaxNumIters": CAP,
    }
)
o = Operator(cs)
o.r = r
r.o = o
r.p.cycle = 0
r.p.timeNode = 0
o.addInterface(InPlace(r, cs))
o.addInterface(FakeDB(r, cs))
o.operate()

expected = [(0, n, it) for n in range(2) for it in range(CAP)]
print("expected coupled iterations (never converges -> cap %d per node): %s" % (CAP, expected))
print("observed coupled iterations: %s" % CALLS)
if CALLS != expected:
    print("DEFECT: convergence declared although the coupled value changed by >= 20 (tolerance 0.1)")
    sys.exit(1)
print("OK")
