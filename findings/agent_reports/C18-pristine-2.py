"""C18, pristine defect 2: two assembly designs with the SAME specifier are accepted; the one
defined later silently wins at every map position that names the specifier.

Duplicate assembly *names* are refused by yamlize, but the specifier - the name the core map
actually uses - is not checked: Blueprints._prepConstruction fills
`_assembliesBySpecifier[aDesign.specifier] = a` in definition order.  An inconsistent
blueprint (ambiguous specifier) is therefore not refused, and the first design can never be
placed."""
import sys, os

sys.path.insert(0, os.getcwd())
from armi import configure

configure(permissive=True)
import armi

assert os.path.abspath(armi.__file__).startswith(os.getcwd()), armi.__file__
from armi import runLog, settings
from armi.reactor import blueprints, reactors

runLog.setVerbosity("error")

BP = """
nuclide flags:
    U238: {burn: true, xs: true}
    U235: {burn: true, xs: true}
    ZR: {burn: false, xs: true}
blocks:
    fuel: &block_fuel
        fuel:
            shape: Hexagon
            material: UZr
            Tinput: 25.0
            Thot: 25.0
            ip: 0.0
            mult: 1.0
            op: 5.0
assemblies:
    short fuel:
        specifier: IC
        blocks: [*block_fuel]
        height: [10]
        axial mesh points: [1]
        xs types: [A]
    tall fuel:
        specifier: IC
        blocks: [*block_fuel, *block_fuel]
        height: [10, 20]
        axial mesh points: [1, 1]
        xs types: [A, B]
systems:
    core:
        grid name: core
        origin: {x: 0.0, y: 0.0, z: 0.0}
grids:
    core:
        geom: hex
        symmetry: full
        grid contents:
            [0, 0]: IC
            [1, 0]: IC
"""


def main():
    print("expected: the blueprint is refused (specifier IC names two different assembly designs)")
    try:
        bp = blueprints.Blueprints.load(BP)
        r = reactors.factory(settings.Settings(), bp)
    except Exception as e:
        print("observed: refused with %s: %s" % (type(e).__name__, e))
        print("no defect observed")
        return 0
    print("observed: accepted; the core holds")
    for a in r.core:
        print("   ", tuple(int(v) for v in a.spatialLocator.indices[:2]), a.getType(), "with", len(a), "block(s)")
    print("DEFECT SHOWN: design 'short fuel' (defined first with specifier IC) was silently shadowed")
    return 1


if __name__ == "__main__":
    sys.exit(main())
