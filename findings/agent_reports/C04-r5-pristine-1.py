"""C04 pristine 1: a database loaded in a fresh session ignores the ``materialNamespaceOrder`` setting.

``materialNamespaceOrder`` decides which class a material name such as ``HT9`` resolves to (a
plugin's HT9 before the framework's one). The setting is applied to the global material registry
only by the ``beforeReactorConstruction`` hook, which ``reactors.factory`` calls when a reactor is
built from blueprints. ``Database.load`` builds the components itself (Layout._initComps ->
Component(material=<class name>) -> materials.resolveMaterialClassByName) and never calls the hook
nor looks at ``cs["materialNamespaceOrder"]``. The layout stores only the class *name* of each
material. So: session A builds the reactor (plugin HT9 in use) and saves it; session B (a new
process: post-processing, snapshot or restart run) loads the file with the same settings and
blueprints before constructing anything - and gets the framework's HT9 on every HT9 component:
another material class, hence other hot dimensions, volumes and masses.

Expected: the loaded components use the same material classes (module c04mats) and have the same
hot dimensions / volumes / masses as the saved ones.
Observed on the unchanged tree: module armi.materials.ht9 and different numbers (exit 1).
"""
import sys, os

sys.path.insert(0, os.getcwd())
_HAD_LOGS = os.path.exists(os.path.join(os.getcwd(), "logs"))

import glob
import json
import shutil
import subprocess
import tempfile

MATS = '''
from armi.materials.ht9 import HT9 as _FrameworkHT9


class HT9(_FrameworkHT9):
    """A plugin's own HT9: expands 10 % more than the framework's."""

    def linearExpansionPercent(self, Tk=None, Tc=None):
        return 1.1 * _FrameworkHT9.linearExpansionPercent(self, Tk=Tk, Tc=Tc)
'''

COMMON = '''
import sys, os, json
sys.path.insert(0, os.getcwd())
sys.path.insert(0, {tmp!r})
from armi import configure
configure(permissive=True)
import armi
assert os.path.abspath(armi.__file__).startswith(os.getcwd()), armi.__file__
from armi import runLog, settings
from armi.bookkeeping.db import Database
from armi.reactor import blueprints
from armi.reactor.flags import Flags

ORDER = ["c04mats", "armi.materials"]

def facts(r):
    out = {{}}
    b = r.core.getFirstBlock()
    for c in b:
        out[c.name] = [
            type(c.material).__module__ + "." + type(c.material).__name__,
            round(float(c.getBoundingCircleOuterDiameter()), 9) if c.name != "coolant" else None,
            round(float(c.getVolume()), 7),
            round(float(c.getMass()), 6),
        ]
    return out
'''

WRITER = COMMON + '''
from armi.testing import loadTestReactor
o, r = loadTestReactor({tmp!r}, customSettings={{"materialNamespaceOrder": ORDER}}, inputFileName="armiRunSmallest.yaml")
runLog.setVerbosity("error")
assert o.cs["materialNamespaceOrder"] == ORDER
o.cs.writeToYamlFile(os.path.join({tmp!r}, "withOrder.yaml"))
db = Database(os.path.join({tmp!r}, "saved.h5"), "w")
db.open()
db.writeInputsToDB(o.cs)
r.p.cycle, r.p.timeNode = 0, 0
db.writeToDB(r)
sameSession = facts(db.load(0, 0, cs=o.cs, bp=r.blueprints))
db.close(True)
json.dump({{"saved": facts(r), "sameSession": sameSession}}, open(os.path.join({tmp!r}, "writer.json"), "w"))
'''

READER = COMMON + '''
cs = settings.Settings(os.path.join({tmp!r}, "withOrder.yaml"))
runLog.setVerbosity("error")
assert cs["materialNamespaceOrder"] == ORDER, cs["materialNamespaceOrder"]
bp = blueprints.loadFromCs(cs)
with Database(os.path.join({tmp!r}, "saved.h5"), "r") as db:
    r = db.load(0, 0, cs=cs, bp=bp)
json.dump({{"fresh": facts(r)}}, open(os.path.join({tmp!r}, "reader.json"), "w"))
'''


def run(tmp, name, text):
    path = os.path.join(tmp, name)
    with open(path, "w") as f:
        f.write(text.format(tmp=tmp))
    res = subprocess.run(
        [sys.executable, path], cwd=os.getcwd(), stdout=subprocess.PIPE, stderr=subprocess.STDOUT
    )
    if res.returncode != 0:
        print(res.stdout.decode()[-3000:])
        raise SystemExit("helper {} failed".format(name))


def main():
    import armi

    assert os.path.abspath(armi.__file__).startswith(os.getcwd()), armi.__file__
    from armi.tests import TEST_ROOT

    tmp = tempfile.mkdtemp(prefix="c04p1")
    try:
        for yam in glob.glob(os.path.join(TEST_ROOT, "smallestTestReactor", "*.yaml")):
            shutil.copy(yam, tmp)
        os.mkdir(os.path.join(tmp, "c04mats"))
        with open(os.path.join(tmp, "c04mats", "__init__.py"), "w") as f:
            f.write(MATS)
        run(tmp, "writer.py", WRITER)  # session A: build from blueprints, save
        run(tmp, "reader.py", READER)  # session B: fresh process, only loads the file
        saved = json.load(open(os.path.join(tmp, "writer.json")))
        fresh = json.load(open(os.path.join(tmp, "reader.json")))["fresh"]
    finally:
        shutil.rmtree(tmp, ignore_errors=True)
        if not _HAD_LOGS:
            shutil.rmtree(os.path.join(os.getcwd(), "logs"), ignore_errors=True)

    problems = []
    if not any(v[0].startswith("c04mats.") for v in saved["saved"].values()):
        print("the plugin material was not used when building; the demonstration is vacuous")
        return 2
    if saved["saved"] != saved["sameSession"]:
        problems.append("(even the load in the writing session differs)")
    for name in sorted(saved["saved"]):
        if saved["saved"][name] != fresh.get(name):
            problems.append(
                "component {}: saved [material, OD, volume, mass] = {}; loaded in a fresh session = {}".format(
                    name, saved["saved"][name], fresh.get(name)
                )
            )
    if problems:
        print("DEFECT SHOWN on this tree ({} observations)".format(len(problems)))
        print("   expected: same material classes, hot dimensions, volumes and masses as saved")
        for p in problems:
            print("  ", p)
        return 1
    print("no defect observed")
    return 0


if __name__ == "__main__":
    sys.exit(main())
