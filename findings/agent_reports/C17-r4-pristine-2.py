"""Pristine defect (C17): values that violate a setting's TYPE are not rejected when the
setting relies on the auto-derived `vol.Coerce(type(default))` schema - they are silently
converted to a different value, both on assignment and when read from a settings file:
  * a scalar string given to a list setting is split into characters,
  * any non-empty string (e.g. 'False', 'no', 'off') given to a bool setting becomes True,
  * a non-integral float given to an int setting is truncated,
  * None given to a str setting becomes the string 'None'.
Expected per the property: an error, previous value kept."""
import sys, os; sys.path.insert(0, os.getcwd())
from armi import configure; configure(permissive=True)
import armi
assert armi.__file__.startswith(os.getcwd()), armi.__file__
from armi.settings import caseSettings

cases = [
    ("copyFilesFrom", "input.dat"),   # list setting <- str
    ("zoneDefinitions", "ring-1: 001-001"),
    ("trackAssems", "False"),         # bool setting <- str
    ("db", "off"),
    ("nCycles", 2.9),                 # int settings <- non-integral float
    ("xsScatteringOrder", 1.9),
    ("buGroups", [1.9, 2.2]),
    ("loadingFile", None),            # str setting <- None
]
bad = []
for name, val in cases:
    cs = caseSettings.Settings()
    before = cs[name]
    try:
        cs[name] = val
    except Exception:
        continue  # rejected as expected
    bad.append(f"assign {name} = {val!r}: expected rejection (keep {before!r}), observed value {cs[name]!r}")

cs = caseSettings.Settings()
try:
    cs.loadFromString(
        "settings:\n  copyFilesFrom: input.dat\n  trackAssems: 'False'\n  nCycles: 2.9\n"
    )
    bad.append(
        "read YAML {copyFilesFrom: input.dat, trackAssems: 'False', nCycles: 2.9}: expected an error, "
        f"observed copyFilesFrom={cs['copyFilesFrom']!r}, trackAssems={cs['trackAssems']!r}, nCycles={cs['nCycles']!r}"
    )
except Exception:
    pass

if bad:
    print("FAIL")
    for b in bad:
        print("  " + b)
    sys.exit(1)
print("PASS")
