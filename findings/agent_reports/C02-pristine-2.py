"""C02 pristine defect 2: element selections disagree between getMass and getMassFrac when one child
holds the element as an elemental nuclide ("ZR") and another child holds isotopes ("ZR90"...).

Composite.getMass(spec) passes the specifier down, every component resolves it against ITS OWN
nuclides (fuel -> "ZR", clad -> ZR isotopes), so getMass("ZR") counts everything.  getMassFrac(spec)
resolves the specifier once at the composite level, where "ZR" is itself present, so only the
elemental nuclide is counted.  Then  getMassFrac("ZR") * getMass() != getMass("ZR").
A second observation: Assembly.getVolume() (area of the first block times total height) is not the
sum of the block volumes when the blocks' areas differ.
"""
import sys, os

sys.path.insert(0, os.getcwd())
_hadLogs = os.path.exists("logs")
from armi import configure

configure(permissive=True)
import shutil

import armi

assert armi.__file__.startswith(os.getcwd()), armi.__file__
from armi import runLog
from armi.reactor import assemblies, blocks, components, grids

runLog.setVerbosity("error")

b = blocks.HexBlock("fuel", height=10.0)
b.setType("fuel")
b.add(components.Circle("fuel", "UZr", Tinput=25.0, Thot=600.0, od=0.76, id=0.0, mult=127.0))
b.add(components.Circle("clad", "HT9", Tinput=25.0, Thot=450.0, od=0.80, id=0.77, mult=127.0))
b.add(components.Hexagon("duct", "HT9", Tinput=25.0, Thot=400.0, op=16.0, ip=15.3, mult=1.0))
b.add(components.DerivedShape("coolant", "Sodium", Tinput=25.0, Thot=400.0))
clad = b.getComponentByName("clad")
clad.setNumberDensity("ZR90", 2.0e-3)  # isotopic zirconium in the clad, elemental ZR in the fuel
clad.setNumberDensity("ZR94", 1.0e-3)

bad = []
massZr = float(b.getMass("ZR"))
fracZr = float(b.getMassFrac("ZR"))
total = float(b.getMass())
print("block nuclides with Z=40:", sorted(n for n in b.getNuclides() if n.startswith("ZR")))
print("getMass('ZR') = %r ; getMassFrac('ZR')*getMass() = %r (expected equal)" % (massZr, fracZr * total))
if abs(massZr - fracZr * total) > 1e-9 * massZr:
    bad.append("element mass vs element mass fraction")

# assembly volume vs sum of block volumes for blocks of different cross section
a = assemblies.HexAssembly("fuel", assemNum=0)
a.spatialGrid = grids.AxialGrid.fromNCells(2)
a.spatialGrid.armiObject = a
b1 = blocks.HexBlock("b1", height=10.0)
b1.add(components.Hexagon("duct", "HT9", Tinput=25.0, Thot=25.0, op=16.0, ip=15.0, mult=1.0))
b2 = blocks.HexBlock("b2", height=10.0)
b2.add(components.Hexagon("slug", "HT9", Tinput=25.0, Thot=25.0, op=16.0, ip=0.0, mult=1.0))
a.add(b1)
a.add(b2)
a.calculateZCoords()
va = float(a.getVolume())
vb = float(sum(x.getVolume() for x in a))
print("assembly.getVolume() = %r ; sum of block volumes = %r (expected equal)" % (va, vb))
if abs(va - vb) > 1e-9 * vb:
    bad.append("assembly volume vs blocks")

if not _hadLogs and os.path.isdir("logs"):
    shutil.rmtree("logs", ignore_errors=True)
if bad:
    print("DEFECT SHOWN:", bad)
    sys.exit(1)
print("no defect observed")
sys.exit(0)
