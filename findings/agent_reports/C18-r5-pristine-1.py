"""C18 pristine defect 1: ``class1_wt_frac: 0.0`` is silently ignored.

The class1/class2 material modifications blend the heavy metal of a fuel material from two custom
isotopic vectors.  A class-1 weight fraction of 0.0 is a legal value ("must be between 0 and 1
(inclusive)") and asks for heavy metal made of the class-2 vector only.  FuelMaterial.applyInputParams
tests ``if class1_wt_frac:`` so 0.0 skips the whole blend and the material keeps its library
default heavy metal (10 % enriched uranium) -- no error, no warning.
Run as: cd <armi tree> && /venv/bin/python /tmp/seedout5/C18-pristine-1.py
"""
import sys, os

sys.path.insert(0, os.getcwd())
from armi import configure

configure(permissive=True)
import armi

assert armi.__file__.startswith(os.getcwd()), armi.__file__
sys.path.insert(0, os.path.dirname(os.path.abspath(__file__)))
from C18_pristine_common import HEAD, blocks

from armi import runLog, settings
from armi.reactor import blueprints

runLog.setVerbosity("error")


def build(frac):
    text = HEAD + blocks() + f"""
assemblies:
    fuel a:
        specifier: A
        blocks: [*block_fuel]
        height: [25.0]
        axial mesh points: [1]
        xs types: [A]
        material modifications:
            ZR_wt_frac: [0.1]
            class1_wt_frac: [{frac:.6f}]
            class1_custom_isotopics: [plut]
            class2_custom_isotopics: [dep]
"""
    bp = blueprints.Blueprints.load(text)
    a = bp.constructAssem(settings.Settings(), name="fuel a")
    fuel = [c for c in a[0] if c.name == "fuel"][0]
    return {k: v for k, v in fuel.material.massFrac.items() if v and not k.startswith("ZR")}


bad = False
for frac in (0.000001, 0.0):
    expected = {"U238": 0.9 * (1 - frac), "PU239": 0.9 * frac * 0.9, "PU240": 0.9 * frac * 0.1}
    observed = build(frac)
    ok = all(abs(observed.get(k, 0.0) - expected.get(k, 0.0)) < 1e-9 for k in set(expected) | set(observed))
    print(f"class1_wt_frac={frac}: expected heavy metal {expected}")
    print(f"{'':>{len(str(frac)) + 16}}observed heavy metal {observed}  -> {'ok' if ok else 'WRONG'}")
    bad = bad or not ok

if os.path.isdir("logs") and not os.listdir("logs"):
    os.rmdir("logs")
print("DEFECT SHOWN" if bad else "no defect")
sys.exit(1 if bad else 0)
