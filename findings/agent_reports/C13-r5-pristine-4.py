"""C13 pristine defect 4: HexBlock.getSymmetryFactor decides "edge assemblies are in" by looking at the single cell (-1, 2)
(003-004).  For a loading with a hole at 003-012 (so no edge assembly at 003-004) but with other edge assemblies (005-007),
both halves count as full assemblies: adding edge assemblies changes mass and full core != 3 x third core."""
import sys, os; sys.path.insert(0, os.getcwd())
hadLogs = os.path.exists("logs")
from armi import configure; configure(permissive=True)
import io, contextlib, shutil, atexit
import armi
assert armi.__file__.startswith(os.getcwd()), armi.__file__
from armi import runLog
from armi.testing import loadTestReactor, reduceTestReactorRings
from armi.reactor.converters.geometryConverters import ThirdCoreHexToFullCoreChanger, EdgeAssemblyChanger
atexit.register(lambda: (not hadLogs) and os.path.isdir("logs") and shutil.rmtree("logs", ignore_errors=True))
def load(rings):
    with contextlib.redirect_stdout(io.StringIO()):
        o, r = loadTestReactor()
        reduceTestReactorRings(r, o.cs, rings)
    runLog.setVerbosity("error")
    return o, r

o, r = load(5)
core = r.core
core.removeAssembly(core.getAssemblyWithStringLocation("003-012"), discharge=False)  # assembly map with a hole
m0 = core.getMass()
v0 = sum(b.getVolume() for b in core.iterBlocks())
edge = EdgeAssemblyChanger()
edge.addEdgeAssemblies(core)
m1 = core.getMass()
v1 = sum(b.getVolume() for b in core.iterBlocks())
factors = {a.getLocation(): a.getSymmetryFactor() for a in core if a.getLocation() in ("005-023", "005-007")}
conv = ThirdCoreHexToFullCoreChanger(o.cs)
conv.convert(r)
m2 = core.getMass()
print("expected: mass/volume unchanged by adding edge assemblies; symmetry factor 2 for 005-023 and 005-007; full = 3 x third")
print("observed: mass {} -> {} (x{:.6f}), volume x{:.6f}".format(m0, m1, m1 / m0, v1 / v0))
print("observed: symmetry factors with edge assemblies in:", factors)
print("observed: full-core mass / third-core (with edges) mass = {:.6f}".format(m2 / m1))
bad = abs(m1 / m0 - 1) > 1e-9 or abs(m2 / m1 - 3) > 1e-9
print("FAIL" if bad else "PASS")
sys.exit(1 if bad else 0)
