"""C10 pristine defect 1: merge result depends on merge order - if a gamma-only (GAMISO-like) library is
merged into an empty library BEFORE the neutron library, the neutron velocities are lost.
_XSLibrary._mergeNeutronEnergies keeps "the first" velocity, decided by hasattr(self, "_neutronVelocity");
merging the gamma-only library stores _neutronVelocity = None, which then counts as "already set"."""
import sys, os

sys.path.insert(0, os.getcwd())
from armi import configure

configure(permissive=True)
import armi

assert armi.__file__.startswith(os.getcwd()), armi.__file__
import numpy as np
from scipy import sparse
from armi.nucDirectory import nuclideBases
from armi.nuclearDataIO import xsLibraries, xsNuclides, xsCollections
from armi.utils import properties


def mkIso(labels, ng=3, seed=0, fileName="ISOAA"):
    """Synthetic ISOTXS-like (neutron only) library."""
    rng = np.random.RandomState(seed)
    lib = xsLibraries.IsotxsLibrary()
    properties.unlockImmutableProperties(lib)
    lib.neutronEnergyUpperBounds = np.array([1e7, 1e5, 1e2][:ng])
    lib.neutronVelocity = np.array([1e9, 1e7, 1e5][:ng])
    properties.lockImmutableProperties(lib)
    lib.isotxsMetadata["numGroups"] = ng
    lib.isotxsMetadata.fileNames.append(fileName)
    for lab in labels:
        n = xsNuclides.XSNuclide(lib, lab)
        n.isotxsMetadata["nuclideId"] = lab[:-2]
        n.isotxsMetadata["efiss"] = 3.0e-11
        n.isotxsMetadata["ecapt"] = 1.0e-12
        n._base = nuclideBases.byLabel[lab[:-2]]
        m = n.micros
        for k in ["nGamma", "fission", "neutronsPerFission", "nalph", "np", "n2n", "nd", "nt", "chi"]:
            setattr(m, k, rng.rand(ng))
        m.total = rng.rand(ng, 1)
        m.transport = rng.rand(ng, 1) + 1
        for k in ["elasticScatter", "inelasticScatter", "n2nScatter"]:
            setattr(m, k, sparse.csr_matrix(np.tril(rng.rand(ng, ng))))
        lib[lab] = n
    return lib


def mkGam(labels, ngam=2, seed=10):
    """Synthetic GAMISO-like (gamma only) library."""
    rng = np.random.RandomState(seed)
    lib = xsLibraries.IsotxsLibrary()
    properties.unlockImmutableProperties(lib)
    lib.gammaEnergyUpperBounds = np.array([1e7, 1e5, 1e2][:ngam])
    properties.lockImmutableProperties(lib)
    lib.gamisoMetadata["numGroups"] = ngam
    lib.gamisoMetadata.fileNames.append("AA.gamiso")
    for lab in labels:
        n = xsNuclides.XSNuclide(lib, lab)
        n._base = nuclideBases.byLabel[lab[:-2]]
        n.gamisoMetadata["nuclideId"] = lab[:-2]
        n.gammaXS.nGamma = rng.rand(ngam)
        lib[lab] = n
    return lib


labels = ["U235AA", "FE56AA"]
res = {}
for order in ("neutron,gamma", "gamma,neutron"):
    srcs = {"neutron": mkIso(labels), "gamma": mkGam(labels)}
    t = xsLibraries.IsotxsLibrary()
    for w in order.split(","):
        t.merge(srcs[w])
    res[order] = t.neutronVelocity
    print("merge order {:15s} -> neutronVelocity = {}, neutron groups {}, gamma groups {}".format(order, t.neutronVelocity, t.numGroups, t.numGroupsGamma))
print("expected: identical neutronVelocity [1e9, 1e7, 1e5] for both merge orders")
if res["gamma,neutron"] is None or not np.array_equal(res["neutron,gamma"], res["gamma,neutron"]):
    print("DEFECT: merged content depends on merge order (velocity lost when the gamma library is merged first)")
    sys.exit(1)
print("no defect observed")
sys.exit(0)
