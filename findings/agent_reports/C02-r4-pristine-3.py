"""C02 pristine defect 3: after Core.removeAssembly of the central assembly of a 1/3 core the assembly volume
is no longer the sum of its block volumes, and getMasses() disagrees with getMass(): Composite.remove does not
clear the blocks area cache (filled while the symmetry factor was 3), while getSymmetryFactor() now returns 1."""
import sys, os; sys.path.insert(0, os.getcwd())
from armi import configure; configure(permissive=True)
import armi
assert armi.__file__.startswith(os.getcwd()), armi.__file__
from armi import runLog
runLog.setVerbosity("error")
from armi import tests as armitests
from armi.reactor import assemblies, blocks, components, geometry, grids
from armi.reactor.flags import Flags


def mkBlock(height=10.0, intercoolant=True):
    b = blocks.HexBlock("fuel", height=height)
    b.setType("fuel")
    comps = [
        components.Circle("fuel", "UZr", Tinput=25.0, Thot=600, od=0.76, id=0.0, mult=127.0),
        components.Circle("clad", "HT9", Tinput=25.0, Thot=450, od=0.80, id=0.77, mult=127.0),
        components.Hexagon("duct", "HT9", Tinput=25.0, Thot=400, op=16, ip=15.3, mult=1.0),
        components.DerivedShape("coolant", "Sodium", Tinput=25.0, Thot=400),
    ]
    if intercoolant:
        comps.append(components.Hexagon("intercoolant", "Sodium", Tinput=400, Thot=400, op=17.0, ip=16.0, mult=1.0))
    for c in comps:
        b.add(c)
    return b


def mkReactor(nb=3, intercoolant=True):
    """1/3-core hex reactor with a central assembly (cut in 3 by symmetry) and one full assembly."""
    r = armitests.getEmptyHexReactor()
    r.core.spatialGrid = grids.HexGrid.fromPitch(17.0)
    r.core.spatialGrid.symmetry = geometry.SymmetryType(
        geometry.DomainType.THIRD_CORE, geometry.BoundaryType.PERIODIC
    )
    r.core.spatialGrid.geomType = geometry.HEX
    r.core.spatialGrid.armiObject = r.core
    asms = []
    for n, (i, j) in enumerate([(0, 0), (1, 0)]):
        a = assemblies.HexAssembly("fuel", assemNum=n)
        a.spatialGrid = grids.AxialGrid.fromNCells(nb)
        for k in range(nb):
            a.add(mkBlock(height=10.0 + 5 * k, intercoolant=intercoolant))
        a.calculateZCoords()
        a.spatialLocator = r.core.spatialGrid[i, j, 0]
        r.core.add(a)
        asms.append(a)
    return r, asms


def close(a, b, rtol=1e-9):
    return abs(a - b) <= rtol * max(abs(a), abs(b))


problems = []


def finish():
    if problems:
        print("DEFECT SHOWN")
        for p in problems:
            print("  " + p)
        sys.exit(1)
    print("no defect observed")
    sys.exit(0)

r, (a0, a1) = mkReactor()
v = a0.getVolume()  # any earlier area/volume query fills Block.cached["area"] with the 1/3 area
print(f"in core : central assembly volume {v!r}, sum of block volumes {sum(b.getVolume() for b in a0)!r}, symmetry factor {a0.getSymmetryFactor()}")
r.core.removeAssembly(a0, discharge=False)
vol, volSum = a0.getVolume(), sum(b.getVolume() for b in a0)
print(f"removed : assembly volume {vol!r}, sum of block volumes {volSum!r}, symmetry factor {a0.getSymmetryFactor()}")
if not close(vol, volSum):
    problems.append(f"after removeAssembly: assembly volume {vol!r} != sum of block volumes {volSum!r}")
ms, m = sum(a0.getMasses().values()), a0.getMass()
print(f"removed : sum(getMasses()) {ms!r} g, getMass() {m!r} g")
if not close(ms, m):
    problems.append(f"after removeAssembly: sum(getMasses())={ms!r} g != getMass()={m!r} g")
a0.setMass("U235", 100.0)
got = a0.getMass("U235")
print(f"removed : setMass('U235', 100 g) reads back {got!r} g")
if not close(got, 100.0):
    problems.append(f"after removeAssembly: assembly setMass(100 g) reads back {got!r} g")
finish()
