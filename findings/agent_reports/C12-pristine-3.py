"""C12 pristine defect 3 (edge): _checkBlockHeight only rejects heights < 0.0, so an expansion
that consumes the top dummy block EXACTLY is accepted and leaves a zero-height block
(property demands positive block heights; grid bounds then contain a repeated elevation).
"""
import sys, os

sys.path.insert(0, os.getcwd())
from armi import configure

configure(permissive=True)
import armi

assert armi.__file__.startswith(os.getcwd()), armi.__file__

from armi.reactor import grids
from armi.reactor.assemblies import HexAssembly
from armi.reactor.blocks import HexBlock
from armi.reactor.components import DerivedShape
from armi.reactor.components.basicShapes import Circle, Hexagon
from armi.reactor.converters.axialExpansionChanger import AxialExpansionChanger
from armi.reactor.converters.axialExpansionChanger.expansionData import iterSolidComponents

T = 400.0


def pinBlock(blockType, height):
    b = HexBlock(blockType, height=height)
    for c in [
        Circle(blockType, "HT9", Tinput=25.0, Thot=T, od=0.76, id=0.0, mult=127.0),
        Circle("clad", "HT9", Tinput=25.0, Thot=T, od=0.80, id=0.77, mult=127.0),
        Hexagon("duct", "HT9", Tinput=25.0, Thot=T, op=16.0, ip=15.3, mult=1.0),
        DerivedShape("coolant", "Sodium", Tinput=25.0, Thot=T),
        Hexagon("intercoolant", "Sodium", Tinput=25.0, Thot=T, op=17.0, ip=16.0),
    ]:
        b.add(c)
    b.setType(blockType)
    b.getVolumeFractions()
    return b


def dummyBlock(height):
    b = HexBlock("dummy", height=height)
    b.add(Hexagon("dummy coolant", "Sodium", Tinput=25.0, Thot=T, op=17.0, ip=0.0))
    b.getVolumeFractions()
    b.setType("dummy")
    return b


def main():
    a = HexAssembly("fuel")
    a.spatialGrid = grids.AxialGrid.fromNCells(numCells=1)
    a.spatialGrid.armiObject = a
    for b in (pinBlock("shield", 10.0), pinBlock("fuel", 10.0), pinBlock("fuel", 10.0), pinBlock("plenum", 10.0), dummyBlock(10.0)):
        a.add(b)
    a.calculateZCoords()
    a.reestablishBlockOrder()
    solids = [c for b in a[:-1] for c in iterSolidComponents(b)]
    try:
        AxialExpansionChanger().performPrescribedAxialExpansion(a, solids, [1.25] * len(solids))
    except ArithmeticError as e:
        print("expansion refused:", e)
        return 0
    heights = [b.getHeight() for b in a]
    print("expected: all block heights > 0 (or the expansion refused)")
    print("observed: heights", heights, "grid bounds", list(a.spatialGrid._bounds[2]))
    if any(not h > 0.0 for h in heights):
        print("DEFECT: zero-height block accepted")
        return 1
    return 0


if __name__ == "__main__":
    sys.exit(main())
