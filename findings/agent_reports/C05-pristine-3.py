"""C05 pristine defect 3 (two parts).

(a) With the h5py in this environment (3.x) an attribute that does not fit in the object header
raises OSError, not RuntimeError, so the spill-to-dataset fallback in Database._writeAttrs
(``except RuntimeError``) is unreachable: a jagged/dict/linkedDims parameter over many objects
cannot be written at all.

(b) (shown by making h5py raise RuntimeError as older versions did) attributes too large for an HDF5 object header (jagged offsets/shapes,
dict keys, linkedDims for many objects) are spilled by Database._writeAttrs into
<timeNode>/attrs/<n>_<key> and referenced by the ABSOLUTE path "@/cXXnYY/attrs/...".
Database.splitDatabase copies time node groups to NEW names (cycle offset to start at 0) without
touching these paths, so after a split _resolveAttrs returns the metadata of a DIFFERENT time
node (silently wrong decoding) or fails with KeyError."""
import sys, os

sys.path.insert(0, os.getcwd())
hadLogs = os.path.exists(os.path.join(os.getcwd(), "logs"))
from armi import configure

configure(permissive=True)
import armi

assert armi.__file__.startswith(os.getcwd()), armi.__file__

import atexit
import shutil
import tempfile

if not hadLogs:
    atexit.register(shutil.rmtree, os.path.join(os.getcwd(), "logs"), True)

import numpy as np

from armi import runLog
from armi.bookkeeping.db.database import Database

runLog.setVerbosity("error")

import h5py

# part (a): the fallback is dead with this h5py
_d = tempfile.mkdtemp()
partA = False
with h5py.File(os.path.join(_d, "a.h5"), "w") as f:
    g = f.create_group("c00n00")
    ds = g.create_dataset("val", data=np.arange(4))
    try:
        Database._writeAttrs(ds, g, {"offsets": np.arange(20000)})
        print("(a) large attribute handled, stored as", ds.attrs["offsets"])
    except Exception as ee:
        partA = True
        print("(a) expected: attribute spilled to c00n00/attrs/0_offsets; observed: {}: {}".format(
            type(ee).__name__, ee))
shutil.rmtree(_d, ignore_errors=True)

# part (b): emulate the exception type the fallback was written for
_orig = h5py.AttributeManager.__setitem__


def _setitem(self, name, value):
    try:
        _orig(self, name, value)
    except OSError as ee:
        raise RuntimeError(*ee.args)


h5py.AttributeManager.__setitem__ = _setitem
startDir = os.getcwd()
d = tempfile.mkdtemp()
os.chdir(d)
rc = 1 if partA else 0
try:
    db = Database(os.path.join(d, "split.h5"), "w")
    db.open()
    n = 20000  # many objects -> the "offsets" attribute does not fit in the object header
    for cycle in (1, 2, 3):
        g = db.h5db.create_group("c{:02d}n00".format(cycle))
        g.attrs["cycle"] = cycle
        g.attrs["timeNode"] = 0
        g.create_group("Reactor").create_dataset("cycle", data=np.array([cycle]))
        ds = g.create_group("Thing").create_dataset("val", data=np.arange(4))
        # what _writeParams does with the attrs of a jagged parameter
        Database._writeAttrs(ds, g, {"jagged": True, "offsets": np.arange(n) * cycle})
        assert str(ds.attrs["offsets"]).startswith("@"), "attribute was not spilled; increase n"

    db.splitDatabase([(1, 0), (2, 0), (3, 0)], "-all")
    # cycles 1, 2, 3 are now c00n00, c01n00, c02n00
    for newName, oldCycle in (("c00n00", 1), ("c01n00", 2), ("c02n00", 3)):
        g = db.h5db[newName]
        raw = g["Thing/val"].attrs["offsets"]
        try:
            attrs = Database._resolveAttrs(g["Thing/val"].attrs, g)
            got = attrs["offsets"]
            ok = np.array_equal(got, np.arange(n) * oldCycle)
            print("{} (was cycle {}): link {!r} -> offsets[1]={} expected {} : {}".format(
                newName, oldCycle, raw, got[1], oldCycle, "ok" if ok else "WRONG DATA"))
            if not ok:
                rc = 1
        except Exception as ee:
            print("{} (was cycle {}): link {!r} -> {}: {}".format(
                newName, oldCycle, raw, type(ee).__name__, str(ee)[:100]))
            rc = 1
    db.close()
finally:
    os.chdir(startDir)
    shutil.rmtree(d, ignore_errors=True)
print("DEFECT shown" if rc else "no defect")
sys.exit(rc)
