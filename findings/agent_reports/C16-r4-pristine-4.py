"""Pristine defect 4 (C16): the block attribute derivedMustUpdate (the invalidation flag of the DerivedShape volume cache)
is not part of the retained state. If the flag is pending when a scope opens and is consumed inside the scope (any getVolume),
the scope exit restores the stale cached p.volume/p.area of the DerivedShape but not the flag, so after the scope the stale volume is
served: the state after the scope differs from the state before it (before: stale value + pending flag => correct volume on next read)."""
import sys, os
sys.path.insert(0, os.getcwd())
from armi import configure
configure(permissive=True)
import armi
assert armi.__file__.startswith(os.getcwd()), armi.__file__
from armi.testing import loadTestReactor
_o, r = loadTestReactor(inputFileName="smallestTestReactor/armiRunSmallest.yaml")
b = r.core.getFirstBlock()

import copy
duct = b.getComponentByName("duct")
cool = b.getComponentByName("coolant")
cool.getVolume()
twin = copy.deepcopy(b); twin.parent = b.parent
# same edit on the twin, without any scope: reference behaviour
twin.getComponentByName("duct").setTemperature(duct.temperatureInC + 300.0)
ref = twin.getComponentByName("coolant").getVolume()

duct.setTemperature(duct.temperatureInC + 300.0)  # outside any scope; sets b.derivedMustUpdate
flagBefore = b.derivedMustUpdate
with b.retainState():
    inside = cool.getVolume()   # consumes the flag, recomputes the coolant volume
after = cool.getVolume()
print("flag before scope:", flagBefore, " flag after scope:", b.derivedMustUpdate)
print("expected coolant volume after scope (same as without a scope):", ref)
print("observed inside scope:", inside, " after scope:", after)
bad = abs(after - ref) > 1e-9 * abs(ref)
print("DEFECT" if bad else "no defect")
sys.exit(1 if bad else 0)
