"""
Pristine defect (C15): a detailed ``cycles`` entry with ``burn steps: 0`` (accepted by the settings
schema, vol.Range(min=0)) crashes the cycle-history resolution with ZeroDivisionError in
armi.utils._getStepAndCycleLengths (cycle length * availability / burn steps), so a history with a
zero-burn-step cycle given in that form cannot be run at all. The equivalent inputs
(``step days: []`` in detailed form, or ``burnSteps: 0`` in a one-cycle simple input) work and give
an empty step list / a single time node.
Run as: cd <armi tree> && /venv/bin/python C15-pristine-1.py   (exit 1 when the defect shows)
"""
import sys, os

sys.path.insert(0, os.getcwd())
from armi import configure

configure(permissive=True)
import armi

assert armi.__file__.startswith(os.getcwd()), armi.__file__
from armi import settings
from armi.utils import getBurnSteps, getCycleLengths, getStepLengths

cs = settings.Settings().modified(
    newSettings={
        "nCycles": 2,
        "power": 1.0e6,
        "cycles": [
            {"cycle length": 10.0, "burn steps": 0},
            {"cycle length": 10.0, "burn steps": 2},
        ],
    }
)
print("expected: step lengths [[], [5.0, 5.0]], burn steps [0, 2], cycle lengths [10.0, 10.0]")
try:
    steps, nSteps, lengths = getStepLengths(cs), getBurnSteps(cs), getCycleLengths(cs)
except Exception as e:
    print(f"observed: {type(e).__name__}: {e}")
    print("DEFECT")
    sys.exit(1)
print(f"observed: step lengths {steps}, burn steps {nSteps}, cycle lengths {lengths}")
ok = steps == [[], [5.0, 5.0]] and nSteps == [0, 2] and lengths == [10.0, 10.0]
print("OK" if ok else "DEFECT")
sys.exit(0 if ok else 1)
