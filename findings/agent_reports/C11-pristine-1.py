"""C11 pristine finding 1: HexBlock.createHomogenizedCopy sizes the homogenized hexagon with the
pitch that was cached when the pitch-defining component was added (Block._pitchDefiningComponent[1])
instead of the current pitch (Block.getPitch()).  When the pitch-defining component is a solid that
thermally expands (duct is the outermost component, no inter-assembly coolant component) and its
temperature changes after construction - or when setPitch() is used, which stores the *cold* value
in the cache - the re-meshed blocks have a different cross section than the source blocks, so
makeAssemWithUniformMesh does not conserve atoms, even onto the identical axial mesh.

Run: cd <armi tree> && python C11-pristine-1.py   (exit 1 when the defect shows)
"""
import sys, os

sys.path.insert(0, os.getcwd())
from armi import configure

configure(permissive=True)
import armi

assert armi.__file__.startswith(os.getcwd()), armi.__file__
from armi import runLog

runLog.setVerbosity("error")
from armi.reactor import assemblies, blocks, components, grids
from armi.reactor.converters.uniformMesh import UniformMeshGeometryConverter as UMC
from armi.reactor.flags import Flags


def buildBlock(name, height):
    b = blocks.HexBlock(name, height=height)
    b.setType(name)
    fuel = components.Circle("fuel", "UZr", Tinput=25.0, Thot=600.0, od=0.76, id=0.0, mult=127.0)
    clad = components.Circle("clad", "HT9", Tinput=25.0, Thot=450.0, od=0.80, id=0.77, mult=127.0)
    duct = components.Hexagon("duct", "HT9", Tinput=25.0, Thot=400.0, op=16.0, ip=15.3, mult=1.0)
    coolant = components.DerivedShape("coolant", "Sodium", Tinput=25.0, Thot=400.0)
    for c in (fuel, clad, duct, coolant):
        b.add(c)
    b.p.xsType = "A"
    return b


def buildAssembly():
    a = assemblies.HexAssembly("fuel")
    a.spatialGrid = grids.AxialGrid.fromNCells(3)
    for i, h in enumerate((20.0, 30.0, 25.0)):
        a.add(buildBlock("fuel", h))
    a.calculateZCoords()
    return a


def atoms(a):
    tot = {}
    for b in a:
        v = b.getVolume() * b.getSymmetryFactor()
        for n, d in b.getNumberDensities().items():
            tot[n] = tot.get(n, 0.0) + d * v
    return tot


def worst(t0, t1):
    out = (0.0, None)
    for n, v in t0.items():
        if v > 0.0:
            rel = abs(t1.get(n, 0.0) - v) / v
            if rel > out[0]:
                out = (rel, n)
    return out


bad = []

a = buildAssembly()
u = UMC.makeAssemWithUniformMesh(a, a.getAxialMesh())
rel, n = worst(atoms(a), atoms(u))
print(f"as built              : pitch {a[0].getPitch():.5f}, re-meshed pitch {u[0].getPitch():.5f}, worst atom change {rel:.3e}")
if rel > 1e-9:
    bad.append("as built")

# (a) the duct (pitch-defining, solid) heats up after the block was built
a = buildAssembly()
for b in a:
    b.getComponent(Flags.DUCT).setTemperature(700.0)
    b.clearCache()
t0 = atoms(a)
for label, mesh in (("identical mesh", a.getAxialMesh()), ("other mesh", [12.0, 40.0, 75.0])):
    u = UMC.makeAssemWithUniformMesh(a, mesh)
    rel, n = worst(t0, atoms(u))
    print(
        f"duct heated to 700 C  : {label}: expected re-meshed pitch {a[0].getPitch():.5f} and unchanged atoms; "
        f"observed pitch {u[0].getPitch():.5f}, worst relative atom change {rel:.3e} ({n})"
    )
    if rel > 1e-9:
        bad.append(f"duct heated, {label}: {rel:.3e}")

# (b) setPitch on a solid pitch-defining component stores the cold value in the cache
a = buildAssembly()
for b in a:
    b.setPitch(16.5)
    b.clearCache()
t0 = atoms(a)
u = UMC.makeAssemWithUniformMesh(a, a.getAxialMesh())
rel, n = worst(t0, atoms(u))
print(
    f"after setPitch(16.5)  : identical mesh: expected re-meshed pitch {a[0].getPitch():.5f} and unchanged atoms; "
    f"observed pitch {u[0].getPitch():.5f}, worst relative atom change {rel:.3e} ({n})"
)
if rel > 1e-9:
    bad.append(f"setPitch: {rel:.3e}")

if bad:
    print("DEFECT SHOWN:", "; ".join(bad))
    sys.exit(1)
print("no defect observed")
sys.exit(0)
