"""Pristine defect: an assembly put into the spent fuel pool directly (SpentFuelPool.add, e.g. a stored
fresh assembly) is renumbered there but never entered into the core's assembliesByName/blocksByName,
although discharged assemblies in the pool are; the by-name lookups miss an assembly that is in the pool
until something calls regenAssemblyLists."""
import sys, os; sys.path.insert(0, os.getcwd())
from armi import configure; configure(permissive=True)
import armi
assert armi.__file__.startswith(os.getcwd())
import shutil
from armi.testing import loadTestReactor, reduceTestReactorRings
o, r = loadTestReactor(customSettings={"trackAssems": True})
reduceTestReactorRings(r, o.cs, 3)
core, sfp = r.core, r.excore.sfp
stored = core.createFreshFeed(o.cs)
sfp.add(stored)
name = stored.getName()
found = core.assembliesByName.get(name)
bfound = core.blocksByName.get(stored[0].getName())
discharged = sfp[0]
shutil.rmtree(os.path.join(os.getcwd(), "logs"), ignore_errors=True)
print("expected: getAssemblyByName(%r) is the stored assembly in the pool (as for discharged %s: %s)" % (name, discharged.getName(), core.assembliesByName.get(discharged.getName()) is discharged))
print("observed: assembliesByName.get -> %r ; blocksByName.get(%r) -> %r" % (found, stored[0].getName(), bfound))
sys.exit(1 if (found is not stored or bfound is not stored[0]) else 0)
