"""Pristine defect: after a swap with stationary blocks (default stationaryBlockFlags = GRID_PLATE)
the exchanged grid-plate blocks keep the names of their former assemblies. Core.normalizeNames
skips every assembly whose own name is already right WITHOUT looking at its blocks, and renames the
blocks of the others from the assembly number. So an assembly that is skipped keeps a block called
B<j>-000 while the assembly that becomes number j names its own bottom block B<j>-000 as well:
two blocks with one name, and blocksByName / getBlockByName can only find one of them."""
import sys, os; sys.path.insert(0, os.getcwd())
from armi import configure; configure(permissive=True)
import armi, collections
assert armi.__file__.startswith(os.getcwd()), armi.__file__


def quiet(fn, *a, **k):
    sys.stdout.flush()
    saved = os.dup(1); devnull = os.open(os.devnull, os.O_WRONLY); os.dup2(devnull, 1)
    try:
        return fn(*a, **k)
    finally:
        sys.stdout.flush(); os.dup2(saved, 1); os.close(devnull); os.close(saved)


from armi.testing import loadTestReactor
from armi.physics.fuelCycle import fuelHandlers
o, r = quiet(loadTestReactor)
core = r.core
fh = fuelHandlers.FuelHandler(o)
kids = list(core)
same = [i for i, a in enumerate(kids) if a.getName() == a.makeNameFromAssemNum(i)]
diff = [i for i, a in enumerate(kids) if a.getName() != a.makeNameFromAssemNum(i)]
i, j = same[0], diff[0]
X = core.getAssemblyByName(kids[i].makeNameFromAssemNum(j))
print("swap", kids[i].getName(), "(child", i, "- keeps its name) with", X.getName(), "then Reactor.normalizeNames()")
quiet(fh.swapAssemblies, kids[i], X)
quiet(r.normalizeNames)
names = collections.Counter(b.getName() for a in core for b in a)
dups = sorted(n for n, c in names.items() if c > 1)
print("expected: every block of the core has its own name and getBlockByName finds it")
bad = 0
for n in dups:
    holders = [a.getName() for a in core for b in a if b.getName() == n]
    print("observed: block name", n, "is carried by blocks of", holders,
          "; getBlockByName gives the one in", core.getBlockByName(n).parent.getName())
    bad += 1
for a in core:
    for b in a:
        if core.blocksByName.get(b.getName()) is not b:
            bad += 1
print("FAIL (%d problems)" % bad if bad else "PASS")
sys.exit(1 if bad else 0)
