"""C12 pristine defect 2: an expansion that would consume the whole top dummy block raises
ArithmeticError only AFTER the assembly has been mutated, and nothing is rolled back: the caller that
catches the error keeps an assembly with a negative-height dummy block, a plenum block reaching above
the assembly top, halved number densities and stale axial grid bounds."""
import sys, os

sys.path.insert(0, os.getcwd())
from armi import configure

configure(permissive=True)
import armi

assert armi.__file__.startswith(os.getcwd()), armi.__file__

from armi.reactor import grids
from armi.reactor.assemblies import HexAssembly
from armi.reactor.blocks import HexBlock
from armi.reactor.components import DerivedShape
from armi.reactor.components.basicShapes import Circle, Hexagon
from armi.reactor.converters.axialExpansionChanger import AxialExpansionChanger
from armi.reactor.converters.axialExpansionChanger.expansionData import (
    iterSolidComponents,
)
from armi.reactor.flags import Flags


def buildBlock(blockType, height=10.0, T=25.0):
    b = HexBlock(blockType, height=height)
    common = {"Tinput": 25.0, "Thot": T}
    main = Circle(blockType, "HT9", od=0.76, id=0.0, mult=127.0, **common)
    clad = Circle("clad", "HT9", od=0.80, id=0.77, mult=127.0, **common)
    duct = Hexagon("duct", "HT9", op=16.0, ip=15.3, mult=1.0, **common)
    cool = DerivedShape("coolant", "Sodium", **common)
    inter = Hexagon("intercoolant", "Sodium", op=17.0, ip=16.0, mult=1.0, **common)
    for c in (main, clad, duct, cool, inter):
        b.add(c)
    b.setType(blockType)
    b.getVolumeFractions()
    return b


def buildDummy(height=10.0, T=25.0):
    b = HexBlock("dummy", height=height)
    b.add(Hexagon("dummy coolant", "Sodium", Tinput=25.0, Thot=T, op=17.0, ip=0.0, mult=1.0))
    b.getVolumeFractions()
    b.setType("dummy")
    return b


def buildAssembly():
    a = HexAssembly("testAssemblyType")
    a.spatialGrid = grids.AxialGrid.fromNCells(numCells=1)
    a.spatialGrid.armiObject = a
    for t in ("shield", "fuel", "fuel", "plenum"):
        a.add(buildBlock(t))
    a.add(buildDummy())
    a.calculateZCoords()
    a.reestablishBlockOrder()
    return a



def main():
    a = buildAssembly()
    a.calculateZCoords()  # make the grid bounds consistent to start with
    fb = a.getBlocks(Flags.FUEL)
    comps = [c for b in fb for c in iterSolidComponents(b)]
    total0 = a.getTotalHeight()
    heights0 = [b.getHeight() for b in a]
    nd0 = {c: sum(c.getNumberDensities().values()) for c in comps}
    raised = None
    try:
        AxialExpansionChanger().performPrescribedAxialExpansion(a, comps, [2.0] * len(comps))
    except ArithmeticError as e:
        raised = e
    print("expected: either a valid expanded assembly or an error that leaves the assembly as it was")
    print("observed: raised =", repr(raised))
    print("   block heights", heights0, "->", [b.getHeight() for b in a])
    print("   (zbottom, ztop):", [(b.p.zbottom, b.p.ztop) for b in a])
    print("   grid bounds:", list(a.spatialGrid._bounds[2]))
    print("   fuel-block number density ratios:", sorted({round(sum(c.getNumberDensities().values()) / nd0[c], 6) for c in comps}))
    bad = raised is not None and (
        [b.getHeight() for b in a] != heights0 or any(b.getHeight() <= 0 for b in a)
    )
    if bad:
        print("DEFECT: the failed expansion left a half-expanded assembly (non-positive block height, "
              "block tops above the assembly top, grid bounds != elevations)")
        return 1
    print("no defect observed")
    return 0


if __name__ == "__main__":
    sys.exit(main())
