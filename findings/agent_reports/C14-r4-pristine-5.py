"""Pristine defect 5: Core.normalizeNames (called on the core, not through Reactor.normalizeNames)
rebuilds assembliesByName/blocksByName from the core's children only (normalizeInternalBookeeping), so
every assembly and block in the spent fuel pool disappears from the lookups although it is still in the
pool under an unchanged name.  (Reactor.normalizeNames repairs this with regenAssemblyLists; the core
method, which is public and documented with a startIndex for exactly this use, does not.)
"""
import sys, os; sys.path.insert(0, os.getcwd())
from armi import configure; configure(permissive=True)
import armi
assert armi.__file__.startswith(os.getcwd()), armi.__file__
from armi.testing import loadTestReactor
from armi.tests import TEST_ROOT
from armi.physics.fuelCycle import fuelHandlers

o, r = loadTestReactor(TEST_ROOT, customSettings={"trackAssems": True})
core, sfp = r.core, r.excore["sfp"]
core.removeAssembly(core.getAssemblyWithStringLocation("003-002"))  # tracked discharge
before = [core.assembliesByName.get(x.getName()) is x for x in sfp]
core.normalizeNames()
missingA = [x.getName() for x in sfp if core.assembliesByName.get(x.getName()) is not x]
missingB = [b.getName() for x in sfp for b in x if core.blocksByName.get(b.getName()) is not b]
print("expected: the {} pool assemblies stay findable by name (all found before: {})".format(len(sfp), all(before)))
print("observed: pool assemblies not found by name after Core.normalizeNames: {}; pool blocks not found: {}".format(missingA, len(missingB)))
bad = bool(missingA or missingB)
print("DEFECT" if bad else "no defect")
sys.exit(1 if bad else 0)
