"""Pristine defect (C20): lower-case XS type labels are admissible (_ALLOWABLE_XS_TYPE_LIST,
getNextAvailableXsTypes hands them out once A-Z are used) but do not survive
label -> number -> label: ord('a')..ord('z') = 97..122 exceed ord('Z'), so
getXSTypeLabelFromNumber treats the number as a two-character label."""
import sys, os

sys.path.insert(0, os.getcwd())
from armi import configure

configure(permissive=True)
import armi

assert armi.__file__.startswith(os.getcwd()), armi.__file__
from armi import runLog

runLog.setVerbosity("header")
from armi.physics.neutronics import crossSectionGroupManager as m

bad = []
for label in m._ALLOWABLE_XS_TYPE_LIST:
    num = m.getXSTypeNumberFromLabel(label)
    try:
        back = m.getXSTypeLabelFromNumber(num)
    except Exception as e:  # noqa
        back = f"<{type(e).__name__}: {e}>"
    if back != label:
        bad.append((label, num, back))

print("expected: every label in _ALLOWABLE_XS_TYPE_LIST round-trips through its number")
if bad:
    print(f"observed: {len(bad)} labels do not round-trip, e.g. (label, number, label back):")
    for t in bad[:6]:
        print("   ", repr(t))
    print("FAIL")
    sys.exit(1)
print("observed: all round-trip")
print("PASS")
