"""Pristine defect (C20): with a single environment group ARMI allows two-character XS types.
Block.getMicroSuffix returns the bare two-character type for them, which collides with the
suffix of a one-character type plus the default env group 'A': xsType 'BA' and xsType 'B'
(envGroup 'A') both give 'BA', so blocks of two different XS types are put into ONE XS group
and averaged together."""
import sys, os

sys.path.insert(0, os.getcwd())
from armi import configure

configure(permissive=True)
import armi

assert armi.__file__.startswith(os.getcwd()), armi.__file__

import contextlib
import io

from armi import runLog
from armi.reactor.flags import Flags
from armi.reactor.tests import test_reactors
from armi.tests import TEST_ROOT

with contextlib.redirect_stdout(io.StringIO()):
    o, r = test_reactors.loadTestReactor(TEST_ROOT)
runLog.setVerbosity("error")

xsgm = o.getInterface("xsGroups")  # default buGroups [100] -> one env group, 2-char types allowed
with contextlib.redirect_stdout(io.StringIO()):
    xsgm.interactBOL()

fuel = r.core.getBlocks(Flags.FUEL)
b1, b2 = fuel[10], fuel[40]
b1.p.xsType = "B"  # one-character type, env group A
b2.p.xsType = "BA"  # two-character type
b1.getComponent(Flags.FUEL).setNumberDensity("U235", 0.001)
b2.getComponent(Flags.FUEL).setNumberDensity("U235", 0.005)

groups = xsgm.makeCrossSectionGroups()
holding = {xsID: [b.p.xsType for b in coll] for xsID, coll in groups.items() if b1 in coll or b2 in coll}
print("expected: blocks with XS types 'B' and 'BA' end up in two different XS groups")
print(f"observed: suffixes {b1.getMicroSuffix()!r} / {b2.getMicroSuffix()!r}; groups holding them: {holding}")
if len(holding) != 2:
    with contextlib.redirect_stdout(io.StringIO()):
        xsgm.createRepresentativeBlocks()
    rep = xsgm.representativeBlocks["BA"]
    print(
        "          representative 'BA' U235 (fuel comp) = %.4e, a mix of type B (1.0e-03) and type BA (5.0e-03)"
        % rep.getComponent(Flags.FUEL).getNumberDensity("U235")
    )
    print("FAIL")
    sys.exit(1)
print("PASS")
