"""C06 pristine defect 4: parameter values that do not survive (or even reach) a snapshot.

(a) A dict-valued parameter (packSpecialData documents Dict[str, float] support) that is set on
    some objects and still None (its default) on the others makes Database.writeToDB raise
    TypeError ('NoneType' object is not iterable): that state cannot be written at all.
(b) A dict value that legitimately holds NaN loses that key on load (NaN is also the filler for
    'key absent').
(c) An empty array/list value comes back as None (JaggedArray files len()==0 under 'nones').
Run as: cd <armi tree> && python C06-pristine-4.py ; exit 1 when the defect shows.
"""
import sys, os

sys.path.insert(0, os.getcwd())
from armi import configure

configure(permissive=True)
import armi

assert armi.__file__.startswith(os.getcwd()), armi.__file__
import io, math, tempfile, contextlib
import numpy as np
from armi import runLog
from armi.reactor.blocks import Block
from armi.reactor.flags import Flags
from armi.testing import loadTestReactor, reduceTestReactorRings
from armi.bookkeeping.db import Database

quiet = io.StringIO()
with contextlib.redirect_stdout(quiet), contextlib.redirect_stderr(quiet):
    o, r = loadTestReactor()
    reduceTestReactorRings(r, o.cs, 2)
runLog.setVerbosity("error")
os.chdir(tempfile.mkdtemp(prefix="C06-p4-"))
blocks = r.getChildren(deep=True, predicate=lambda c: isinstance(c, Block))
fb = r.core.getFirstBlock(Flags.FUEL)
bad = 0


def roundTrip(label, setup):
    db = Database(label + ".h5", "w")
    db.open()
    db.writeInputsToDB(o.cs)
    r.p.cycle, r.p.timeNode = 0, 0
    try:
        with contextlib.redirect_stdout(quiet), contextlib.redirect_stderr(quiet):
            setup()
            db.writeToDB(r)
            r2 = db.load(0, 0)
        return r2.core.getBlockByName(fb.getName())
    except Exception as e:
        return "{}: {}".format(type(e).__name__, e)
    finally:
        db.close(True)


def sA():
    fb.p.reactionRates = {"nG": 1.0, "nF": 2.0}

res = roundTrip("a", sA)
print("(a) dict on one block, None elsewhere: expected {'nG': 1.0, 'nF': 2.0}; observed:",
      res if isinstance(res, str) else res.p.reactionRates)
bad += isinstance(res, str)


def sB():
    for b in blocks:
        b.p.reactionRates = {"nG": 1.0}
    fb.p.reactionRates = {"nG": float("nan"), "nF": 2.0}

res = roundTrip("b", sB)
got = res if isinstance(res, str) else {str(k): float(v) for k, v in res.p.reactionRates.items()}
print("(b) dict holding a NaN: expected keys ['nF', 'nG']; observed:", got)
bad += isinstance(res, str) or sorted(got) != ["nF", "nG"]
for b in blocks:
    b.p.reactionRates = None


def sC():
    for b in blocks:
        b.p.mgFlux = np.array([1.0, 2.0])
    fb.p.mgFlux = np.array([])

res = roundTrip("c", sC)
got = res if isinstance(res, str) else res.p.mgFlux
print("(c) empty array: expected array([]); observed:", repr(got))
bad += got is None or isinstance(res, str)
print("DEFECT" if bad else "OK")
sys.exit(1 if bad else 0)
