"""HexGrid.triangleCoords ignores the corners-up orientation: it always uses the flats-up table."""
import sys, os
sys.path.insert(0, os.getcwd())
from armi import configure
configure(permissive=True)
import numpy as np
from armi.reactor import grids

rc = 0
for cornersUp in (False, True):
    g = grids.HexGrid.fromPitch(1.7, cornersUp=cornersUp)
    idx = (2, -1, 0)
    centre = g.getCoordinates(idx)[:2]
    # the six triangles of a hexagon point at its six neighbours; each centroid is 1/3 of the way there
    expected = np.array([centre + (g.getCoordinates(n)[:2] - centre) / 3.0 for n in g.getNeighboringCellIndices(*idx)])
    observed = g.triangleCoords(idx)
    # compare as sets of points (ignore starting point)
    ok = all(np.min(np.linalg.norm(expected - p, axis=1)) < 1e-9 for p in observed)
    print("cornersUp=%s expected(set)=%s observed=%s -> %s" % (cornersUp, np.round(expected, 4).tolist(), np.round(observed, 4).tolist(), "ok" if ok else "DEFECT"))
    if not ok:
        rc = 1
sys.exit(rc)
