"""C09 pristine defect 2: an ISOTXS / GAMISO library with scattering sub-blocking (NSBLOK > 1) is written
but cannot be read back.

_IsotxsNuclideIO.rwNuclide loops over the NSBLOK sub-blocks of every scattering block and
_rw7DRecord writes, per sub-block, only the groups JL..JU of that sub-block - which is the CCCC
layout.  On READ, however, every sub-block record builds its own (ng x ng) csr_matrix from an
indptr that only covers the JL..JU rows of the sub-block (and each sub-block would overwrite the
matrix of the previous one), so scipy rejects it: the reader raises for every NSBLOK > 1.
The fixtures all have NSBLOK = 1.
"""
import sys, os

sys.path.insert(0, os.getcwd())
from armi import configure

configure(permissive=True)
import tempfile

import armi
from armi.nuclearDataIO.cccc import isotxs
from armi.tests import ISOAA_PATH
from armi.utils import properties

assert armi.__file__.startswith(os.getcwd()), armi.__file__

lib = isotxs.readBinary(ISOAA_PATH)
ng = lib.isotxsMetadata["numGroups"]
status = {}
with tempfile.TemporaryDirectory() as tmp:
    for nsblok in (1, 3, ng):
        properties.unlockImmutableProperties(lib)
        lib.isotxsMetadata["subblockingControl"] = nsblok
        name = os.path.join(tmp, "ISOTXS{}".format(nsblok))
        isotxs.writeBinary(lib, name)
        try:
            back = isotxs.readBinary(name)
            status[nsblok] = "read back, equal={}".format(isotxs.compare(lib, back))
        except Exception as ee:
            status[nsblok] = "written ({} bytes) but reading raised {}: {}".format(
                os.path.getsize(name), type(ee).__name__, str(ee).strip().splitlines()[-1]
            )

print("expected: for every sub-blocking factor the written library reads back equal")
for k, v in status.items():
    print("observed NSBLOK={}: {}".format(k, v))
if any("raised" in v or "equal=False" in v for v in status.values()):
    print("DEFECT")
    sys.exit(1)
sys.exit(0)
