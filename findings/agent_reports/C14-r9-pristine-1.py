"""Pristine defect: Core.normalizeNames leaves an assembly that already has the right name untouched,
including a stationary block it received from another assembly (still named after that assembly).
When a later assembly is renumbered to that other number, two blocks in the core share one name and
blocksByName loses one of them."""
import sys, os; sys.path.insert(0, os.getcwd())
from armi import configure; configure(permissive=True)
import armi
assert armi.__file__.startswith(os.getcwd())
import shutil
from armi.testing import loadTestReactor, reduceTestReactorRings
from armi.physics.fuelCycle import fuelHandlers
o, r = loadTestReactor(customSettings={"trackAssems": True})
reduceTestReactorRings(r, o.cs, 3)
core = r.core
r.normalizeNames()                      # names A0000.. in child order
fh = fuelHandlers.FuelHandler(o)
a0, a5 = core[0], core[5]
fh.swapAssemblies(a0, a5)               # grid plates (stationary) exchange assemblies: a0 now holds B0005-000
core.removeAssembly(core[2], discharge=False)   # purge one -> numbering gap
r.normalizeNames()                      # a0 keeps its name (shortcut); old A0006 becomes A0005 with block B0005-000
names = [b.getName() for a in core for b in a]
dups = sorted({n for n in names if names.count(n) > 1})
missing = [b.getName() for a in core for b in a if core.blocksByName.get(b.getName()) is not b]
shutil.rmtree(os.path.join(os.getcwd(), "logs"), ignore_errors=True)
print("expected: %d distinct block names in the core, every block found under its name" % len(names))
print("observed: %d distinct names; duplicates %s; blocks not returned by blocksByName under their name: %s" % (len(set(names)), dups, missing))
sys.exit(1 if dups or missing else 0)
