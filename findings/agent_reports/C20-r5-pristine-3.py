"""Pristine defect (C20): an XS group that holds only ineligible blocks (no block of a valid
representative type) is legal - createRepresentativeBlocks handles it as "unrepresented" - but
updateNuclideTemperatures() walks over ALL groups and, with the Median representation, asks the
empty candidate list for its median member: IndexError instead of skipping the group (the
Average representation returns zeros for the same input)."""
import sys, os

sys.path.insert(0, os.getcwd())
from armi import configure

configure(permissive=True)
import armi

assert armi.__file__.startswith(os.getcwd()), armi.__file__

import contextlib
import io

from armi import runLog
from armi.reactor.flags import Flags
from armi.reactor.tests import test_reactors
from armi.tests import TEST_ROOT

with contextlib.redirect_stdout(io.StringIO()):
    o, r = test_reactors.loadTestReactor(
        TEST_ROOT, customSettings={"xsBlockRepresentation": "Median"}
    )
runLog.setVerbosity("error")
xsgm = o.getInterface("xsGroups")
with contextlib.redirect_stdout(io.StringIO()):
    xsgm.interactBOL()
# a reflector/shield region with its own XS type: no fuel block in it
for b in r.core.getBlocks():
    if not b.hasFlags(Flags.FUEL) and b.hasFlags(Flags.SHIELD):
        b.p.xsType = "R"
with contextlib.redirect_stdout(io.StringIO()):
    xsgm.createRepresentativeBlocks()  # fine: RA is reported as unrepresented
print("expected: updateNuclideTemperatures() gives temperatures for represented groups and skips/zeros RA")
try:
    with contextlib.redirect_stdout(io.StringIO()):
        xsgm.updateNuclideTemperatures()
except Exception as e:  # noqa
    print(f"observed: {type(e).__name__}: {e}")
    print("FAIL")
    sys.exit(1)
print("observed: ok,", sorted(xsgm.avgNucTemperatures))
print("PASS")
