"""C16 pristine defect 3: a kept (paramsToApply) array parameter that is re-assigned with a
different *shape* inside the scope makes the scope exit raise ValueError from
ParameterCollection.restoreBackup() (``(retainedValue != currentValue).any()`` cannot broadcast).
The kept value is lost and every object after this one in the traversal is left un-restored.
Same failure class: kept parameter whose old value is None-vs-array works, but dict/list values
holding arrays hit "truth value of an array is ambiguous".
"""
import sys, os

sys.path.insert(0, os.getcwd())
from armi import configure

configure(permissive=True)

import armi

assert armi.__file__.startswith(os.getcwd()), armi.__file__

from armi.reactor import assemblies, blocks, grids
from armi.reactor.components import Circle, DerivedShape, Hexagon


def buildBlock():
    b = blocks.HexBlock("fuel", height=10.0)
    fuel = Circle("fuel", "UZr", Tinput=25.0, Thot=600.0, od=0.76, id=0.0, mult=127.0)
    bond = Circle("bond", "Sodium", Tinput=450.0, Thot=450.0, od="clad.id", id="fuel.od", mult="fuel.mult")
    clad = Circle("clad", "HT9", Tinput=25.0, Thot=470.0, od=1.00, id=0.90, mult="fuel.mult")
    duct = Hexagon("duct", "HT9", Tinput=25.0, Thot=450.0, op=16.0, ip=15.0, mult=1.0)
    coolant = DerivedShape("coolant", "Sodium", Tinput=450.0, Thot=450.0)
    comps = {c.name: c for c in (fuel, bond, clad, duct, coolant)}
    for c in comps.values():
        c.resolveLinkedDims(comps)
        b.add(c)
    return b


import numpy as np

b = buildBlock()
fuel = b.getComponentByName("fuel")
b.p.mgFlux = [1.0, 2.0, 3.0]
fuel.p.temperatureInC = 600.0
err = None
try:
    with b.retainState({b.p.paramDefs["mgFlux"]}):
        b.p.mgFlux = [1.0, 2.0, 3.0, 4.0]  # e.g. a different group structure
        fuel.p.temperatureInC = 900.0  # not kept: must be reverted
except Exception as e:  # noqa
    err = e
print("expected: no exception; b.p.mgFlux == [1 2 3 4] (kept); fuel.p.temperatureInC == 600.0 (reverted)")
print("observed: exception on exit:", repr(err))
print("observed: b.p.mgFlux =", b.p.mgFlux, "; fuel.p.temperatureInC =", fuel.p.temperatureInC)
ok = err is None and np.array_equal(b.p.mgFlux, [1.0, 2.0, 3.0, 4.0]) and fuel.p.temperatureInC == 600.0
if not ok:
    print("DEFECT")
    sys.exit(1)
print("OK")
