"""C13 pristine defect 3: third cores WITH edge assemblies.

(a) addEdgeAssemblies() copies the 0-degree-line assemblies to the 120-degree line and halves the
    volume-integrated parameters of the copies (Assembly.moveTo symmetry-factor scaling) but leaves
    the originals at their full value, so every volume-integrated total (e.g. power) of the third
    core grows by the half-assemblies although volume and mass are conserved. Consequently the
    full-core total is not 3x the total of the third core that has edge assemblies.
(b) convert() silently strips the edge assemblies and restorePreviousGeometry() does not put them
    back, so convert+restore does not return such a core to its previous state.
Run: cd <armi tree> && /venv/bin/python /tmp/seedout3/C13-pristine-3.py   (exit 1 = defect shown)
"""
import sys, os, shutil
sys.path.insert(0, os.getcwd())
from armi import configure
configure(permissive=True)
import armi
assert armi.__file__.startswith(os.getcwd())
from armi.testing import loadTestReactor, reduceTestReactorRings
from armi.reactor.converters.geometryConverters import (
    ThirdCoreHexToFullCoreChanger, EdgeAssemblyChanger)

o, r = loadTestReactor()
reduceTestReactorRings(r, o.cs, 5)
core = r.core
for b in core.iterBlocks():
    b.p.power = 10.0
p0, v0, m0 = core.getTotalBlockParam("power"), core.getVolume(), core.getMass()
EdgeAssemblyChanger().addEdgeAssemblies(core)
p1, v1, m1 = core.getTotalBlockParam("power"), core.getVolume(), core.getMass()
locsWithEdges = sorted(a.getLocation() for a in core)
rc = 0
print("(a) expected: adding edge assemblies conserves volume, mass and total power of the 1/3 model")
print(f"    observed: volume x{v1 / v0:.6f}, mass x{m1 / m0:.6f}, power x{p1 / p0:.6f}")
if abs(p1 / p0 - 1) > 1e-9:
    rc = 1
changer = ThirdCoreHexToFullCoreChanger(o.cs)
changer.convert(r)
p2 = core.getTotalBlockParam("power")
print(f"    full-core power / third-core-with-edges power = {p2 / p1:.6f} (expected 3), "
      f"volume ratio {core.getVolume() / v1:.6f}, mass ratio {core.getMass() / m1:.6f}")
if abs(p2 / p1 - 3) > 1e-9:
    rc = 1
changer.restorePreviousGeometry(r)
locsAfter = sorted(a.getLocation() for a in core)
missing = sorted(set(locsWithEdges) - set(locsAfter))
print("(b) expected: convert+restore gives back the same assemblies at the same places")
print(f"    observed: {len(locsWithEdges)} assemblies before, {len(locsAfter)} after; missing {missing}")
if missing:
    rc = 1
shutil.rmtree(os.path.join(os.getcwd(), "logs"), ignore_errors=True)
sys.exit(rc)
