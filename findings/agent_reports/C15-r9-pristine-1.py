import sys, os; sys.path.insert(0, os.getcwd())
from armi import configure; configure(permissive=True)
import armi
assert armi.__file__.startswith(os.getcwd()), armi.__file__
from armi.settings import Settings
from armi.utils import getStepLengths, getCycleLengths, getBurnSteps

# A decay (zero-availability) cycle is legal in the simple input (availabilityFactors: [1, 0]
# gives step lengths of 0 and keeps the cycle length).  The same cycle written in the detailed
# `cycles` input (cycle length + burn steps + availability factor 0) cannot be expanded:
# _getStepAndCycleLengths divides the summed step lengths by the availability factor.
simple = """
metadata:
  version: uncontrolled
settings:
  power: 1000000000.0
  nCycles: 2
  burnSteps: 2
  cycleLengths: [10, 10]
  availabilityFactors: [1.0, 0.0]
  runType: Standard
"""
detailed = """
metadata:
  version: uncontrolled
settings:
  power: 1000000000.0
  nCycles: 2
  cycles:
    - cycle length: 10
      burn steps: 2
    - cycle length: 10
      burn steps: 2
      availability factor: 0.0
  runType: Standard
"""
cs = Settings(); cs.loadFromString(simple)
print("simple input  : steps", getStepLengths(cs), "cycle lengths", getCycleLengths(cs))
cs2 = Settings(); cs2.loadFromString(detailed)
print("expected detailed: steps [[5.0, 5.0], [0.0, 0.0]], cycle lengths [10, 10] (sum(steps) == availability * cycle length)")
try:
    print("observed detailed: steps", getStepLengths(cs2), "cycle lengths", getCycleLengths(cs2), "burn steps", getBurnSteps(cs2))
except Exception as e:
    print("observed detailed: raised %r" % (e,))
    sys.exit(1)
sl, cl = getStepLengths(cs2), getCycleLengths(cs2)
if cl != [10, 10]:
    print("DEFECT: cycle lengths", cl)
    sys.exit(1)
print("no defect")
