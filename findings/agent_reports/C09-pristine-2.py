"""C09 pristine defect 2: ISOTXS/GAMISO scatter records with sub-blocking (NSBLOK > 1) or with
more than one Legendre order in a block (LORD(N) > 1) can be written but not read back.

_IsotxsNuclideIO._rw7DRecord builds one CSR matrix of shape (ng, ng) per *record*, with an
indptr that only covers the rows present in that record: with NSBLOK > 1 a record holds
only the groups JL..JU of the sub-block, with LORD > 1 it holds ng rows per order.  scipy
rejects the indptr, so reading the file armi just wrote fails.  (For sub-blocks after the
first one the method would in addition find the matrix already set and take the *write*
branch while reading.)
Run: cd <armi tree> && python C09-pristine-2.py   (exit 1 when the defect shows)
"""
import sys, os

sys.path.insert(0, os.getcwd())
from armi import configure

configure(permissive=True)
import tempfile

import numpy as np

import armi
from armi.nuclearDataIO.cccc import isotxs

assert armi.__file__.startswith(os.getcwd()), armi.__file__
FIX = os.path.join(os.getcwd(), "armi", "nuclearDataIO", "tests", "fixtures", "ISOAA")
bad = []


def check(tag, mutate):
    ref = isotxs.readBinary(FIX)
    lib = isotxs.readBinary(FIX)
    mutate(lib)
    with tempfile.TemporaryDirectory() as tmp:
        path = os.path.join(tmp, "ISOTXS")
        isotxs.writeBinary(lib, path)
        try:
            back = isotxs.readBinary(path)
        except Exception as ee:
            last = [ln for ln in str(ee).splitlines() if ln.strip()][-1]
            print("{}: expected file to read back; observed {}: {}".format(tag, type(ee).__name__, last))
            bad.append(tag)
            return
    worst = 0.0
    for n1, n2 in zip(ref.nuclides, back.nuclides):
        a = n1.micros.elasticScatter.toarray()
        b = n2.micros.elasticScatter.toarray()
        worst = max(worst, float(np.abs(a - b).max()))
    print("{}: expected identical elastic scatter matrices; max abs difference {}".format(tag, worst))
    if worst != 0.0:
        bad.append(tag)


def subblock(lib):
    lib.isotxsMetadata["subblockingControl"] = 3  # NSBLOK


def twoOrders(lib):
    # first scattering block of the first nuclide carries two Legendre orders
    nuc = lib.nuclides[0]
    ords = np.array(nuc.isotxsMetadata["ords"])
    ords[0] = 2
    nuc.isotxsMetadata["ords"] = ords


check("control (NSBLOK=1, LORD=1)", lambda lib: None)
check("NSBLOK=3", subblock)
check("LORD(1)=2 on first nuclide", twoOrders)

if bad:
    print("DEFECT PRESENT:", bad)
    sys.exit(1)
print("no defect observed")
sys.exit(0)
