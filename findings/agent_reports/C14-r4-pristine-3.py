"""Pristine defect 3: an assembly listed twice in a swap cascade is only warned about, but the
resulting swapAssemblies(a, a) destroys the assembly.

_transferStationaryBlocks(a, a) removes the stationary block from a, then tries to remove it again
(ValueError from list.remove) -> the grid plate is gone from the assembly (parent None) and the
cascade is left half done.
"""
import sys, os; sys.path.insert(0, os.getcwd())
from armi import configure; configure(permissive=True)
import armi
assert armi.__file__.startswith(os.getcwd()), armi.__file__
from armi.testing import loadTestReactor
from armi.tests import TEST_ROOT
from armi.physics.fuelCycle import fuelHandlers

o, r = loadTestReactor(TEST_ROOT)
core = r.core
fh = fuelHandlers.FuelHandler(o)
a = core.getAssemblyWithStringLocation("003-002")
b = core.getAssemblyWithStringLocation("004-002")
nA, nB = len(a), len(b)
raised = None
try:
    fh.swapCascade([a, b, a])
except Exception as e:
    raised = e
print("expected: moves never alter an assembly's contents; a duplicate is either rejected before anything moves or ignored")
print("observed: raised {!r}; blocks in a: {} -> {} {}; blocks in b: {} -> {}; a at {}, b at {}".format(
    raised, nA, len(a), [x.getName() for x in a], nB, len(b), a.getLocation(), b.getLocation()))
raised2 = None
a2 = core.getAssemblyWithStringLocation("005-002")
n2 = len(a2)
try:
    fh.swapAssemblies(a2, a2)
except Exception as e:
    raised2 = e
print("observed: swapAssemblies(x, x) raised {!r}; blocks in x: {} -> {}".format(raised2, n2, len(a2)))
bad = len(a) != nA or len(b) != nB or len(a2) != n2
print("DEFECT" if bad else "no defect")
sys.exit(1 if bad else 0)
