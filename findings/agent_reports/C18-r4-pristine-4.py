"""Pristine defect: a linked multiplicity on a component that sits in a pin lattice is refused as "conflicting".

`clad` has `mult: fuel.mult` and the same latticeIDs as `fuel` (6 positions), so the link resolves to exactly the number
of lattice positions.  BlockBlueprint.construct compares the still-unresolved link string "fuel.mult" with the position
count (links are resolved only later) and raises `Conflicting mult input (fuel.mult) and number of lattice positions (6)`.
The same block with `mult` left off, or `mult: 6`, is accepted.
"""
import sys, os
sys.path.insert(0, os.getcwd())
from armi import configure
configure(permissive=True)
import armi
assert armi.__file__.startswith(os.getcwd()), armi.__file__
from armi import settings, runLog
from armi.reactor import blueprints
runLog.setVerbosity("error")
BP = r"""
nuclide flags:
    U: {burn: false, xs: true}
    ZR: {burn: false, xs: true}
    NA: {burn: false, xs: true}
blocks:
    fuel: &block_fuel
        grid name: pins
        fuel:
            shape: Circle
            material: UZr
            Tinput: 25.0
            Thot: 600.0
            id: 0.0
            od: 0.8
            latticeIDs: [1]
        clad:
            shape: Circle
            material: UZr
            Tinput: 25.0
            Thot: 600.0
            id: 0.8
            od: 0.9
            mult: MULT
            latticeIDs: [1]
        duct:
            shape: Hexagon
            material: UZr
            Tinput: 25.0
            Thot: 450.0
            ip: 9.0
            mult: 1
            op: 10.0
        coolant:
            shape: DerivedShape
            material: Sodium
            Tinput: 450.0
            Thot: 450.0
assemblies:
    fuel a:
        specifier: IC
        blocks: [*block_fuel]
        height: [10.0]
        axial mesh points: [1]
        xs types: [A]
grids:
    pins:
        geom: hex_corners_up
        symmetry: full
        lattice pitch: {x: 1.0}
        lattice map: |
          - 1 1
           1 2 1
            1 1
"""
res = {}
for m in ("6", "fuel.mult"):
    bp = blueprints.Blueprints.load(BP.replace("MULT", m))
    try:
        bp._prepConstruction(settings.Settings())
        b = bp.assemblies["fuel a"][0]
        res[m] = {c.name: c.getDimension("mult") for c in b if c.name in ("fuel", "clad")}
    except Exception as e:
        res[m] = "ERROR " + repr(e)
    print(f"clad mult: {m:10} -> {res[m]}")
print("expected: both give fuel mult 6 and clad mult 6")
if res["6"] != res["fuel.mult"]:
    print("DEFECT: the linked multiplicity is refused although it agrees with the lattice")
    sys.exit(1)
print("no defect observed")
