"""Pristine defect (C10): XSCollection.merge silently drops higher-order scatter data.

merge() decides "self is empty -> take everything from other" / "other is empty -> nothing to do" while
IGNORING the higherOrderScatter dict. So
  (a) self holds only higher-order scatter matrices, other holds ordinary cross sections:
      self.__dict__.update(other.__dict__) replaces self.higherOrderScatter by other's empty dict;
  (b) self holds ordinary cross sections, other holds only higher-order matrices: "nothing to merge",
      other's matrices are discarded.
Neither raises. Expected: the union of the data, or an error - never a silent loss.
"""
import sys, os

sys.path.insert(0, os.getcwd())
from armi import configure

configure(permissive=True)
import numpy as np
from scipy import sparse
import armi
from armi.nuclearDataIO import xsCollections

assert armi.__file__.startswith(os.getcwd()), armi.__file__


def ordinary():
    cc = xsCollections.XSCollection(parent="ordinary")
    cc.nGamma = np.array([1.0, 2.0])
    cc.elasticScatter = sparse.csr_matrix(np.eye(2))
    return cc


def highOnly():
    cc = xsCollections.XSCollection(parent="P1-only")
    cc.higherOrderScatter = {(1, 1): sparse.csr_matrix(np.array([[0.5, 0.0], [0.1, 0.4]]))}
    return cc


bad = False
for what, first, second in (("(a) high-order then ordinary", highOnly(), ordinary()),
                            ("(b) ordinary then high-order", ordinary(), highOnly())):
    try:
        first.merge(second)
    except Exception as ee:
        print(what, "-> rejected with", type(ee).__name__, "(acceptable)")
        continue
    keys = sorted(first.higherOrderScatter.keys())
    print(what, "-> merged without error; higherOrderScatter keys in result:", keys, "expected [(1, 1)]")
    if keys != [(1, 1)]:
        bad = True
if bad:
    print("DEFECT: higher-order scatter matrices were silently lost in a merge")
    sys.exit(1)
print("no defect observed")
