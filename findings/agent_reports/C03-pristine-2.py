"""Pristine defect (C03, mass-conservation clause x linked dimensions): a SOLID component
that has one of its dimensions linked to a neighbour does not conserve its mass per unit
height when ITS OWN temperature changes.

setTemperature() always divides the number densities by f^2 (f = the component's own linear
expansion factor), but a linked dimension does not expand with the component (it follows the
neighbour), so the area does not grow by f^2 and mass = N * A changes.

Run: cd <armi tree> && python C03-pristine-2.py   (exit 1 when the defect shows)
"""
import sys, os

sys.path.insert(0, os.getcwd())
from armi import configure

configure(permissive=True)
import armi

assert armi.__file__.startswith(os.getcwd()), armi.__file__

from armi.reactor import blocks
from armi.reactor.components import Circle, Hexagon

height = 10.0
n = 19
b = blocks.HexBlock("fuel", height=height)
fuel = Circle("fuel", "UZr", Tinput=25.0, Thot=400.0, od=0.80, id=0.0, mult=n)
# a liner/barrier whose inner surface is defined as "the fuel surface"
liner = Circle("liner", "HT9", Tinput=25.0, Thot=400.0, od=0.86, id="fuel.od", mult=n,
               components={"fuel": fuel})
duct = Hexagon("duct", "HT9", Tinput=25.0, Thot=400.0, op=6.0, ip=5.6, mult=1)
for c in (fuel, liner, duct):
    b.add(c)

m0, a0 = liner.getMass(), liner.getArea()
n0 = liner.getNumberDensity("FE")
liner.setTemperature(650.0)
f = liner.getThermalExpansionFactor(Tc=650.0, T0=400.0)
m1, a1 = liner.getMass(), liner.getArea()
n1 = liner.getNumberDensity("FE")
print("liner expansion factor 400->650 C :", f, " f^2 =", f**2)
print("number density ratio              :", n1 / n0, " (1/f^2 =", 1 / f**2, ")")
print("area ratio                        :", a1 / a0, " (expected f^2)")
print("mass per unit height ratio        :", m1 / m0, " (expected 1.0)")
if abs(m1 / m0 - 1) > 1e-9:
    print("DEFECT: solid liner mass changed by %.3f %% on its own temperature change" % (100 * (m1 / m0 - 1)))
    sys.exit(1)
print("no defect observed")
sys.exit(0)
