"""Pristine defect 1: dischargeSwap with a FRESH incoming assembly and the DEFAULT stationary block
flag (GRID_PLATE) leaves blocksByName untruthful.

_transferStationaryBlocks exchanges the grid plates before Core.add renumbers the fresh assembly:
 * the grid plate that came from the fresh assembly keeps its placeholder name (B-<random>-000), goes to
   the pool inside the discharged assembly and is never registered -> a pool block not found by name;
 * the grid plate that stayed in the core is renamed by Core.add -> renumber, but its old key stays in
   blocksByName -> the lookup returns a block under a name that is not its name.
With trackAssems off the stale key is left behind in the same way.
"""
import sys, os; sys.path.insert(0, os.getcwd())
from armi import configure; configure(permissive=True)
import armi
assert armi.__file__.startswith(os.getcwd()), armi.__file__
from armi.testing import loadTestReactor
from armi.tests import TEST_ROOT
from armi.physics.fuelCycle import fuelHandlers

bad = 0
for track in (True, False):
    o, r = loadTestReactor(TEST_ROOT, customSettings={"trackAssems": track})
    core, sfp = r.core, r.excore["sfp"]
    fh = fuelHandlers.FuelHandler(o)
    out = core.getAssemblyWithStringLocation("003-002")
    fresh = core.createAssemblyOfType(out.getType())
    fh.dischargeSwap(fresh, out)
    print("trackAssems =", track, " stationary flags =", core.stationaryBlockFlagsList)
    print("  expected: every block of the core and the pool is found under its current name, every key of blocksByName is the name of its block")
    for a in list(core) + list(sfp):
        for b in a:
            if core.blocksByName.get(b.getName()) is not b:
                bad += 1
                print("  observed: block {} of {} ({}) is not found by name".format(b.getName(), a.getName(), a.getLocation()))
    for k, b in core.blocksByName.items():
        if b.getName() != k:
            bad += 1
            print("  observed: blocksByName[{!r}] is a block now named {} in {}".format(k, b.getName(), b.parent))
print("DEFECT" if bad else "no defect")
sys.exit(1 if bad else 0)
