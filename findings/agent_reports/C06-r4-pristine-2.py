"""
C06 pristine defect 2 (round 4): loading a snapshot does not give back the locators that were
written for gridless components of a block that carries a pin grid.

In a block with a pin lattice the duct / coolant / inter-coolant components are not on the
lattice: they have a CoordinateLocation(0, 0, 0) and are stored with location type "C".
Database._compose ignores the stored location TYPE: whenever the parent has a spatial grid it
does ``parent.spatialGrid[location]``, so after a load these components sit ON the pin lattice
as IndexLocation (0, 0, 0) - the cell of the central pin.  Writing the loaded reactor again
stores type "I", i.e. a load/write round trip changes the snapshot.
"""
import sys, os

sys.path.insert(0, os.getcwd())
from armi import configure

configure(permissive=True)
import armi

assert armi.__file__.startswith(os.getcwd()), armi.__file__
import shutil
import tempfile

import numpy as np

from armi import context, runLog, settings
from armi.bookkeeping.db.database import Database
from armi.reactor import reactors
from armi.tests import TEST_ROOT


def main():
    runLog.setVerbosity("error")
    cs = settings.Settings(
        os.path.join(TEST_ROOT, "smallestTestReactor", "armiRunSmallest.yaml")
    )
    cs = cs.modified(newSettings={"verbosity": "error"})
    r = reactors.loadFromCs(cs)
    start = os.getcwd()
    oldFast = context._FAST_PATH
    work = tempfile.mkdtemp(prefix="c06work")
    os.chdir(work)
    context._FAST_PATH = work
    try:
        db = Database("c06p2.h5", "w")
        db.open()
        db.writeInputsToDB(cs)
        db.writeToDB(r)
        before = {
            c.name: type(c.spatialLocator).__name__ for c in r.core[0][0]
        }
        r2 = db.load(0, 0, allowMissing=True)
        after = {c.name: type(c.spatialLocator).__name__ for c in r2.core[0][0]}
        r2.p.timeNode = 1
        db.writeToDB(r2)
        t0 = np.char.decode(db.h5db["c00n00/layout/locationType"][:]).tolist()
        t1 = np.char.decode(db.h5db["c00n01/layout/locationType"][:]).tolist()
        db.close(True)
    finally:
        os.chdir(start)
        context._FAST_PATH = oldFast
        shutil.rmtree(work, ignore_errors=True)
    print("locator types written        :", before)
    print("expected after load          :", before)
    print("observed after load          :", after)
    print("location types in c00n00     :", t0)
    print("after load + write (c00n01)  :", t1)
    if before != after or t0 != t1:
        print(
            "DEFECT SHOWN: gridless components of a block with a pin grid come back as "
            "IndexLocation on the pin lattice"
        )
        return 1
    print("no defect")
    return 0


if __name__ == "__main__":
    sys.exit(main())
