"""C12 pristine 3: heating in two (non-uniform) steps and cooling back in one step does not restore
heights/masses when fuel and clad expand differently.

axiallyExpandAssembly sets c.height = growFrac * (current BLOCK height), i.e. a non-target component
forgets its own previous height.  With several steps whose per-block factors differ, the clad top in
the upper fuel block (on which the plenum clad sits) does not return to its original elevation, so
the plenum block top and the plenum component masses are off after the net-zero temperature cycle.
Each step is an independent performThermalAxialExpansion call.
Expected (property C12): after 25 -> 350 -> (350 below 30 cm / 600 above) -> 25 C every block top
and every solid component mass equals its original value."""
import sys, os

sys.path.insert(0, os.getcwd())
from armi import configure

configure(permissive=True)
import armi

assert armi.__file__.startswith(os.getcwd()), armi.__file__

import numpy as np
from armi.reactor import grids
from armi.reactor.assemblies import HexAssembly
from armi.reactor.blocks import HexBlock
from armi.reactor.components import Circle, DerivedShape, Hexagon
from armi.reactor.converters.axialExpansionChanger import AxialExpansionChanger
from armi.reactor.converters.axialExpansionChanger.expansionData import (
    iterSolidComponents,
)
from armi.reactor.flags import Flags


def block(btype, h, mainMat="HT9", T=25.0, order=(0, 1, 2, 3, 4)):
    b = HexBlock(btype, height=h)
    comps = [
        Circle(btype, mainMat, Tinput=25.0, Thot=T, od=0.76, id=0.0, mult=127.0),
        Circle("clad", "HT9", Tinput=25.0, Thot=T, od=0.80, id=0.77, mult=127.0),
        Hexagon("duct", "HT9", Tinput=25.0, Thot=T, op=16, ip=15.3, mult=1.0),
        DerivedShape("coolant", "Sodium", Tinput=25.0, Thot=T),
        Hexagon("intercoolant", "Sodium", Tinput=25.0, Thot=T, op=17.0, ip=16.0, mult=1.0),
    ]
    for i in order:
        b.add(comps[i])
    b.setType(btype)
    b.getVolumeFractions()
    return b


def dummy(h, T=25.0):
    b = HexBlock("dummy", height=h)
    b.add(Hexagon("dummy coolant", "Sodium", Tinput=25.0, Thot=T, op=17, ip=0.0, mult=1.0))
    b.getVolumeFractions()
    b.setType("dummy")
    return b


def buildAssembly(fuelMat="UZr", order=(0, 1, 2, 3, 4)):
    """shield / fuel / fuel / plenum / dummy pin assembly; fuel pins are UZr, structure is HT9."""
    a = HexAssembly("fuel")
    a.spatialGrid = grids.AxialGrid.fromNCells(numCells=1)
    a.spatialGrid.armiObject = a
    a.add(block("shield", 10.0))
    a.add(block("fuel", 12.0, fuelMat, order=order))
    a.add(block("fuel", 14.0, fuelMat, order=order))
    a.add(block("plenum", 16.0))
    a.add(dummy(20.0))
    a.calculateZCoords()
    a.reestablishBlockOrder()
    return a


bad = []

a = buildAssembly()
total = a.getTotalHeight()
grid = np.linspace(0.0, total, 73)
tops0 = [b.p.ztop for b in a]
m0 = {c: c.getMass() for b in a for c in iterSolidComponents(b)}
fields = [
    np.full(grid.shape, 350.0),
    np.where(grid <= 30.0, 350.0, 600.0),
    np.full(grid.shape, 25.0),
]
for f in fields:
    AxialExpansionChanger().performThermalAxialExpansion(a, grid, f)
for ib, b in enumerate(a):
    print(f"block {ib} {b.getType():7s} ztop {b.p.ztop!r} (original {tops0[ib]!r})")
    if abs(b.p.ztop - tops0[ib]) > 1e-9:
        bad.append(f"expected block {ib} ({b.getType()}) ztop restored to {tops0[ib]!r}; observed {b.p.ztop!r}")
for c, m in m0.items():
    rel = c.getMass() / m - 1.0
    if abs(rel) > 1e-10:
        bad.append(f"expected mass of {c.parent.getType()}/{c.name} restored; observed relative change {rel:+.3e}")

if bad:
    print("DEFECT SHOWN")
    for line in bad:
        print("  " + line)
    sys.exit(1)
print("no defect observed")
