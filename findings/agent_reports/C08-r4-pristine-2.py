"""C08 pristine defect 2: HexBlock.getSymmetryFactor classifies cells on the 0/120 degree symmetry
lines by looking at ONE hard-wired cell, (i, j) = (-1, 2) (ring 3, position 4), to decide whether
edge assemblies are present.  If a third-core model has no assembly in ring 3 on the symmetry
line (an empty / removed position) but does carry edge assemblies further out on BOTH the
0 degree and the 120 degree line, every one of those half-assemblies reports symmetry factor 1.0
instead of 2.0, i.e. cells that sit on a symmetry line (and whose 120 degree image is also
modelled) are classified as interior cells; volumes/masses of those orbits are counted twice.

Expected: for every assembly on BOUNDARY_0_DEGREES / BOUNDARY_120_DEGREES whose symmetric image
on the other line is also present in the core, getSymmetryFactor() == 2.0.

Run as:  cd <armi tree> && python C08-pristine-2.py      (exit 1 when the defect shows)
"""
import sys, os

sys.path.insert(0, os.getcwd())
from armi import configure

configure(permissive=True)

import armi

assert armi.__file__.startswith(os.getcwd()), armi.__file__

from armi import runLog
from armi.reactor import grids
from armi.reactor.converters import geometryConverters
from armi.reactor.tests.test_reactors import TEST_ROOT, loadTestReactor

_o, r = loadTestReactor(TEST_ROOT)
runLog.setVerbosity("error")
core = r.core
grid = core.spatialGrid
changer = geometryConverters.EdgeAssemblyChanger()
changer.removeEdgeAssemblies(core)


def report(title):
    bad = 0
    print(title)
    for line in (grids.BOUNDARY_0_DEGREES, grids.BOUNDARY_120_DEGREES):
        for a in core.getAssembliesOnSymmetryLine(line):
            images = [
                core.childrenByLocator.get(grid[i, j, 0])
                for i, j in grid.getSymmetricEquivalents(a.spatialLocator.indices)
            ]
            hasImage = any(im is not None for im in images)
            expected = 2.0 if hasImage else 1.0
            got = a[1].getSymmetryFactor()
            flag = "" if got == expected else "   <-- WRONG"
            print(
                f"  line {line} {a.getLocation()} image modelled={hasImage}: "
                f"expected symmetry factor {expected}, observed {got}{flag}"
            )
            bad += got != expected
    return bad


# reference: full set of edge assemblies -> all classified 2.0
changer.addEdgeAssemblies(core)
badRef = report("with the ring-3 edge position filled:")
changer.removeEdgeAssemblies(core)

# now leave the ring-3 cell on the symmetry line empty and add the edge assemblies again
hole = core.childrenByLocator[grid[2, -1, 0]]
holeLabel = hole.getLocation()
core.removeAssembly(hole, discharge=False)
changer2 = geometryConverters.EdgeAssemblyChanger()
changer2.addEdgeAssemblies(core)
bad = report(f"after removing {holeLabel} (ring 3 of the 0 degree line) and re-adding edges:")

if bad:
    print(f"DEFECT: {bad} symmetry-line assemblies classified as interior (reference run wrong: {badRef})")
    sys.exit(1)
print("no defect observed")
sys.exit(0)
