"""C01 pristine defect 3: copying / unpickling attaches locators that were detached in the original.

ArmiObject.__setstate__ re-associates the locator of EVERY child with the parent's grid.  A child
that was not on the grid in the original (e.g. a component added to a block after the pin grid was
created: its locator is the default CoordinateLocation with grid None) is on the grid in the copy,
so the copy is not an equal-shaped tree.
"""
import sys, os

sys.path.insert(0, os.getcwd())
from armi import configure

configure(permissive=True)
import copy, pickle
import armi

assert armi.__file__.startswith(os.getcwd()), armi.__file__
from armi import runLog
from armi.reactor import blocks
from armi.reactor.components import Circle, Helix, Hexagon

runLog.setVerbosity("error")
hot = {"Tinput": 25.0, "Thot": 400.0}
b = blocks.HexBlock("b")
b.setType("fuel")
b.add(Circle("fuel", "UZr", od=0.6, mult=7, **hot))
b.add(Circle("clad", "HT9", id=0.6, od=0.8, mult=7, **hot))
b.add(Helix("wire", "HT9", od=0.1, id=0.0, axialPitch=30.0, helixDiameter=0.9, mult=7, **hot))
b.add(Hexagon("duct", "HT9", ip=15.0, op=16.0, mult=1, **hot))
b.autoCreateSpatialGrids()
b.add(Circle("bond", "Sodium", od=0.1, mult=1, **hot))  # added later: not placed on the grid


def shape(block):
    return [(c.name, c.spatialLocator.grid is not None) for c in block]


bad = []
for label, cp in (("deepcopy", copy.deepcopy(b)), ("pickle", pickle.loads(pickle.dumps(b)))):
    if shape(cp) != shape(b):
        bad.append("{}: (child, attached to a grid?) original {} copy {}".format(label, shape(b), shape(cp)))
if bad:
    print("DEFECT (pristine): the copy attaches a child locator that is detached in the original")
    for p in bad:
        print("  " + p)
    sys.exit(1)
print("no defect observed")
