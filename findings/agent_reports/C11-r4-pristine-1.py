"""C11-pristine-1: volume-integrated parameters mapped INTO the uniform-mesh reactor are divided by the
symmetry factor a second time for the central assembly of a 1/3-core model.

UniformMeshGeometryConverter._buildAllUniformAssemblies builds each new assembly with
makeAssemWithUniformMesh (which maps the "in" block parameters, e.g. molesHmBOL / massHmBOL for the
neutronics converter, mgFlux for the gamma converter) while the new assembly is not yet in a core
(symmetry factor 1), then calls core.add(newAssem, loc) -> Assembly.moveTo ->
scaleParamsToNewSymmetryFactor(old=1 -> new=3), which divides every VOLUME_INTEGRATED block
parameter of the central assembly by 3.  The source values already were the 1/3 values.

Expected: assembly total of molesHmBOL / massHmBOL identical in source and converted reactor.
Run: cd <armi checkout> && python C11-pristine-1.py   (exit 1 when the defect shows)
"""
import sys, os

sys.path.insert(0, os.getcwd())
from armi import configure

configure(permissive=True)
import armi

assert armi.__file__.startswith(os.getcwd()), armi.__file__
import io, contextlib, shutil
from armi import runLog
from armi.reactor.converters import uniformMesh
from armi.testing import loadTestReactor, reduceTestReactorRings
from armi.tests import TEST_ROOT

hadLogs = os.path.exists("logs")
with contextlib.redirect_stdout(io.StringIO()):
    o, r = loadTestReactor(TEST_ROOT)
    reduceTestReactorRings(r, o.cs, 3)
runLog.setVerbosity("error")
conv = uniformMesh.NeutronicsUniformMeshConverter(cs=o.cs, calcReactionRates=False)
conv.convert(r)
bad = []
for a in r.core:
    na = conv.convReactor.core.getAssemblyByName(a.getName())
    for pname in ("molesHmBOL", "massHmBOL"):
        s0 = sum(b.p[pname] for b in a)
        s1 = sum(b.p[pname] for b in na)
        if s0 and abs(s1 / s0 - 1.0) > 1e-9:
            bad.append(
                f"{a} (symmetry factor {a[0].getSymmetryFactor()}): total {pname} expected {s0:.6g}, "
                f"observed {s1:.6g} in the uniform-mesh reactor (ratio {s1 / s0:.4f}); "
                f"mass ratio {sum(b.getMass() for b in na) / sum(b.getMass() for b in a):.6f}"
            )
if not hadLogs:
    shutil.rmtree("logs", ignore_errors=True)
if bad:
    print("DEFECT (symmetry " + str(r.core.symmetry) + ")")
    for m in bad:
        print("  " + m)
    sys.exit(1)
print("no defect observed")
