"""Pristine defect (C16): a component dimension named in the keep-set of a retainState scope does
NOT keep its new value when the dimension was a link at scope entry (the old link is put back), nor
when it becomes a link inside the scope (the new link is dropped).
"""
import sys, os

sys.path.insert(0, os.getcwd())
from armi import configure

configure(permissive=True)
import armi

assert armi.__file__.startswith(os.getcwd()), armi.__file__
from armi import runLog
from armi.reactor import blocks, components
from armi.reactor.components.component import _DimensionLink

runLog.setVerbosity("error")


def build():
    b = blocks.HexBlock("blk", height=10.0)
    fuel = components.Circle(
        "fuel", "UZr", Tinput=25.0, Thot=600.0, od=0.76, id=0.0, mult=127.0
    )
    clad = components.Circle(
        "clad",
        "HT9",
        Tinput=25.0,
        Thot=450.0,
        od=0.80,
        id="fuel.od",
        mult=127.0,
        components={"fuel": fuel},
    )
    b.add(fuel)
    b.add(clad)
    return b, fuel, clad


problems = []

# control: an unlinked dimension is kept
b, fuel, clad = build()
with b.retainState([clad.p.paramDefs["od"]]):
    clad.setDimension("od", 0.9)
print("kept unlinked clad.od after scope:", clad.p.od, "(expected 0.9)")
if clad.p.od != 0.9:
    problems.append("control failed: unlinked kept od = {}".format(clad.p.od))

# 1. linked at entry, set to a number inside, named to be kept
b, fuel, clad = build()
with b.retainState([clad.p.paramDefs["id"]]):
    clad.setDimension("id", 0.78)
print("kept clad.id after scope:", clad.p.id, type(clad.p.id).__name__, "(expected 0.78)")
if isinstance(clad.p.id, _DimensionLink) or clad.p.id != 0.78:
    problems.append(
        "clad.id was named to be kept and set to 0.78 in the scope; after the scope it is {!s} ({})".format(
            clad.p.id, type(clad.p.id).__name__
        )
    )

# 2. a number at entry, linked inside, named to be kept
b, fuel, clad = build()
with b.retainState([clad.p.paramDefs["od"]]):
    clad.setLink("od", fuel, "od")
print("kept clad.od after scope:", clad.p.get("od"), "(expected link fuel.od)")
if not isinstance(clad.p.get("od"), _DimensionLink):
    problems.append(
        "clad.od was named to be kept and linked to fuel.od in the scope; after the scope it is {!r}".format(
            clad.p.get("od")
        )
    )

if problems:
    print("DEFECT")
    for p in problems:
        print("  " + p)
    sys.exit(1)
print("OK")
