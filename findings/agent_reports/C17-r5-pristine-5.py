"""C17 on the UNCHANGED tree: near-miss invalid values are not rejected but silently turned into something else.

The auto-derived schema is ``Coerce(type(default))``: a string for a bool setting becomes True whatever
it says, a string / dict for a list setting is exploded into characters / keys, None for a str setting
becomes the text 'None', non-integers for int settings are truncated.
"""
import sys, os; sys.path.insert(0, os.getcwd())
from armi import configure; configure(permissive=True)
import armi
assert armi.__file__.startswith(os.getcwd()), armi.__file__
from armi import settings

cases = [
    ("plots", "False"),            # bool setting
    ("copyFilesFrom", "a.txt"),    # list setting
    ("copyFilesFrom", {"a": 1}),
    ("comment", None),             # str setting
    ("burnSteps", 2.7),            # int setting
    ("nCycles", True),
]
problems = []
for name, val in cases:
    cs = settings.Settings()
    before = cs[name]
    try:
        cs[name] = val
    except Exception:
        continue  # rejected, previous value must be in place
    if cs[name] != val:
        problems.append(f"{name} = {val!r}: not rejected, setting now holds {cs[name]!r} (was {before!r})")
if problems:
    print("DEFECT (expected: rejected with an error, or held as given)")
    for p in problems:
        print("  " + p)
    sys.exit(1)
print("no defect observed")
