"""C10 pristine defect 3: a merge that is rejected because of a conflicting nuclide does NOT leave the target
unchanged. IsotxsLibrary._mergeNuclides adopts the nuclides of the other library one by one, so every
nuclide that precedes the conflicting one is already in the target when the AttributeError is raised."""
import sys, os

sys.path.insert(0, os.getcwd())
from armi import configure

configure(permissive=True)
import armi

assert armi.__file__.startswith(os.getcwd()), armi.__file__
import numpy as np
from scipy import sparse
from armi.nucDirectory import nuclideBases
from armi.nuclearDataIO import xsLibraries, xsNuclides, xsCollections
from armi.utils import properties


def mkIso(labels, ng=3, seed=0, fileName="ISOAA"):
    """Synthetic ISOTXS-like (neutron only) library."""
    rng = np.random.RandomState(seed)
    lib = xsLibraries.IsotxsLibrary()
    properties.unlockImmutableProperties(lib)
    lib.neutronEnergyUpperBounds = np.array([1e7, 1e5, 1e2][:ng])
    lib.neutronVelocity = np.array([1e9, 1e7, 1e5][:ng])
    properties.lockImmutableProperties(lib)
    lib.isotxsMetadata["numGroups"] = ng
    lib.isotxsMetadata.fileNames.append(fileName)
    for lab in labels:
        n = xsNuclides.XSNuclide(lib, lab)
        n.isotxsMetadata["nuclideId"] = lab[:-2]
        n.isotxsMetadata["efiss"] = 3.0e-11
        n.isotxsMetadata["ecapt"] = 1.0e-12
        n._base = nuclideBases.byLabel[lab[:-2]]
        m = n.micros
        for k in ["nGamma", "fission", "neutronsPerFission", "nalph", "np", "n2n", "nd", "nt", "chi"]:
            setattr(m, k, rng.rand(ng))
        m.total = rng.rand(ng, 1)
        m.transport = rng.rand(ng, 1) + 1
        for k in ["elasticScatter", "inelasticScatter", "n2nScatter"]:
            setattr(m, k, sparse.csr_matrix(np.tril(rng.rand(ng, ng))))
        lib[lab] = n
    return lib


def mkGam(labels, ngam=2, seed=10):
    """Synthetic GAMISO-like (gamma only) library."""
    rng = np.random.RandomState(seed)
    lib = xsLibraries.IsotxsLibrary()
    properties.unlockImmutableProperties(lib)
    lib.gammaEnergyUpperBounds = np.array([1e7, 1e5, 1e2][:ngam])
    properties.lockImmutableProperties(lib)
    lib.gamisoMetadata["numGroups"] = ngam
    lib.gamisoMetadata.fileNames.append("AA.gamiso")
    for lab in labels:
        n = xsNuclides.XSNuclide(lib, lab)
        n._base = nuclideBases.byLabel[lab[:-2]]
        n.gamisoMetadata["nuclideId"] = lab[:-2]
        n.gammaXS.nGamma = rng.rand(ngam)
        lib[lab] = n
    return lib


target = xsLibraries.IsotxsLibrary()
target.merge(mkIso(["U235AA", "FE56AA"], seed=0, fileName="ISOAA"))
before = list(target.nuclideLabels)
other = mkIso(["NA23AA", "U235AA"], seed=0, fileName="ISOAA2")  # U235AA neutron data from a second source
try:
    target.merge(other)
    print("DEFECT: conflicting U235AA neutron data merged without error")
    sys.exit(1)
except Exception as ee:
    print("merge rejected with {} (as required)".format(type(ee).__name__))
after = list(target.nuclideLabels)
print("expected target nuclides after rejected merge:", before)
print("observed target nuclides after rejected merge:", after)
print("NA23AA now belongs to target:", "NA23AA" in target and target["NA23AA"].container is target)
if after != before:
    print("DEFECT: rejected merge left the target modified (partial merge)")
    sys.exit(1)
print("no defect observed")
sys.exit(0)
