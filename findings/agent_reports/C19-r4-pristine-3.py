"""Pristine defect: mass-number based helpers of nucDir lose the isomeric state.

Natural tantalum is TA180M (1.2e-4) + TA181.  nucDir.getNaturalIsotopics / getNaturalMassIsotopics
return (A, fraction) tuples, i.e. (180, 1.2e-4): the state is dropped, and a consumer that rebuilds
the nuclide name the way armi.materials.hafnium.Hafnium does ("%s%d" % (symbol, A)) lands on TA180,
the ground state, whose natural abundance is 0.  Likewise nucDir.getAtomicWeight(z=73, a=180) (and
z=95, a=242) raises IndexError instead of returning a nuclide weight because several isomers match.
"""
import sys, os

sys.path.insert(0, os.getcwd())
from armi import configure

configure(permissive=True)
import armi

assert armi.__file__.startswith(os.getcwd()), armi.__file__
from armi.nucDirectory import elements, nucDir, nuclideBases

bad = 0
for sym in [e.symbol for e in elements.byZ.values()]:
    natural = elements.bySymbol[sym].getNaturalIsotopics()
    for (a, frac), nuc in zip(nucDir.getNaturalIsotopics(sym), natural):
        rebuilt = nuclideBases.byName.get(f"{sym}{a}")
        if rebuilt is not nuc:
            bad += 1
            print(
                f"{sym}: natural isotope {nuc.name} (abundance {nuc.abundance}) is reported as (A={a}, {frac}); "
                f"'{sym}{a}' resolves to {rebuilt.name if rebuilt else None} with abundance "
                f"{rebuilt.abundance if rebuilt else None}  [DEFECT: expected the same nuclide]"
            )
for z, a in ((73, 180), (95, 242)):
    try:
        print(f"getAtomicWeight(z={z}, a={a}) =", nucDir.getAtomicWeight(z=z, a=a))
    except Exception as ee:
        bad += 1
        print(f"getAtomicWeight(z={z}, a={a}): expected a weight, observed {type(ee).__name__}: {str(ee).splitlines()[0]}  [DEFECT]")
sys.exit(1 if bad else 0)
