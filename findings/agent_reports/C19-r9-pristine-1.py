"""Pristine defect: the library material ThU cannot apply its own (only) enrichment modification.

ThU.setDefaultMassFracs gives TH232=1.0, U233=0.0 and enrichedNuclide='U233'; getEnrichment() is defined as
U233/(U233+TH232).  ThU.applyInputParams(U233_wt_frac=x) delegates to Material.adjustMassFrac('U233', x), which
enriches relative to the *uranium* isotopes in the material; U233 is the only one, uranium is not mono-isotopic,
so a ValueError is raised for every x.  Expected: composition U233=x, TH232=1-x (sum 1).  Observed: ValueError.
"""
import sys, os; sys.path.insert(0, os.getcwd())
from armi import configure; configure(permissive=True)
import armi
assert armi.__file__.startswith(os.getcwd())
from armi import materials
m = materials.ThU()
try:
    m.applyInputParams(U233_wt_frac=0.1)
except Exception as e:
    print("expected: ThU with U233 enrichment 0.1 (U233=0.1, TH232=0.9)")
    print("observed:", type(e).__name__, str(e)[:160])
    sys.exit(1)
print("enrichment", m.getEnrichment(), "sum", sum(m.massFrac.values()))
sys.exit(0 if abs(m.getEnrichment() - 0.1) < 1e-9 else 1)
