"""
Pristine defect (C15): a detailed ``cycles`` entry with ``availability factor: 0`` (a decay-only
cycle; accepted by the schema, vol.Range(min=0, max=1)) makes armi.utils._getStepAndCycleLengths
divide the summed step lengths by the availability -> ZeroDivisionError. The same history given
through the simple inputs (availabilityFactor: 0) resolves fine to zero-length steps with the
cycle length as given, so "step lengths sum to availability times cycle length" is satisfiable
there but the detailed form cannot even be resolved.
Run as: cd <armi tree> && /venv/bin/python C15-pristine-2.py   (exit 1 when the defect shows)
"""
import sys, os

sys.path.insert(0, os.getcwd())
from armi import configure

configure(permissive=True)
import armi

assert armi.__file__.startswith(os.getcwd()), armi.__file__
from armi import settings
from armi.utils import getAvailabilityFactors, getCycleLengths, getStepLengths

simple = settings.Settings().modified(
    newSettings={"nCycles": 2, "burnSteps": 2, "cycleLength": 10.0, "availabilityFactors": ["0.0", "1.0"]}
)
print(
    "simple input  :",
    "availability", getAvailabilityFactors(simple),
    "steps", getStepLengths(simple),
    "cycle lengths", getCycleLengths(simple),
)
detailed = settings.Settings().modified(
    newSettings={
        "nCycles": 2,
        "cycles": [
            {"cycle length": 10.0, "burn steps": 2, "availability factor": 0.0},
            {"cycle length": 10.0, "burn steps": 2},
        ],
    }
)
print("expected for the equivalent detailed input: steps [[0.0, 0.0], [5.0, 5.0]] cycle lengths [10.0, 10.0]")
try:
    steps, lengths = getStepLengths(detailed), getCycleLengths(detailed)
except Exception as e:
    print(f"observed: {type(e).__name__}: {e}")
    print("DEFECT")
    sys.exit(1)
print(f"observed: steps {steps} cycle lengths {lengths}")
ok = steps == [[0.0, 0.0], [5.0, 5.0]] and lengths == [10.0, 10.0]
print("OK" if ok else "DEFECT")
sys.exit(0 if ok else 1)
