"""C17 pristine defect 3: type violations are silently coerced instead of rejected, sometimes to the
opposite meaning: bool settings turn the strings 'False'/'no' into True, int settings truncate 2.7 to 2,
list settings explode a string into characters, str-list settings turn None into 'None'."""
import sys, os, io

sys.path.insert(0, os.getcwd())
from armi import configure

configure(permissive=True)
import armi

assert armi.__file__.startswith(os.getcwd()), armi.__file__
from armi import settings

bad = []


def tryAssign(name, val):
    cs = settings.Settings()
    prev = cs[name]
    try:
        cs[name] = val
    except Exception as e:
        print(f"ok: {name}={val!r} rejected with {type(e).__name__}")
        return
    bad.append(f"expected {name}={val!r} to be rejected (previous {prev!r}); observed stored value {cs[name]!r}")


tryAssign("detailedAxialExpansion", "False")
tryAssign("nCycles", 2.7)
tryAssign("copyFilesFrom", "abc")
tryAssign("dumpSnapshot", [None])

# the same through a settings file (YAML 1.2: `no` and "False" are strings)
cs = settings.Settings()
cs.loadFromString('settings:\n  detailedAxialExpansion: no\n  nCycles: 2.7\n')
if cs["detailedAxialExpansion"] is not False or cs["nCycles"] != 1:
    bad.append(
        "file with 'detailedAxialExpansion: no' and 'nCycles: 2.7' read without error as "
        f"detailedAxialExpansion={cs['detailedAxialExpansion']!r}, nCycles={cs['nCycles']!r}"
    )

if bad:
    print("DEFECT")
    for b in bad:
        print("  " + b)
    sys.exit(1)
print("no defect observed")
