"""Pristine defect (C15): with tightCoupling on and tightCouplingMaxNumIters = 0 (no schema forbids
it; "iteration cap reached" after zero iterations) Operator._performTightCoupling raises
UnboundLocalError ('converged') at the first time node, so the run never reaches EOC / EOL.

Run as: cd <armi tree> && /venv/bin/python C15-pristine-2.py ; exit 1 when the defect shows.
"""
import sys, os

sys.path.insert(0, os.getcwd())
from armi import configure

configure(permissive=True)
import contextlib, io
from types import SimpleNamespace
import armi

assert armi.__file__.startswith(os.getcwd())
from armi import interfaces, settings
from armi.operators.operator import Operator

LOG = []


class Phys(interfaces.Interface):
    name = "a"
    function = "fa"

    def interactBOL(self): LOG.append("BOL")
    def interactBOC(self, cycle=None): LOG.append(f"BOC{cycle}")
    def interactEveryNode(self, c, n): LOG.append(f"N{c}.{n}")
    def interactCoupled(self, it): LOG.append(f"C{it}")
    def interactEOC(self, cycle=None): LOG.append(f"EOC{cycle}")
    def interactEOL(self): LOG.append("EOL")
    def getTightCouplingValue(self): return 0.0


class DB(interfaces.Interface):
    name = "database"

    def writeDBEveryNode(self): pass


cs = settings.Settings().modified(newSettings={
    "nCycles": 1, "burnSteps": 1, "power": 1.0, "cycleLength": 10.0, "tightCoupling": True,
    "tightCouplingMaxNumIters": 0,
    "tightCouplingSettings": {"fa": {"parameter": "x", "convergence": 1e-3}},
})
r = SimpleNamespace(
    p=SimpleNamespace(cycle=0, timeNode=0, time=0.0, cycleLength=None, availabilityFactor=None,
                      capacityFactor=None, stepLength=None),
    core=SimpleNamespace(p=SimpleNamespace(coupledIteration=0, power=0.0), getHMMass=lambda: 1.0), o=None)
err = None
with contextlib.redirect_stdout(io.StringIO()):
    o = Operator(cs)
    o.r = r
    o.addInterface(Phys(r, cs))
    o.addInterface(DB(r, cs))
    try:
        o.operate()
    except Exception as e:  # noqa
        err = e
if os.path.isdir("logs") and not os.listdir("logs"):
    os.rmdir("logs")
expected = ["BOL", "BOC0", "N0.0", "N0.1", "EOC0", "EOL"]
print("expected hook sequence:", expected)
print("observed hook sequence:", LOG, "| exception:", repr(err))
bad = LOG != expected
print("DEFECT" if bad else "OK")
sys.exit(1 if bad else 0)
