"""C12 pristine defect 1: the mass of a block's TARGET component is not conserved when the
target is linked to a NON-target component of the block below.

Plenum blocks use the clad as target; the clad sits on the clad of the fuel block below, whose
target is the fuel. When fuel and clad grow by different fractions the plenum clad bottom
(= top of lower clad) differs from the plenum block bottom (= top of fuel), so the new plenum
block height is not growFrac(clad) * old height and the clad (target!) mass changes.
Expected: mass of every block's target component below the dummy block is conserved.
"""
import sys, os

sys.path.insert(0, os.getcwd())
from armi import configure

configure(permissive=True)
import armi

assert armi.__file__.startswith(os.getcwd()), armi.__file__

import numpy as np
from armi.reactor import grids
from armi.reactor.assemblies import HexAssembly
from armi.reactor.blocks import HexBlock
from armi.reactor.components import DerivedShape
from armi.reactor.components.basicShapes import Circle, Hexagon
from armi.reactor.converters.axialExpansionChanger import AxialExpansionChanger
from armi.reactor.flags import Flags

T = 300.0


def pinBlock(blockType, height, mainMat="HT9"):
    b = HexBlock(blockType, height=height)
    for c in [
        Circle(blockType, mainMat, Tinput=25.0, Thot=T, od=0.76, id=0.0, mult=127.0),
        Circle("clad", "HT9", Tinput=25.0, Thot=T, od=0.80, id=0.77, mult=127.0),
        Hexagon("duct", "HT9", Tinput=25.0, Thot=T, op=16.0, ip=15.3, mult=1.0),
        DerivedShape("coolant", "Sodium", Tinput=25.0, Thot=T),
        Hexagon("intercoolant", "Sodium", Tinput=25.0, Thot=T, op=17.0, ip=16.0),
    ]:
        b.add(c)
    b.setType(blockType)
    b.getVolumeFractions()
    return b


def dummyBlock(height):
    b = HexBlock("dummy", height=height)
    b.add(Hexagon("dummy coolant", "Sodium", Tinput=25.0, Thot=T, op=17.0, ip=0.0))
    b.getVolumeFractions()
    b.setType("dummy")
    return b


def build():
    a = HexAssembly("fuel")
    a.spatialGrid = grids.AxialGrid.fromNCells(numCells=1)
    a.spatialGrid.armiObject = a
    for b in (
        pinBlock("shield", 10.0),
        pinBlock("fuel", 12.0, "UZr"),
        pinBlock("fuel", 15.0, "UZr"),
        pinBlock("plenum", 20.0),
        dummyBlock(30.0),
    ):
        a.add(b)
    a.calculateZCoords()
    a.reestablishBlockOrder()
    return a


def targetMasses(a):
    out = {}
    for i, b in enumerate(a[:-1]):
        t = b.getComponentByName(b.p.axialExpTargetComponent)
        out[i, b.getType(), t.name] = t.getMass()
    return out


def report(label, a, m0):
    bad = []
    for key, m in targetMasses(a).items():
        rel = m / m0[key] - 1.0
        if abs(rel) > 1e-9:
            bad.append(f"{label}: block {key[0]} ({key[1]}) target '{key[2]}' mass changed by {rel:+.4e}")
    return bad


def main():
    bad = []
    # (a) prescribed: only the fuel grows by 3 %
    a = build()
    chg = AxialExpansionChanger()
    chg.setAssembly(a)  # designates targets
    m0 = targetMasses(a)
    fuel = [c for b in a for c in b if c.hasFlags(Flags.FUEL)]
    chg.performPrescribedAxialExpansion(a, fuel, [1.03] * len(fuel))
    bad += report("prescribed fuel +3%", a, m0)

    # (b) thermal: uniform 300C -> 500C; UZr fuel and HT9 clad expand differently
    a = build()
    chg = AxialExpansionChanger()
    chg.setAssembly(a)
    m0 = targetMasses(a)
    grid = np.linspace(0.0, a.getTotalHeight(), 60)
    chg.performThermalAxialExpansion(a, grid, np.full(60, 500.0))
    bad += report("uniform 300C->500C", a, m0)

    print("expected: mass of every block's target component below the top dummy block conserved")
    if bad:
        print("observed (DEFECT):")
        for e in bad:
            print("  ", e)
        return 1
    print("observed: conserved")
    return 0


if __name__ == "__main__":
    sys.exit(main())
