"""PMATRX (and every rwBool field): a Fortran LOGICAL .TRUE. stored as -1 (Intel/ifort convention; any
non-zero word is legal) is read as True but written back as 1, so writing what was read does not
reproduce the file byte for byte."""
import sys, os; sys.path.insert(0, os.getcwd())
from armi import configure; configure(permissive=True)
import struct, tempfile
import armi
assert armi.__file__.startswith(os.getcwd()), armi.__file__
from armi.nuclearDataIO.cccc import pmatrx

src = os.path.join(os.path.dirname(armi.__file__), "nuclearDataIO", "tests", "fixtures", "AA.pmatrx")
b = bytearray(open(src, "rb").read())
# walk the sequential records; the first 20-byte record is the first nuclide heading
# (hasNeutronHeatingAndDamage, maxScatteringOrder, hasGammaHeating, numberNeutronXS, region)
pos = 0; patched = None
while pos < len(b):
    (n,) = struct.unpack_from("i", b, pos)
    if n == 20:
        vals = struct.unpack_from("5i", b, pos + 4)
        if vals[0] == 1:
            struct.pack_into("i", b, pos + 4, -1)  # .TRUE. as written by ifort
            patched = pos + 4
            break
    pos += n + 8
assert patched is not None
tmp = tempfile.mkdtemp()
f1 = os.path.join(tmp, "P1"); f2 = os.path.join(tmp, "P2")
open(f1, "wb").write(bytes(b))
lib = pmatrx.readBinary(f1)
pmatrx.writeBinary(lib, f2)
b2 = open(f2, "rb").read()
if bytes(b) != b2:
    n = next(i for i, (x, y) in enumerate(zip(b, b2)) if x != y)
    print("expected: re-written PMATRX identical to the file read")
    print("observed: first difference at byte %d (patched logical at %d): read %r wrote %r" % (
        n, patched, struct.unpack_from("i", b, patched), struct.unpack_from("i", b2, patched)))
    sys.exit(1)
print("no defect observed"); sys.exit(0)
