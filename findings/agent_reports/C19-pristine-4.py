"""Pristine defects in the material library / nuclide data found by an exhaustive sweep.

(a) Potassium() has NO composition at all (massFrac == {}): the class never defines
    setDefaultMassFracs, unlike every other real (non Void/Custom/abstract) material.
    Expected: known nuclides with mass fractions summing to one (e.g. {"K": 1.0}).
(b) HT9.propertyValidTemperature declares a "linear expansion" range (293-1050 K) but
    HT9.linearExpansion() is not implemented (NotImplementedError at every temperature of the range).
(c) nuclides.dat: the natural abundances of calcium sum to 1.00003 (3e-5 off; every other element
    is within 4e-8 of one).
"""
import sys, os

sys.path.insert(0, os.getcwd())
from armi import configure

configure(permissive=True)
import armi

assert armi.__file__.startswith(os.getcwd()), armi.__file__
from armi.materials.potassium import Potassium
from armi.materials.ht9 import HT9
from armi.nucDirectory import elements

defects = []
k = Potassium()
print("(a) Potassium().massFrac = {!r}, density(Tc=500) = {!r}; expected a composition summing to 1".format(k.massFrac, k.density(Tc=500)))
if abs(sum(k.massFrac.values()) - 1.0) > 1e-6:
    defects.append("Potassium has no mass fractions")

h = HT9()
(lo, hi), unit = h.propertyValidTemperature["linear expansion"]
try:
    val = h.linearExpansion(Tk=0.5 * (lo + hi))
    print("(b) HT9.linearExpansion(Tk={}) = {!r}".format(0.5 * (lo + hi), val))
except NotImplementedError as ee:
    print("(b) HT9 states a 'linear expansion' range {}-{} {} but linearExpansion raises NotImplementedError: {}".format(lo, hi, unit, ee))
    defects.append("HT9 linear expansion stated but not implemented")

worst = []
for e in elements.byZ.values():
    nat = e.getNaturalIsotopics()
    if nat:
        worst.append((abs(sum(n.abundance for n in nat) - 1.0), e.symbol, sum(n.abundance for n in nat)))
worst.sort(reverse=True)
print("(c) worst natural-abundance sums: {}".format([(s, "%.8f" % t) for _d, s, t in worst[:3]]))
if worst[0][0] > 1e-6:
    defects.append("{} abundances sum to {:.8f}".format(worst[0][1], worst[0][2]))

if defects:
    print("DEFECT: " + "; ".join(defects))
    sys.exit(1)
print("OK")
sys.exit(0)
