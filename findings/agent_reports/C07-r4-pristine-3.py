"""C07 pristine 3: HexGrid.triangleCoords ignores the corners-up orientation: the six triangle centres must point at the six neighbours (through the flat faces), rotated 30 degrees w.r.t. flats-up."""
import sys, os
sys.path.insert(0, os.getcwd())
from armi import configure
configure(permissive=True)
import armi
assert armi.__file__.startswith(os.getcwd()), armi.__file__
import math
import numpy as np
from armi.reactor import grids
bad = []

for cornersUp in (False, True):
    g = grids.HexGrid.fromPitch(3.0, cornersUp=cornersUp)
    c = g.getCoordinates((1, -2, 0))[:2]
    tri = g.triangleCoords((1, -2, 0))
    for n, nb in enumerate(g.getNeighboringCellIndices(1, -2, 0)):
        toNb = g.getCoordinates(nb)[:2] - c
        toTri = tri[n] - c
        cosang = float(np.dot(toNb, toTri) / np.linalg.norm(toNb) / np.linalg.norm(toTri))
        if abs(cosang - 1.0) > 1e-9:
            bad.append(f"cornersUp={cornersUp}: triangle {n} centre direction {toTri} is {math.degrees(math.acos(max(-1, min(1, cosang)))):.1f} deg off the direction to neighbour {n} {toNb}; expected 0")

if bad:
    print("DEFECT")
    for b in bad[:10]:
        print("  ", b)
    sys.exit(1)
print("no defect observed")
sys.exit(0)

