"""Pristine defect (C03): the cached volume of a component that is linked *through* another linked
dimension is not invalidated when the component at the end of the chain changes temperature.

bond.od -> liner.id -> fuel.od .  fuel.setTemperature() clears the cached volume of the components
that link directly to fuel (liner) but not of bond, whose od resolves to fuel.od through liner.id.
bond.getDimension("od") follows fuel (the link itself is right), but bond.getVolume()/getMass()
keep the value from before the temperature change, so volume != area * height.
The same happens for a solid component at the end of such a chain.
"""
import sys, os

sys.path.insert(0, os.getcwd())
from armi import configure

configure(permissive=True)
import armi

assert armi.__file__.startswith(os.getcwd()), armi.__file__
from armi import runLog

runLog.setVerbosity("error")
from armi.reactor import blocks
from armi.reactor.components import Circle, Hexagon

b = blocks.HexBlock("b", height=10.0)
fuel = Circle("fuel", "UZr", 25.0, 600.0, od=1.0, mult=1)
liner = Circle("liner", "HT9", 25.0, 500.0, od=1.2, id="fuel.od", mult=1)
bond = Circle("bond", "Sodium", 450.0, 450.0, od="liner.id", id=0.0, mult=1)
duct = Hexagon("duct", "HT9", 25.0, 450.0, op=5.0, ip=4.8, mult=1)
for c in (fuel, liner, bond, duct):
    b.add(c)
liner.resolveLinkedDims({"fuel": fuel})
bond.resolveLinkedDims({"fuel": fuel, "liner": liner})

v0 = bond.getVolume()
fuel.setTemperature(900.0)
ok_link = abs(bond.getDimension("od") - fuel.getDimension("od")) < 1e-14
vol, expected = bond.getVolume(), bond.getArea() * b.getHeight()
print("bond.od follows fuel.od through liner.id :", ok_link)
print("bond volume before heating fuel          : {:.10f}".format(v0))
print("bond volume after  (cached)              : {:.10f}".format(vol))
print("bond area*height after (expected volume) : {:.10f}".format(expected))
if abs(vol - expected) > 1e-10:
    print("DEFECT: volume (and mass) of the transitively linked component is stale")
    sys.exit(1)
print("no defect observed")
