"""Pristine defect: Core.add(a) without an explicit locator does not notice that a's old location
has been filled in the meantime. Composite.remove leaves the removed assembly with a *detached*
copy of its locator (grid None); Core.add tests `spatialLocator in self.childrenByLocator` BEFORE
it converts the locator to one of the core grid, and IndexLocation.__eq__ compares the grid, so the
occupancy check never matches. Result: two assemblies in one core location, and the one that was
there drops out of childrenByLocator."""
import sys, os; sys.path.insert(0, os.getcwd())
from armi import configure; configure(permissive=True)
import armi
assert armi.__file__.startswith(os.getcwd()), armi.__file__


def quiet(fn, *a, **k):
    sys.stdout.flush()
    saved = os.dup(1); devnull = os.open(os.devnull, os.O_WRONLY); os.dup2(devnull, 1)
    try:
        return fn(*a, **k)
    finally:
        sys.stdout.flush(); os.dup2(saved, 1); os.close(devnull); os.close(saved)


from armi.testing import loadTestReactor
o, r = quiet(loadTestReactor)
core = r.core
A = core.getAssemblyWithStringLocation("004-002")
L = A.spatialLocator
quiet(core.removeAssembly, A, False)
B = quiet(core.createAssemblyOfType, "feed fuel")
quiet(core.add, B, L)
print("expected: Core.add(A) raises ValueError because 004-002 is already filled by", B.getName())
try:
    quiet(core.add, A)
except ValueError as e:
    print("observed: ValueError:", e)
    print("PASS")
    sys.exit(0)
here = [a.getName() for a in core if a.getLocation() == "004-002"]
print("observed: no error; assemblies at 004-002:", here)
print("          childrenByLocator[004-002] =", core.childrenByLocator[L].getName(),
      "; entries", len(core.childrenByLocator), "children", len(core))
print("FAIL" if len(here) > 1 else "PASS")
sys.exit(1 if len(here) > 1 else 0)
