"""C01 pristine defect 1: Composite.remove(obj) with an obj that is NOT a child of self.

remove() clears obj.parent and detaches obj.spatialLocator BEFORE list.remove() finds out that obj
is not one of its children.  The call raises ValueError, but the object -- which still belongs to
another, unrelated parent -- has been cut off: its real parent keeps listing it, while it has no
parent and a detached location.  (Block.remove goes through the same code.)
"""
import sys, os

sys.path.insert(0, os.getcwd())
import atexit, shutil

if not os.path.isdir("logs"):
    atexit.register(shutil.rmtree, "logs", True)
from armi import configure

configure(permissive=True)
import armi

assert armi.__file__.startswith(os.getcwd()), armi.__file__
import io, contextlib

from armi.reactor import composites, grids


def main():
    owner = composites.Composite("owner")
    owner.spatialGrid = grids.CartesianGrid.fromRectangle(1.0, 1.0)
    owner.spatialGrid.armiObject = owner
    child = composites.Composite("child")
    owner.add(child)
    child.spatialLocator = owner.spatialGrid[1, 2, 0]
    stranger = composites.Composite("stranger")

    raised = None
    try:
        stranger.remove(child)
    except ValueError as e:
        raised = e
    print("stranger.remove(child) raised:", repr(raised))
    print("expected: child untouched -> child in owner, child.parent is owner, locator in owner's grid")
    print(
        "observed: child in owner = {}, child.parent = {}, child.spatialLocator.grid = {}".format(
            child in owner, child.parent, child.spatialLocator.grid
        )
    )
    bad = child in owner and (child.parent is not owner or child.spatialLocator.grid is not owner.spatialGrid)
    if bad:
        print("DEFECT: owner lists a child whose parent is None / whose location is detached")
        return 1
    print("no defect")
    return 0


if __name__ == "__main__":
    sys.exit(main())
