"""C12 pristine defect 1: a block whose designated axial-expansion target is a FLUID component
(``b.setAxialExpTargetComp(coolant)`` / blueprint ``axial expansion target component: coolant``) is
accepted silently. axiallyExpandAssembly only visits solid components, so the block's ztop/height
are never updated while its zbottom follows the block below: p.height != ztop - zbottom, the
assembly's total height (sum of block heights) changes and the fuel in the block above gains mass."""
import sys, os

sys.path.insert(0, os.getcwd())
from armi import configure

configure(permissive=True)
import armi

assert armi.__file__.startswith(os.getcwd()), armi.__file__

from armi.reactor import grids
from armi.reactor.assemblies import HexAssembly
from armi.reactor.blocks import HexBlock
from armi.reactor.components import DerivedShape
from armi.reactor.components.basicShapes import Circle, Hexagon
from armi.reactor.converters.axialExpansionChanger import AxialExpansionChanger
from armi.reactor.converters.axialExpansionChanger.expansionData import (
    iterSolidComponents,
)
from armi.reactor.flags import Flags


def buildBlock(blockType, height=10.0, T=25.0):
    b = HexBlock(blockType, height=height)
    common = {"Tinput": 25.0, "Thot": T}
    main = Circle(blockType, "HT9", od=0.76, id=0.0, mult=127.0, **common)
    clad = Circle("clad", "HT9", od=0.80, id=0.77, mult=127.0, **common)
    duct = Hexagon("duct", "HT9", op=16.0, ip=15.3, mult=1.0, **common)
    cool = DerivedShape("coolant", "Sodium", **common)
    inter = Hexagon("intercoolant", "Sodium", op=17.0, ip=16.0, mult=1.0, **common)
    for c in (main, clad, duct, cool, inter):
        b.add(c)
    b.setType(blockType)
    b.getVolumeFractions()
    return b


def buildDummy(height=10.0, T=25.0):
    b = HexBlock("dummy", height=height)
    b.add(Hexagon("dummy coolant", "Sodium", Tinput=25.0, Thot=T, op=17.0, ip=0.0, mult=1.0))
    b.getVolumeFractions()
    b.setType("dummy")
    return b


def buildAssembly():
    a = HexAssembly("testAssemblyType")
    a.spatialGrid = grids.AxialGrid.fromNCells(numCells=1)
    a.spatialGrid.armiObject = a
    for t in ("shield", "fuel", "fuel", "plenum"):
        a.add(buildBlock(t))
    a.add(buildDummy())
    a.calculateZCoords()
    a.reestablishBlockOrder()
    return a



def main():
    a = buildAssembly()
    fb = a.getBlocks(Flags.FUEL)
    fb[0].setAxialExpTargetComp(fb[0].getComponentByName("coolant"))
    shield = a.getBlocks(Flags.SHIELD)[0]
    comps = list(iterSolidComponents(shield))
    total0 = a.getTotalHeight()
    upperFuel = fb[1].getComponent(Flags.FUEL)
    m0 = upperFuel.getMass()
    AxialExpansionChanger().performPrescribedAxialExpansion(a, comps, [1.05] * len(comps))
    problems = []
    print("expected: total height stays", total0, "; every block has height == ztop - zbottom; "
          "fuel mass of the untouched upper fuel block conserved")
    print("observed: block heights", [round(b.getHeight(), 6) for b in a], "total", a.getTotalHeight())
    if abs(a.getTotalHeight() - total0) > 1e-9:
        problems.append(f"total height {total0} -> {a.getTotalHeight()}")
    for i, b in enumerate(a):
        if abs(b.getHeight() - (b.p.ztop - b.p.zbottom)) > 1e-9:
            problems.append(f"block {i} ({b.getType()}): p.height {b.getHeight()} but ztop-zbottom = {b.p.ztop - b.p.zbottom}")
    if abs(upperFuel.getMass() / m0 - 1.0) > 1e-9:
        problems.append(f"fuel mass of upper fuel block changed by factor {upperFuel.getMass() / m0:.6f}")
    if problems:
        print("DEFECT:")
        for p in problems:
            print("   ", p)
        return 1
    print("no defect observed")
    return 0


if __name__ == "__main__":
    sys.exit(main())
