"""
C06 pristine defect 4: HistoryTrackerInterface.getTimeSteps() is documented to return the times
(in years) available in the history, taken from the history of the reactor parameter "time".
It iterates over the KEYS of the history dictionary ((cycle, node) tuples) and returns t[1],
i.e. the node numbers, not the stored times. (With an assembly argument it additionally calls
DatabaseInterface.getHistory(["id"]) with the wrong arguments and raises.)
"""
import sys, os

sys.path.insert(0, os.getcwd())
from armi import configure

configure(permissive=True)
import armi

assert armi.__file__.startswith(os.getcwd()), armi.__file__
import shutil
import tempfile

from armi import context, operators, runLog, settings
from armi.bookkeeping.historyTracker import HistoryTrackerInterface
from armi.reactor import reactors
from armi.tests import TEST_ROOT


def main():
    start = os.getcwd()
    work = tempfile.mkdtemp(prefix="c06work")
    fast = tempfile.mkdtemp(prefix="c06fast")
    os.chdir(work)
    context._FAST_PATH = fast
    try:
        cs = settings.Settings(
            os.path.join(TEST_ROOT, "smallestTestReactor", "armiRunSmallest.yaml")
        )
        cs = cs.modified(newSettings={"verbosity": "error", "db": True, "nCycles": 2, "burnSteps": 1})
        runLog.setVerbosity("error")
        o = operators.factory(cs)
        r = reactors.loadFromCs(cs)
        o.initializeInterfaces(r)
        dbi = o.getInterface("database")
        ht = o.getInterface("history")
        if ht is None:
            ht = HistoryTrackerInterface(o.r, o.cs)
            ht.o = o
            o.interfaces.insert(0, ht)
        dbi.initDB()
        expected = []
        for c in range(2):
            for n in range(2):
                o.r.p.cycle, o.r.p.timeNode = c, n
                o.r.p.time = 0.5 * c + 0.125 * n + 0.0625
                expected.append(o.r.p.time)
                dbi.interactEveryNode(c, n)
        got = list(ht.getTimeSteps())
        dbi.database.close(True)
    finally:
        os.chdir(start)
        shutil.rmtree(work, ignore_errors=True)
        shutil.rmtree(fast, ignore_errors=True)
    print("expected times in years:", expected)
    print("observed               :", got)
    if got != expected:
        print("DEFECT SHOWN: getTimeSteps returns the node numbers, not the stored times")
        return 1
    print("no defect")
    return 0


if __name__ == "__main__":
    sys.exit(main())
