"""C04 pristine 4: legal states that cannot be written or cannot be loaded back at all."""
import sys, os

sys.path.insert(0, os.getcwd())
from armi import configure

configure(permissive=True)

import shutil
import tempfile

import armi

assert armi.__file__.startswith(os.getcwd()), armi.__file__

from armi import runLog
from armi.bookkeeping.db import Database
from armi.reactor import grids
from armi.testing import loadTestReactor, reduceTestReactorRings
from armi.tests import TEST_ROOT


def build():
    o, r = loadTestReactor(TEST_ROOT)
    runLog.setVerbosity("error")
    reduceTestReactorRings(r, o.cs, 2)
    return o, r


def roundTrip(o, r, tmp, tag="rt"):
    """Returns (loadedReactor, None) or (None, 'what failed')."""
    db = Database(os.path.join(tmp, tag + ".h5"), "w")
    db.open()
    try:
        try:
            db.writeToDB(r)
        except Exception as e:
            return None, "writeToDB raised {}: {}".format(type(e).__name__, str(e)[:150])
        try:
            return db.load(0, 0, cs=o.cs, bp=r.blueprints), None
        except Exception as e:
            return None, "load raised {}: {}".format(type(e).__name__, str(e)[:150])
    finally:
        db.h5db.close()
        db.h5db = None


def report(problems):
    if problems:
        print("DEFECT SHOWN on unchanged armi ({} observations)".format(len(problems)))
        for p in problems:
            print("  ", p)
        return 1
    print("no defect observed")
    return 0


def main():
    problems = []
    tmp = tempfile.mkdtemp(prefix="c04p4")
    try:
        # (a) lower-case cross-section types are allowed (crossSectionGroupManager._ALLOWABLE_XS_TYPE_LIST)
        o, r = build()
        b = r.core[1][1]
        b.p.xsType = "a"
        r2, err = roundTrip(o, r, tmp, "a")
        if err:
            problems.append("block xsType 'a' (xsTypeNum {}): {}".format(b.p.xsTypeNum, err))
        elif r2.core[1][1].p.xsType != "a":
            problems.append("xsType expected 'a', observed {!r}".format(r2.core[1][1].p.xsType))
        b.p.xsType = "A"

        # (b) a string parameter that is None on one object and a string on another
        b.p.axialExpTargetComponent = "fuel"
        r.core[0][1].p.axialExpTargetComponent = None
        r2, err = roundTrip(o, r, tmp, "b")
        if err:
            problems.append("str parameter axialExpTargetComponent with a None entry: " + err)
        else:
            v = r2.core[0][1].p.axialExpTargetComponent
            if v is not None:
                problems.append("axialExpTargetComponent expected None, observed {!r}".format(v))
    finally:
        shutil.rmtree(tmp, ignore_errors=True)
    return report(problems)


if __name__ == "__main__":
    sys.exit(main())
