"""Pristine defect (C03): a dimension linked through a chain of links (x.id -> bond.id -> fuel.od)
follows the fuel dimension, but x's cached volume is not invalidated when the fuel expands, so
x.getVolume()/getMass() keep using the old dimension. Component.clearLinkedCache only resets the
volume of components linked *directly* to the changed component."""
import sys, os

sys.path.insert(0, os.getcwd())
from armi import configure

configure(permissive=True)
import armi

assert armi.__file__.startswith(os.getcwd()), armi.__file__
import math
from armi.reactor import blocks
from armi.reactor.components import Circle

H = 10.0
b = blocks.HexBlock("b", height=H)
fuel = Circle("fuel", "UZr", 25, 25, od=0.8, id=0.0, mult=1)
clad = Circle("clad", "HT9", 25, 25, od=1.1, id=1.0, mult=1)
bond = Circle("bond", "Void", 25, 25, od="clad.id", id="fuel.od", mult=1,
              components={"fuel": fuel, "clad": clad})
# a solid sleeve whose inner surface is declared as "bond.id" (which itself is fuel.od)
sleeve = Circle("sleeve", "HT9", 25, 25, od=0.95, id="bond.id", mult=1, components={"bond": bond})
for c in (fuel, bond, sleeve, clad):
    b.add(c)
v0 = sleeve.getVolume()
fuel.setTemperature(600.0)
dimOK = math.isclose(sleeve.getDimension("id"), fuel.getDimension("od"))
vol, exp = sleeve.getVolume(), sleeve.getArea() * H
print(f"sleeve.id follows fuel.od: {dimOK}")
print(f"expected sleeve volume (area*height) = {exp!r}")
print(f"observed sleeve.getVolume()          = {vol!r} (value cached before heating: {v0!r})")
import shutil; shutil.rmtree(os.path.join(os.getcwd(), "logs"), ignore_errors=True)
if not math.isclose(vol, exp, rel_tol=1e-10):
    print("DEFECT: stale cached volume for a component linked through a chain of links")
    sys.exit(1)
print("ok")
