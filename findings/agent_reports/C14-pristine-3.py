"""Pristine defect: a swap cascade in which an assembly appears twice (only a warning is logged)
ends in swapAssemblies(a, a). With stationary blocks (default: grid plate) _transferStationaryBlocks
removes the same block from the same assembly twice -> ValueError in the middle of the mutation;
the assembly has lost its grid plate block, which still sits in core.blocksByName."""
import sys, os; sys.path.insert(0, os.getcwd())
from armi import configure; configure(permissive=True)
import armi
assert armi.__file__.startswith(os.getcwd()), armi.__file__
from armi import runLog
from armi.testing import loadTestReactor
from armi.physics.fuelCycle import fuelHandlers

o, r = loadTestReactor(customSettings={"trackAssems": True})
runLog.setVerbosity("error")
fh = fuelHandlers.FuelHandler(o)
core = r.core
a1 = core.getAssemblyWithStringLocation("003-002")
a2 = core.getAssemblyWithStringLocation("004-002")
before = [b.getName() for b in a1]
print("expected: cascade [a1, a2, a1] either refused up front or completed; block stacks unchanged:", before)
err = None
try:
    fh.swapCascade([a1, a2, a1])
except Exception as e:
    err = e
stacks = {a.getName(): [b.getName() for b in a] for a in (a1, a2)}
lost = [n for n, b in core.blocksByName.items() if b.parent is None]
print("observed: exception =", repr(err), "; stacks now", stacks, "; blocks in blocksByName without parent:", lost)
ok = err is None and all(len(v) == len(before) for v in stacks.values()) and not lost
sys.exit(0 if ok else 1)
