"""Pristine defects (C03, material side):
(a) Uranium, ZnO and Cu components are created with ZERO number densities: these classes never set
    the instance attribute refDens (Uranium only sets a *class* attribute refDens=19.07, which
    Material.__init__ shadows with self.refDens = 0.0), so pseudoDensity() == 0 and the component
    has no mass to conserve.
(b) Be9.linearExpansionPercent and MgO.linearExpansionPercent return values ~100x-1000x too small
    (Be9 returns alpha[1e-6/K]*1e-4, i.e. the instantaneous coefficient in %/K rather than the
    cumulative percent; MgO returns the dL/L fraction, not percent), so these solids practically do
    not expand."""
import sys, os

sys.path.insert(0, os.getcwd())
from armi import configure

configure(permissive=True)
import armi

assert armi.__file__.startswith(os.getcwd()), armi.__file__
from armi.reactor.components import Circle


class P:
    derivedMustUpdate = False
    def getSymmetryFactor(self): return 1.0
    def getHeight(self): return 1.0
    def clearCache(self): pass
    def __iter__(self): return iter(())


bad = False
for mat, rho in (("Uranium", 19.07), ("ZnO", 5.61), ("Cu", 8.913)):
    c = Circle("c", mat, 25.0, 25.0, od=1.0)
    c.parent = P()
    print(f"{mat}: expected density ~{rho} g/cc, observed sum of number densities {sum(c.p.numberDensities.values())!r}, "
          f"mass {c.getMass()!r}, material.refDens {c.material.refDens!r}")
    if c.getMass() == 0.0:
        bad = True
# literature mean CTE 25->500C: Be ~ 14e-6/K, MgO ~ 12e-6/K  => factor ~ 1.006
for mat, alpha in (("Be9", 14e-6), ("MgO", 12e-6)):
    c = Circle("c", mat, 25.0, 500.0, od=1.0)
    f = c.getThermalExpansionFactor()
    print(f"{mat}: expected expansion factor 25->500C ~ {1 + alpha * 475:.5f}, observed {f:.7f}")
    if f - 1.0 < 0.1 * alpha * 475:
        bad = True
import shutil; shutil.rmtree(os.path.join(os.getcwd(), "logs"), ignore_errors=True)
if bad:
    print("DEFECT")
    sys.exit(1)
print("ok")
