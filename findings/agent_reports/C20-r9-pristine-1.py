"""Pristine defect: admissible lower-case XS type labels do not survive label -> number -> label.

_ALLOWABLE_XS_TYPE_LIST (and getNextAvailableXsTypes) hand out 'a'..'z' once 'A'..'Z' are used, and
two-character labels may contain them, but getXSTypeLabelFromNumber treats every number > ord('Z')
as a 2+2 digit pair.
"""
import sys, os; sys.path.insert(0, os.getcwd())
from armi import configure; configure(permissive=True)
import armi
assert armi.__file__.startswith(os.getcwd()), armi.__file__
from armi import runLog
runLog.setVerbosity("header")
from armi.physics.neutronics.crossSectionGroupManager import (
    getXSTypeNumberFromLabel, getXSTypeLabelFromNumber, _ALLOWABLE_XS_TYPE_LIST,
)
bad = []
labels = list(_ALLOWABLE_XS_TYPE_LIST) + ["Az", "zA", "dd", "aB"]
seen = {}
for lab in labels:
    n = getXSTypeNumberFromLabel(lab)
    if n in seen:
        bad.append("collision: %r and %r -> %d" % (seen[n], lab, n))
    seen[n] = lab
    try:
        back = getXSTypeLabelFromNumber(n)
    except Exception as e:
        back = "raised %s: %s" % (type(e).__name__, e)
    if back != lab:
        bad.append("label %r -> %d -> %r (expected %r back)" % (lab, n, back, lab))
if bad:
    print("DEFECT: %d admissible labels do not round-trip; first few:" % len(bad))
    for b in bad[:8]:
        print("  " + b)
    sys.exit(1)
print("no defect observed")
