"""Pristine defect (C16): the roll-back at the end of a retainState scope aborts half-way when a
kept parameter's old value is a numpy scalar (np.float64, as produced by any numpy arithmetic) and
its new value is a list/tuple with more than one element: ``retainedValue != currentValue`` in
ParameterCollection.restoreBackup then yields an array whose truth value is ambiguous. Objects
visited after the failing one are left un-restored. (Same abort, with AttributeError, when the kept
``flags`` parameter is set to None / a non-Flags value, because Flags.__eq__ assumes a Flags operand.)
"""
import sys, os

sys.path.insert(0, os.getcwd())
from armi import configure

configure(permissive=True)
import armi

assert armi.__file__.startswith(os.getcwd()), armi.__file__
import numpy as np
from armi import runLog
from armi.reactor import blocks, components

runLog.setVerbosity("error")

b = blocks.HexBlock("blk", height=10.0)
fuel = components.Circle(
    "fuel", "UZr", Tinput=25.0, Thot=600.0, od=0.76, id=0.0, mult=127.0
)
b.add(fuel)

b.p.power = np.float64(2.0) * 3.0  # a numpy scalar, the usual result of numpy arithmetic
fuel.p.temperatureInC = 600.0

problems = []
try:
    with b.retainState([b.p.paramDefs["power"]]):
        b.p.power = [1.0, 2.0]  # kept
        fuel.p.temperatureInC = 900.0  # not kept -> must be undone
except Exception as e:
    problems.append("leaving the scope raised {}: {}".format(type(e).__name__, e))

print("after scope: b.p.power =", b.p.power, "(expected [1.0, 2.0])")
print("after scope: fuel.p.temperatureInC =", fuel.p.temperatureInC, "(expected 600.0)")
if fuel.p.temperatureInC != 600.0:
    problems.append(
        "fuel.p.temperatureInC was not restored: {} (expected 600.0)".format(
            fuel.p.temperatureInC
        )
    )
if not (isinstance(b.p.power, list) and b.p.power == [1.0, 2.0]):
    problems.append("kept power is {!r} (expected [1.0, 2.0])".format(b.p.power))

if problems:
    print("DEFECT")
    for p in problems:
        print("  " + p)
    sys.exit(1)
print("OK")
