"""C01 pristine defect 1: Core.getAssembliesInRing in circular-ring mode answers from a cache
(Core.circularRingList) that is built on first use and never invalidated by structural edits.

History: query a ring (builds the cache) -> add assemblies -> query again.
Expected: the ring query returns the assemblies a naive walk of the core's children finds at that
(circular) ring distance.  Observed: assemblies added after the first query are never returned.
"""
import sys, os

sys.path.insert(0, os.getcwd())
from armi import configure

configure(permissive=True)
import armi

assert armi.__file__.startswith(os.getcwd()), armi.__file__
from armi import runLog
from armi.materials import uZr
from armi.reactor import assemblies, blocks, grids
from armi.reactor.components import Hexagon
from armi.tests import getEmptyHexReactor

runLog.setVerbosity("error")


def mkAssem(typ):
    a = assemblies.HexAssembly(typ)
    a.spatialGrid = grids.AxialGrid.fromNCells(1)
    a.spatialGrid.armiObject = a
    b = blocks.HexBlock("b")
    b.setType(typ)
    b.add(Hexagon("fuel", uZr.UZr(), Tinput=600, Thot=600, op=16.0, ip=1, mult=1))
    a.add(b)
    return a


r = getEmptyHexReactor()
core = r.core
core._circularRingMode = True  # what setOptionsFromCs does for circularRingMode: true
core._circularRingPitch = 1.0
core.add(mkAssem("fuel"), core.spatialGrid[0, 0, 0])
core.add(mkAssem("fuel"), core.spatialGrid[1, 0, 0])


def naiveRing(ring):
    """Independent walk using the documented ring definition of buildCircularRingDictionary."""
    ref = core.childrenByLocator[core.spatialGrid[0, 0, 0]].spatialLocator
    factor = core._circularRingPitch / core.spatialGrid.pitch
    out = []
    for a in core.getChildren():
        idx = int(round(a.spatialLocator.distanceTo(ref) * factor, 6)) or 1
        if idx == ring:
            out.append(a)
    return out


bad = []
for ring in (1, 2):
    if core.getAssembliesInRing(ring) != naiveRing(ring):
        bad.append("before the edit, ring {}".format(ring))

# structural edit after the first query
core.add(mkAssem("fuel"), core.spatialGrid[0, 1, 0])  # distance 1 -> circular ring 1
core.add(mkAssem("fuel"), core.spatialGrid[2, 0, 0])  # distance 2 -> circular ring 2

for ring in (1, 2):
    got, exp = core.getAssembliesInRing(ring), naiveRing(ring)
    if got != exp:
        bad.append(
            "after adding two assemblies, ring {}: expected {} observed {}".format(
                ring, [a.getLocation() for a in exp], [a.getLocation() for a in got]
            )
        )

if bad:
    print("DEFECT (pristine): circular ring query disagrees with a walk of the core's children")
    for b in bad:
        print("  " + b)
    sys.exit(1)
print("no defect observed")
