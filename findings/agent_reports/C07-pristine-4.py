"""Pristine defect: global cell base/top of a location nested three deep.

IndexLocation.getGlobalCellBase/Top add the parent's cell *base*/*top* (not the parent's
centre, as getGlobalCoordinates does), so a pin cell inside a block inside an assembly
gets a global extent of (assembly pitch + pin pitch) and is anchored at the corner of the
assembly cell.  A CoordinateLocation in the same block returns its local coordinates as
its "global" base/top.
"""
import sys, os

sys.path.insert(0, os.getcwd())
from armi import configure

configure(permissive=True)
import armi

assert armi.__file__.startswith(os.getcwd()), armi.__file__
import numpy as np
from armi.reactor import grids


class Obj:
    def __init__(self, parent=None):
        self.parent = parent
        self.spatialLocator = None
        self.spatialGrid = None


reactor = Obj()
core = Obj(reactor)
assem = Obj(core)
block = Obj(assem)
coreGrid = grids.CartesianGrid.fromRectangle(1.0, 1.0, armiObject=core)
assemGrid = grids.AxialGrid.fromNCells(5, armiObject=assem)
blockGrid = grids.CartesianGrid.fromRectangle(0.1, 0.1, armiObject=block)
core.spatialLocator = grids.CoordinateLocation(0.0, 0.0, 0.0, None)
assem.spatialLocator = coreGrid[2, 3, 0]
block.spatialLocator = assemGrid[0, 0, 3]
pin = blockGrid[1, 5, 0]
free = grids.CoordinateLocation(0.01, 0.02, 0.3, blockGrid)

fail = False
centre = pin.getGlobalCoordinates()
base, top = pin.getGlobalCellBase(), pin.getGlobalCellTop()
print("pin centre (global):", centre)
print("expected pin cell x/y extent: 0.1 x 0.1 around the centre ->",
      centre[:2] - 0.05, centre[:2] + 0.05)
print("observed base/top:", base[:2], top[:2], "extent", (top - base)[:2])
if not np.allclose((top - base)[:2], (0.1, 0.1)):
    fail = True

print("free point global coordinates:", free.getGlobalCoordinates())
print("free point global cell base  :", free.getGlobalCellBase(), "(expected the same point)")
if not np.allclose(free.getGlobalCoordinates(), free.getGlobalCellBase()):
    fail = True
sys.exit(1 if fail else 0)
