"""Pristine defect (C16): Composite.copyParamsFrom / updateParamsFrom produce parameter copies that
(a) share the serial number of the source object (two live objects with one serialNum) and
(b) alias the source's mutable values (later in-place changes of one show in the other).
"""
import sys, os

sys.path.insert(0, os.getcwd())
from armi import configure

configure(permissive=True)
import armi

assert armi.__file__.startswith(os.getcwd()), armi.__file__
import numpy as np
from armi import runLog
from armi.reactor import blocks

runLog.setVerbosity("error")

src = blocks.HexBlock("src", height=10.0)
src.p.mgFlux = np.array([1.0, 2.0, 3.0])
src.p.power = 5.0

problems = []
for how in ("copyParamsFrom", "updateParamsFrom"):
    dst = blocks.HexBlock("dst", height=10.0)
    snBefore = dst.p.serialNum
    getattr(dst, how)(src)
    print(
        "{}: source serialNum {}, destination serialNum before {} / after {}".format(
            how, src.p.serialNum, snBefore, dst.p.serialNum
        )
    )
    if dst.p.serialNum == src.p.serialNum:
        problems.append(
            "{}: expected distinct serial numbers, both live blocks have serialNum {}".format(
                how, src.p.serialNum
            )
        )
    src.p.mgFlux[0] = 99.0  # later change of the source only
    if dst.p.mgFlux[0] != 1.0:
        problems.append(
            "{}: expected destination mgFlux[0] to stay 1.0 after the source changed, got {}".format(
                how, dst.p.mgFlux[0]
            )
        )
    src.p.mgFlux[0] = 1.0

if problems:
    print("DEFECT")
    for p in problems:
        print("  " + p)
    sys.exit(1)
print("OK")
