"""
PRISTINE defect (C05): FlagSerializer identifies a bit by the INDEX of the flag in
Flag.sortedFields() ("flag_order"), which equals the bit position only when the flag values are the
contiguous powers of two 1,2,4,...  Flag classes may legally carry explicit values with holes
(Flag.extend({"B": 8}) is exercised by the pinned test_flags).  With a hole, and a reader whose
flag order differs (so the remapping branch runs), a stored flag silently changes its meaning
(or unpack raises KeyError).

Run: cd <armi tree> && /venv/bin/python /tmp/seedout4/C05-pristine-3.py   (exit 1 = defect shown)
"""
import sys, os

sys.path.insert(0, os.getcwd())
from armi import configure

configure(permissive=True)
import armi

assert armi.__file__.startswith(os.getcwd())
from armi.utils import Flag
from armi.reactor.composites import FlagSerializer


class Writer(Flag):
    A = 1
    B = 4  # bit 1 is unused
    C = 8


class Reader(Flag):  # same flags, defined in another order
    C = 1
    A = 2
    B = 4


def names(cls, f):
    return sorted(n for n, v in cls.fields().items() if int(f) & v)


data = [Writer.A, Writer.B, Writer.C, Writer.A | Writer.C]
bad = False
for w in data:
    packed, attrs = FlagSerializer._packImpl([w], Writer)
    try:
        rd = FlagSerializer._unpackImpl(packed, FlagSerializer.version, attrs, Reader)[0]
        ok = names(Writer, w) == names(Reader, rd)
        print("wrote", names(Writer, w), "read", names(Reader, rd), "" if ok else "  <-- meaning changed")
    except Exception as ee:
        ok = False
        print("wrote", names(Writer, w), "unpack raised %s: %s" % (type(ee).__name__, ee))
    bad |= not ok
if bad:
    print("DEFECT: flag sets with non-contiguous values do not survive a reordered definition")
    sys.exit(1)
print("no defect")
