"""C16 pristine defect 1: a *linked* dimension that is assigned a number inside a retain-state
scope is not restored: after the scope the parameter holds the NoDefault sentinel (the link is gone
and there is no value), so the component is unusable.

Cause: Component.backUp() strips _DimensionLink values before pickling the parameters (so the
pickle holds NoDefault for them) and Component.restoreBackup() only re-applies the links that are
*still* links at exit time (Component._getLinkedDimsAndValues).
"""
import sys, os

sys.path.insert(0, os.getcwd())
from armi import configure

configure(permissive=True)

import armi

assert armi.__file__.startswith(os.getcwd()), armi.__file__

from armi.reactor import assemblies, blocks, grids
from armi.reactor.components import Circle, DerivedShape, Hexagon


def buildBlock():
    b = blocks.HexBlock("fuel", height=10.0)
    fuel = Circle("fuel", "UZr", Tinput=25.0, Thot=600.0, od=0.76, id=0.0, mult=127.0)
    bond = Circle("bond", "Sodium", Tinput=450.0, Thot=450.0, od="clad.id", id="fuel.od", mult="fuel.mult")
    clad = Circle("clad", "HT9", Tinput=25.0, Thot=470.0, od=1.00, id=0.90, mult="fuel.mult")
    duct = Hexagon("duct", "HT9", Tinput=25.0, Thot=450.0, op=16.0, ip=15.0, mult=1.0)
    coolant = DerivedShape("coolant", "Sodium", Tinput=450.0, Thot=450.0)
    comps = {c.name: c for c in (fuel, bond, clad, duct, coolant)}
    for c in comps.values():
        c.resolveLinkedDims(comps)
        b.add(c)
    return b


b = buildBlock()
bond = b.getComponentByName("bond")
expectedLink = str(bond.p.id)
expectedValue = bond.getDimension("id")
with b.retainState():
    bond.setDimension("id", 0.70)  # plain parameter assignment inside the scope
observed = bond.p.id
print(f"expected after scope: bond.p.id is the link {expectedLink} resolving to {expectedValue}")
print(f"observed after scope: bond.p.id = {observed!r}")
try:
    val = bond.getDimension("id")
    print("observed getDimension('id') =", val)
    bad = val != expectedValue
except Exception as e:
    print("observed getDimension('id') raises", type(e).__name__, e)
    bad = True
if bad:
    print("DEFECT")
    sys.exit(1)
print("OK")
