"""Pristine defect 1 (C16): a linked component dimension that is overwritten with a number inside a
retain-state scope is not restored: after the scope the parameter is the NoDefault sentinel (the link is
lost and getDimension fails). Conversely a link created inside a scope survives the scope.
Cause: Component.backUp/restoreBackup strip *currently* linked dimensions before pickling / restoring and put
the *current* links back afterwards, so the backed-up state never contains the link itself."""
import sys, os
sys.path.insert(0, os.getcwd())
from armi import configure
configure(permissive=True)
import armi
assert armi.__file__.startswith(os.getcwd()), armi.__file__
from armi.testing import loadTestReactor
_o, r = loadTestReactor(inputFileName="smallestTestReactor/armiRunSmallest.yaml")
b = r.core.getFirstBlock()

bond = b.getComponentByName("bond")
clad = b.getComponentByName("clad")
bad = []
linkBefore = bond.p.id
valBefore = bond.getDimension("id")
with b.retainState():
    bond.setDimension("id", 0.5)  # replace the link (fuel.od) with a plain number
after = bond.p.id
print("expected bond.p.id after scope:", repr(linkBefore), "-> getDimension", valBefore)
print("observed bond.p.id after scope:", repr(after))
try:
    print("observed getDimension('id'):", bond.getDimension("id"))
except Exception as e:
    print("observed getDimension('id') raises:", repr(e))
if after is not linkBefore and after != linkBefore:
    bad.append("unlinked-in-scope dimension not restored")

# the converse: make a numeric dimension a link inside the scope
cladIdBefore = clad.p.id
with b.retainState():
    clad.p.id = type(linkBefore)((b.getComponentByName("fuel"), "od"))
print("expected clad.p.id after scope:", repr(cladIdBefore))
print("observed clad.p.id after scope:", repr(clad.p.id))
if clad.p.id != cladIdBefore:
    bad.append("link created in scope leaked out")
print("DEFECT: " + "; ".join(bad) if bad else "no defect")
sys.exit(1 if bad else 0)
