"""Pristine defect (C11): converting a third-core reactor to the uniform mesh
divides the volume-integrated block parameters that are mapped IN (massHmBOL,
molesHmBOL, ... for the neutronics converter; mgFlux, ... for the gamma one)
of the CENTRAL assembly by its symmetry factor a second time.

makeAssemWithUniformMesh maps the parameters of the source assembly (which, in
001-001 of a 1/3 core, already hold the values of the one-third assembly) onto
the new assembly while that is not yet in a core (symmetry factor 1).
_buildAllUniformAssemblies then does core.add(newAssem, loc) -> Assembly.moveTo
-> scaleParamsToNewSymmetryFactor(1 -> 3), which divides them by 3 again. The
assembly total of a volume-integrated quantity is therefore not conserved for
that assembly, while atoms are (number densities are intensive)."""
import sys, os

sys.path.insert(0, os.getcwd())
from armi import configure

configure(permissive=True)
import armi

assert armi.__file__.startswith(os.getcwd()), armi.__file__

from armi import runLog
from armi.reactor.tests.test_reactors import loadTestReactor, reduceTestReactorRings
from armi.reactor.converters import uniformMesh

o, r = loadTestReactor()
runLog.setVerbosity("error")
reduceTestReactorRings(r, o.cs, 3)

center = r.core.getAssemblyWithStringLocation("001-001")
other = r.core.getAssemblyWithStringLocation("002-001")
for a in (center, other):
    for b in a:
        b.p.massHmBOL = 100.0 if b.isFuel() else 0.0

conv = uniformMesh.NeutronicsUniformMeshConverter(cs=o.cs, calcReactionRates=False)
conv.convert(r)
cCenter = conv.convReactor.core.getAssemblyWithStringLocation("001-001")
cOther = conv.convReactor.core.getAssemblyWithStringLocation("002-001")


def total(a):
    return sum(b.p.massHmBOL or 0.0 for b in a)


bad = False
for name, src, new in (("001-001 (symmetry factor 3)", center, cCenter), ("002-001", other, cOther)):
    print(
        f"{name}: total massHmBOL source {total(src):.6f} -> uniform mesh {total(new):.6f}; "
        f"U235 atoms {src.getNumberOfAtoms('U235'):.6e} -> {new.getNumberOfAtoms('U235'):.6e}"
    )
    if abs(total(src) - total(new)) > 1e-6 * total(src):
        bad = True

if bad:
    print("DEFECT: expected the assembly total of the volume-integrated parameter to be conserved "
          "for every assembly; the central assembly lost a factor of its symmetry factor")
    sys.exit(1)
print("no defect observed")
sys.exit(0)
