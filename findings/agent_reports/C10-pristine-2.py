"""C10 pristine defect 2: macroscopic constants of an empty composition (or one whose densities are all
zero) are not zero: computeMacroscopicGroupConstants returns None, and the callers built on it
(computeCaptureEnergyGenerationConstants, MacroscopicCrossSectionCreator.createMacrosFromMicros) raise."""
import sys, os

sys.path.insert(0, os.getcwd())
from armi import configure

configure(permissive=True)
import armi

assert armi.__file__.startswith(os.getcwd()), armi.__file__
import numpy as np
from scipy import sparse
from armi.nucDirectory import nuclideBases
from armi.nuclearDataIO import xsLibraries, xsNuclides, xsCollections
from armi.utils import properties


def mkIso(labels, ng=3, seed=0, fileName="ISOAA"):
    """Synthetic ISOTXS-like (neutron only) library."""
    rng = np.random.RandomState(seed)
    lib = xsLibraries.IsotxsLibrary()
    properties.unlockImmutableProperties(lib)
    lib.neutronEnergyUpperBounds = np.array([1e7, 1e5, 1e2][:ng])
    lib.neutronVelocity = np.array([1e9, 1e7, 1e5][:ng])
    properties.lockImmutableProperties(lib)
    lib.isotxsMetadata["numGroups"] = ng
    lib.isotxsMetadata.fileNames.append(fileName)
    for lab in labels:
        n = xsNuclides.XSNuclide(lib, lab)
        n.isotxsMetadata["nuclideId"] = lab[:-2]
        n.isotxsMetadata["efiss"] = 3.0e-11
        n.isotxsMetadata["ecapt"] = 1.0e-12
        n._base = nuclideBases.byLabel[lab[:-2]]
        m = n.micros
        for k in ["nGamma", "fission", "neutronsPerFission", "nalph", "np", "n2n", "nd", "nt", "chi"]:
            setattr(m, k, rng.rand(ng))
        m.total = rng.rand(ng, 1)
        m.transport = rng.rand(ng, 1) + 1
        for k in ["elasticScatter", "inelasticScatter", "n2nScatter"]:
            setattr(m, k, sparse.csr_matrix(np.tril(rng.rand(ng, ng))))
        lib[lab] = n
    return lib


def mkGam(labels, ngam=2, seed=10):
    """Synthetic GAMISO-like (gamma only) library."""
    rng = np.random.RandomState(seed)
    lib = xsLibraries.IsotxsLibrary()
    properties.unlockImmutableProperties(lib)
    lib.gammaEnergyUpperBounds = np.array([1e7, 1e5, 1e2][:ngam])
    properties.lockImmutableProperties(lib)
    lib.gamisoMetadata["numGroups"] = ngam
    lib.gamisoMetadata.fileNames.append("AA.gamiso")
    for lab in labels:
        n = xsNuclides.XSNuclide(lib, lab)
        n._base = nuclideBases.byLabel[lab[:-2]]
        n.gamisoMetadata["nuclideId"] = lab[:-2]
        n.gammaXS.nGamma = rng.rand(ngam)
        lib[lab] = n
    return lib


lib = mkIso(["U235AA", "FE56AA"])
bad = []
print("expected: zero vector of length 3 for every case below")
for comp in ({}, {"U235": 0.0, "FE56": 0.0}):
    got = xsCollections.computeMacroscopicGroupConstants("fission", comp, lib, "AA", libType="micros")
    print("computeMacroscopicGroupConstants('fission', {}) -> {!r}".format(comp, got))
    if got is None or np.shape(got) != (3,) or np.any(got):
        bad.append("fission " + str(comp))
    for fn in (xsCollections.computeFissionEnergyGenerationConstants, xsCollections.computeCaptureEnergyGenerationConstants):
        try:
            got = fn(comp, lib, "AA")
            print("{}({}) -> {!r}".format(fn.__name__, comp, got))
            if got is None or np.any(got):
                bad.append(fn.__name__)
        except Exception as ee:
            print("{}({}) raised {}: {}".format(fn.__name__, comp, type(ee).__name__, str(ee)[:80]))
            bad.append(fn.__name__)


class Blk:
    def getNuclides(self):
        return ["U235", "FE56"]

    def getMicroSuffix(self):
        return "AA"

    def getNuclideNumberDensities(self, names):
        return [0.0 for _ in names]

    def getNumberDensities(self):
        return {"U235": 0.0, "FE56": 0.0}


try:
    macros = xsCollections.MacroscopicCrossSectionCreator().createMacrosFromMicros(lib, Blk())
    print("createMacrosFromMicros(all-zero block).absorption ->", macros.absorption)
    if macros.absorption is None or np.any(macros.absorption):
        bad.append("createMacros")
except Exception as ee:
    print("createMacrosFromMicros(all-zero block) raised {}: {}".format(type(ee).__name__, str(ee)[:80]))
    bad.append("createMacros")
if bad:
    print("DEFECT: empty / all-zero composition does not give zero macroscopic constants:", bad)
    sys.exit(1)
print("no defect observed")
sys.exit(0)
