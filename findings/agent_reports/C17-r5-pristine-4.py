"""C17 on the UNCHANGED tree: tuple-valued entries come back as lists.

``independentVariables`` is documented as a "List of (independentVarName, value) tuples"; the schema
(Coerce(list)) keeps the tuples, the YAML writer emits them as sequences and the reader returns lists,
so the value read back is not equal to the value written ([("a", 1)] != [["a", 1]]). Same for tuples
nested in dict settings (versions).
"""
import sys, os; sys.path.insert(0, os.getcwd())
import io
from armi import configure; configure(permissive=True)
import armi
assert armi.__file__.startswith(os.getcwd()), armi.__file__
from armi import settings

cs = settings.Settings()
cs["independentVariables"] = [("enrichment", 0.15), ("height", 100)]
held = cs["independentVariables"]
s = io.StringIO()
cs.writeToYamlStream(s)
cs2 = settings.Settings()
cs2.loadFromString(s.getvalue())
got = cs2["independentVariables"]
if got != held:
    print("DEFECT: expected", held, "after write/read, observed", got)
    sys.exit(1)
print("no defect observed")
