"""Pristine defect: Block.insert() does not tell the DerivedShape (coolant) to re-derive its volume.

Block.add/remove clear the caches and re-arm derivedMustUpdate; Block has no insert override, so
Composite.insert just links the child.  The coolant keeps its old volume, the block volume becomes
larger than the lattice cell, and masses/number densities are weighted with a stale coolant volume
until somebody clears the cache.
"""
import sys, os
sys.path.insert(0, os.getcwd())
import atexit, shutil
if not os.path.exists("logs"):
    atexit.register(shutil.rmtree, "logs", ignore_errors=True)
from armi import configure
configure(permissive=True)
import armi
assert armi.__file__.startswith(os.getcwd()), armi.__file__
from armi import runLog
runLog.setVerbosity("error")

from armi.reactor import blocks, components
T = dict(Tinput=400.0, Thot=400.0)
b = blocks.HexBlock("fuel", height=10.0)
for c in (
    components.Circle("fuel", "UZr", od=0.60, id=0.0, mult=61, **T),
    components.Circle("clad", "HT9", od=0.86, id=0.60, mult=61, **T),
    components.Hexagon("duct", "HT9", op=9.0, ip=8.6, mult=1, **T),
    components.DerivedShape("coolant", "Sodium", **T),
):
    b.add(c)
cell = b.getMaxArea() * b.getHeight()
v0, m0 = b.getVolume(), b.getMass("NA")
b.insert(0, components.Circle("rod", "HT9", od=1.0, id=0.0, mult=3, **T))
v1, m1 = b.getVolume(), b.getMass("NA")
b.clearCache()
v2, m2 = b.getVolume(), b.getMass("NA")
print("cell volume", cell)
print("block volume before insert", v0, "; after insert expected", cell, "observed", v1, "; after clearCache", v2)
print("coolant NA mass after insert expected", m2, "observed", m1)
bad = abs(v1 - cell) > 1e-9 * cell or abs(m1 - m2) > 1e-9 * m2
print("DEFECT" if bad else "OK")
sys.exit(1 if bad else 0)
