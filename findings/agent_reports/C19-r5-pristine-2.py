"""Pristine defect: HastelloyN / HT9 / Inconel800 setDefaultMassFracs are not idempotent - re-applying the default
composition (as the material tests do to reset a material) zeroes the balance element (NI resp. FE) and the sum drops to 0.30 / 0.15 / 0.58.

The balance element is computed as 1.0 - sum(self.massFrac.values()), which on a second call still
contains the old balance entry.  Expected: after setDefaultMassFracs() the composition is the default one
(NI = 0.6954, sum = 1) no matter how often it is applied.
"""
import sys, os
sys.path.insert(0, os.getcwd())
from armi import configure
configure(permissive=True)
import armi
assert armi.__file__.startswith(os.getcwd()), armi.__file__
import math

from armi import materials

bad = []
seen = set()
for cls in materials.iterAllMaterialClassesInNamespace(materials):
    if cls in seen:
        continue
    seen.add(cls)
    try:
        m = cls()
    except Exception:
        continue
    if not m.massFrac:
        continue
    first = dict(m.massFrac)
    m.setDefaultMassFracs()
    second = dict(m.massFrac)
    if any(abs(first[k] - second.get(k, 0.0)) > 1e-12 for k in first) or abs(sum(second.values()) - sum(first.values())) > 1e-12:
        bad.append(cls.__name__)
        diff = {k: (first[k], second.get(k)) for k in first if first[k] != second.get(k)}
        print(f"{cls.__name__}: sum after construction {sum(first.values()):.6f}, after re-applying defaults {sum(second.values()):.6f}; changed: {diff}")
print("expected: setDefaultMassFracs() reproduces the default composition (sum 1) for every material")
if bad:
    print("DEFECT observed for:", bad)
    sys.exit(1)
print("no defect")
