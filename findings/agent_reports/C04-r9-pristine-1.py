import sys, os; sys.path.insert(0, os.getcwd())
from armi import configure; configure(permissive=True)
import armi, tempfile, shutil
assert armi.__file__.startswith(os.getcwd())
import numpy as np
from armi import runLog
runLog.setVerbosity("error")
from armi.testing import loadTestReactor, reduceTestReactorRings
from armi.bookkeeping.db.database import Database
from armi.reactor.tests.test_reactors import TEST_ROOT
o, r = loadTestReactor(TEST_ROOT, customSettings={"reloadDBName": "x.h5"})
reduceTestReactorRings(r, o.cs, maxNumRings=2)
# a block whose cross-section type letter is a lower-case letter from 'd' on (ord >= 100)
b = r.core.getFirstBlock()
b.p.xsType = "d"

d = tempfile.mkdtemp()
db = Database(os.path.join(d, "t.h5"), "w"); db.open(); db.writeInputsToDB(o.cs); db.writeToDB(r)
r2 = db.load(0, 0, cs=o.cs, bp=r.blueprints, allowMissing=True); db.close()
shutil.rmtree(d, ignore_errors=True); shutil.rmtree(os.path.join(os.getcwd(), "logs"), ignore_errors=True)
b2 = r2.core.getFirstBlock()
bad = []
if b2.p.xsType != b.p.xsType:
    bad.append("block %s xsType: expected %r (xsTypeNum %s) after load, observed %r (xsTypeNum %s)" % (b.name, b.p.xsType, b.p.xsTypeNum, b2.p.xsType, b2.p.xsTypeNum))

if bad:
    print("DEFECT (pristine): " + "; ".join(bad)); sys.exit(1)
print("no defect observed")
