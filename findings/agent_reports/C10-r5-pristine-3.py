"""C10 pristine defect 3: the set of ISOxx files that is merged depends on the NAME OF THE DIRECTORY.

getISOTXSLibrariesToMerge drops every entry whose *full path* contains "ISOTXS", "BCD" or ".ascii";
mergeXSLibrariesInWorkingDirectory feeds it full paths from glob. If the working/alternate directory name
contains one of these strings (e.g. .../myISOTXSrun/), every ISOAA/ISOAB file is skipped and the merged
library is silently empty instead of holding the union of the nuclides.
"""
import sys, os

sys.path.insert(0, os.getcwd())
from armi import configure

configure(permissive=True)
import armi

assert armi.__file__.startswith(os.getcwd()), armi.__file__
import numpy as np
from armi.nuclearDataIO import xsLibraries, xsNuclides, xsCollections
from armi.nuclearDataIO.cccc import isotxs

import shutil, tempfile

fixtures = os.path.join(os.getcwd(), "armi", "nuclearDataIO", "tests", "fixtures")
counts = {}
tmp = tempfile.mkdtemp()
try:
    for dname in ["plainrun", "myISOTXSrun", "BCDcase"]:
        dd = os.path.join(tmp, dname)
        os.mkdir(dd)
        for f in ["ISOAA", "ISOAB"]:
            shutil.copy(os.path.join(fixtures, f), dd)
        lib = xsLibraries.IsotxsLibrary()
        xsLibraries.mergeXSLibrariesInWorkingDirectory(lib, alternateDirectory=dd)
        counts[dname] = len(lib)
finally:
    shutil.rmtree(tmp, ignore_errors=True)
print("nuclides merged from the same two files, by directory name: {}".format(counts))
print("expected the same count ({}) in every directory".format(counts["plainrun"]))
if len(set(counts.values())) != 1:
    print("DEFECT: merged library content depends on the directory name; files were silently skipped")
    sys.exit(1)
print("no defect")
sys.exit(0)
