"""Pristine defect 4: Assembly.moveTo to an EMPTY core location leaves the old location in
core.childrenByLocator (moveTo only writes the new key; swaps hide this because both keys are
overwritten).  The lookup by location then lists a location that holds nothing and
getAssemblyWithStringLocation(old) returns an assembly that sits elsewhere; a later Core.add to the
vacated location is refused as 'already filled'.
"""
import sys, os; sys.path.insert(0, os.getcwd())
from armi import configure; configure(permissive=True)
import armi
assert armi.__file__.startswith(os.getcwd()), armi.__file__
from armi.testing import loadTestReactor
from armi.tests import TEST_ROOT
from armi.physics.fuelCycle import fuelHandlers

o, r = loadTestReactor(TEST_ROOT)
core = r.core
a = core.getAssemblyWithStringLocation("005-002")
old = a.spatialLocator
empty = None
for i in range(-12, 13):
    for j in range(-12, 13):
        loc = core.spatialGrid[i, j, 0]
        if (loc not in core.childrenByLocator and core.spatialGrid.locatorInDomain(loc, symmetryOverlap=False)
                and core.spatialGrid.getRingPos(loc)[0] == 10):
            empty = loc
            break
    if empty is not None:
        break
a.moveTo(empty)
stale = core.getAssemblyWithStringLocation("005-002")
print("expected: after moving {} from 005-002 to the empty location {}, location 005-002 is empty and childrenByLocator has {} entries".format(a.getName(), a.getLocation(), len(core)))
print("observed: getAssemblyWithStringLocation('005-002') -> {}; len(childrenByLocator) = {}".format(stale, len(core.childrenByLocator)))
fresh = core.createAssemblyOfType("igniter fuel")
raised = None
try:
    core.add(fresh, old)
except Exception as e:
    raised = e
print("observed: adding a fresh assembly to the vacated location raised {!r}".format(raised))
bad = stale is not None or len(core.childrenByLocator) != len([x for x in core if x is not fresh])
print("DEFECT" if bad else "no defect")
sys.exit(1 if bad else 0)
