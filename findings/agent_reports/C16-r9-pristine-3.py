# a dimension that was linked at scope entry, is assigned a number inside the scope and is named in the
# keep-set, does not keep the new value: the link from the backup is written over it
import sys, os; sys.path.insert(0, os.getcwd())
from armi import configure; configure(permissive=True)
from armi.reactor import blocks
from armi.reactor.components import Circle
b = blocks.HexBlock("b")
fuel = Circle("fuel", "UZr", Tinput=25.0, Thot=25.0, od=1.0, id=0.0, mult=1)
clad = Circle("clad", "HT9", Tinput=25.0, Thot=25.0, od=1.2, id="fuel.od", mult=1)
b.add(fuel); b.add(clad)
clad.resolveLinkedDims({"fuel": fuel})
assert clad.dimensionIsLinked("id")
keep = [clad.p.paramDefs["id"]]
with b.retainState(keep):
    clad.setDimension("id", 1.1)
    inside = clad.p.id
print("expected clad.p.id kept at", inside, "; observed", clad.p.id)
sys.exit(0 if clad.p.id == inside else 1)
