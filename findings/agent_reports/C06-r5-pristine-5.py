"""C06 pristine defect 5 (boundary case): a run that aborts at the EOL hook in an interface that
interacts AFTER the database interface leaves a file marked successfulCompletion=True.

At EOL the interfaces flagged reverseAtEOL (the MainInterface of every standard stack) run after
all others, i.e. after DatabaseInterface.interactEOL has written cXXnYYEOL and closed the file with
completedSuccessfully=True. If such an interface then fails, the run has aborted, but the file in
the working directory says the run completed successfully and holds no 'error' state
(interactError's write on the closed database is swallowed).
Run as: cd <armi tree> && python C06-pristine-5.py ; exit 1 when the defect shows.
"""
import sys, os

sys.path.insert(0, os.getcwd())
from armi import configure

configure(permissive=True)
import armi

assert armi.__file__.startswith(os.getcwd()), armi.__file__
import io, tempfile, contextlib
import h5py
from armi import interfaces, runLog
from armi.testing import loadTestReactor, reduceTestReactorRings
from armi.bookkeeping.db.databaseInterface import DatabaseInterface

quiet = io.StringIO()


class First(interfaces.Interface):
    """Like the MainInterface: first in the stack, reverseAtEOL, so last at EOL."""

    name = "first"
    function = "first"

    def interactEOL(self):
        raise RuntimeError("clean-up at EOL failed")


os.chdir(tempfile.mkdtemp(prefix="C06-p5-"))
aborted = None
with contextlib.redirect_stdout(quiet), contextlib.redirect_stderr(quiet):
    o, r = loadTestReactor(
        customSettings={"nCycles": 1, "burnSteps": 1, "startCycle": 0, "startNode": 0,
                        "db": True, "verbosity": "error"}
    )
    reduceTestReactorRings(r, o.cs, 2)
    runLog.setVerbosity("error")
    o.removeAllInterfaces()
    o.addInterface(First(r, o.cs), reverseAtEOL=True)
    o.addInterface(DatabaseInterface(r, o.cs))
    r.p.cycle, r.p.timeNode = 0, 0
    try:
        with o:
            o.operate()
    except RuntimeError as e:
        aborted = str(e)

with h5py.File(o.cs.caseTitle + ".h5", "r") as f:
    groups = sorted(k for k in f.keys() if k.startswith("c"))
    success = bool(f.attrs["successfulCompletion"])
print("run aborted with:", aborted)
print("expected: successfulCompletion False (and an 'error' state)")
print("observed: successfulCompletion", success, "groups", groups)
bad = aborted is not None and success
print("DEFECT: aborted run is marked successful" if bad else "OK")
sys.exit(1 if bad else 0)
