"""C07 pristine 2: a grid mixing step-defined (i, j) and bounds-defined (k) axes cannot be rebuilt from reduce(): the recreated unitSteps tuple is ragged."""
import sys, os
sys.path.insert(0, os.getcwd())
from armi import configure
configure(permissive=True)
import armi
assert armi.__file__.startswith(os.getcwd()), armi.__file__
import math
import numpy as np
from armi.reactor import grids
bad = []

s = 1.0 / math.sqrt(3)
for cls, steps in ((grids.HexGrid, ((1.5 * s, 0.0), (0.5, 1.0))), (grids.CartesianGrid, ((1.0, 0.0), (0.0, 2.0)))):
    g = cls(unitSteps=steps, bounds=(None, None, [0.0, 10.0, 25.0]), unitStepLimits=((-2, 2), (-2, 2), (0, 1)))
    ref = g.getCoordinates((1, 1, 1))
    params = g.reduce()
    try:
        g2 = cls(*params)
        got = g2.getCoordinates((1, 1, 1))
        if not np.allclose(got, ref):
            bad.append(f"{cls.__name__}: rebuilt grid gives {got}, original {ref}")
    except Exception as e:
        bad.append(f"{cls.__name__}: original works (cell (1,1,1) at {ref}); expected type(g)(*g.reduce()) to rebuild it, observed {e!r} from unitSteps={params.unitSteps}")

if bad:
    print("DEFECT")
    for b in bad[:10]:
        print("  ", b)
    sys.exit(1)
print("no defect observed")
sys.exit(0)

