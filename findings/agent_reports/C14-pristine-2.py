"""Pristine defect: Core.add checks 'location already filled' with the locator BEFORE converting it
to a core-grid locator. A removed assembly carries a detached copy of its old locator (grid=None),
IndexLocation.__eq__ compares grids, so the check is bypassed and the assembly is put on top of the
assembly that meanwhile occupies the position: two assemblies in one location, the first one silently
dropped from childrenByLocator."""
import sys, os; sys.path.insert(0, os.getcwd())
from armi import configure; configure(permissive=True)
import armi
assert armi.__file__.startswith(os.getcwd()), armi.__file__
from armi import runLog
from armi.testing import loadTestReactor
from armi.physics.fuelCycle import fuelHandlers

o, r = loadTestReactor(customSettings={"trackAssems": True, "stationaryBlockFlags": []})
runLog.setVerbosity("error")
core = r.core
A = core.getAssemblyWithStringLocation("003-002")
core.removeAssembly(A, discharge=False)          # remove A
fresh = core.createAssemblyOfType(A.getType())
core.add(fresh, core.spatialGrid.getLocatorFromRingAndPos(3, 2))   # charge a fresh one there
print("expected: re-adding A (which still remembers 003-002) raises ValueError 'already filled'")
try:
    core.add(A)
except ValueError as e:
    print("observed: ValueError", e)
    sys.exit(0)
here = [a.getName() for a in core if a.getLocation() == "003-002"]
print("observed: accepted; assemblies at 003-002:", here,
      "; lookup by location ->", core.getAssemblyWithStringLocation("003-002").getName(),
      "; len(childrenByLocator) =", len(core.childrenByLocator), "for", len(core), "assemblies")
sys.exit(1)
