"""C06 pristine defect 3: HistoryTrackerInterface.getTimeSteps does not return times.

It asks the database interface for the history of the reactor parameter 'time' (a dict keyed by
(cycle, node) holding years) and then does `[t[1] for t in timeInYears]`, i.e. iterates the KEYS
and keeps the node number of each step instead of the time value. With an assembly argument it
calls dbi.getHistory(["id"]) (a list where the object is expected) and raises TypeError.
Run as: cd <armi tree> && python C06-pristine-3.py ; exit 1 when the defect shows.
"""
import sys, os

sys.path.insert(0, os.getcwd())
from armi import configure

configure(permissive=True)
import armi

assert armi.__file__.startswith(os.getcwd()), armi.__file__
import io, tempfile, contextlib
from armi import runLog
from armi.reactor.flags import Flags
from armi.testing import loadTestReactor, reduceTestReactorRings
from armi.bookkeeping.db.databaseInterface import DatabaseInterface
from armi.bookkeeping.historyTracker import HistoryTrackerInterface

quiet = io.StringIO()
os.chdir(tempfile.mkdtemp(prefix="C06-p3-"))
steps = [(0, 0), (0, 1), (0, 2), (1, 0)]
years = {s: 0.25 + 0.5 * i for i, s in enumerate(steps)}
with contextlib.redirect_stdout(quiet), contextlib.redirect_stderr(quiet):
    o, r = loadTestReactor(customSettings={"db": True, "verbosity": "error"})
    reduceTestReactorRings(r, o.cs, 2)
    runLog.setVerbosity("error")
    o.removeAllInterfaces()
    dbi = DatabaseInterface(r, o.cs)
    ht = HistoryTrackerInterface(r, o.cs)
    o.addInterface(dbi)
    o.addInterface(ht)
    dbi.initDB()
    for s in steps:
        r.p.cycle, r.p.timeNode = s
        r.p.time = years[s]
        dbi.database.writeToDB(r)
    r.p.cycle, r.p.timeNode = 1, 1
    r.p.time = 9.0
    got = ht.getTimeSteps()
    try:
        gotA = ht.getTimeSteps(r.core.getFirstAssembly(Flags.FUEL))
    except Exception as e:
        gotA = "{}: {}".format(type(e).__name__, e)
    dbi.closeDB()

want = [years[s] for s in steps] + [9.0]
print("expected times in years:", want)
print("getTimeSteps()         :", got)
print("getTimeSteps(assembly) :", gotA)
bad = list(got) != want
print("DEFECT: node numbers are returned instead of the times" if bad else "OK")
sys.exit(1 if bad else 0)
