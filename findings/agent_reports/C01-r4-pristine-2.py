"""C01 pristine defect 2: HexBlock.createHomogenizedCopy does not give the copy its own grid.

Expected (C01): a copy shares no node with the original and is internally re-linked: the copy's
grid is owned by the copy (grid.armiObject is the copy) and the copy's children sit on that grid.
Observed: copy.spatialGrid IS the original's grid object (owner: the original block), and with
pinSpatialLocators=True the pin locator of the copy is a MultiIndexLocation whose own grid is None
while its cells are attached to the ORIGINAL block's grid.
"""
import sys, os

sys.path.insert(0, os.getcwd())
from armi import configure

configure(permissive=True)
import armi

assert armi.__file__.startswith(os.getcwd()), armi.__file__
from armi import runLog
from armi.reactor import blocks, grids
from armi.reactor.components import Circle, Helix, Hexagon

runLog.setVerbosity("error")

hot = {"Tinput": 25.0, "Thot": 400.0}
b = blocks.HexBlock("b")
b.setType("fuel")
b.add(Circle("fuel", "UZr", od=0.6, mult=7, **hot))
b.add(Circle("clad", "HT9", id=0.6, od=0.8, mult=7, **hot))
b.add(Helix("wire", "HT9", od=0.1, id=0.0, axialPitch=30.0, helixDiameter=0.9, mult=7, **hot))
b.add(Hexagon("duct", "HT9", ip=15.0, op=16.0, mult=1, **hot))
b.autoCreateSpatialGrids()
assert b.spatialGrid is not None and b.spatialGrid.armiObject is b

h = b.createHomogenizedCopy(pinSpatialLocators=True)
bad = []
if h.spatialGrid is b.spatialGrid:
    bad.append("copy.spatialGrid is the very grid object of the original block")
if h.spatialGrid is not None and h.spatialGrid.armiObject is not h:
    bad.append("copy.spatialGrid.armiObject is {!r}, expected the copy {!r}".format(h.spatialGrid.armiObject, h))
for c in h:
    loc = c.spatialLocator
    if isinstance(loc, grids.MultiIndexLocation):
        cellsOnOriginal = sum(1 for cell in loc if cell.grid is b.spatialGrid)
        bad.append(
            "child {!r} of the copy: locator grid is {}, {} of its {} cells are attached to the "
            "original block's grid".format(c, "None" if loc.grid is None else "set", cellsOnOriginal, len(loc))
        )
if bad:
    print("DEFECT (pristine): homogenized copy is not re-linked / shares its grid with the original")
    for p in bad:
        print("  " + p)
    sys.exit(1)
print("no defect observed")
