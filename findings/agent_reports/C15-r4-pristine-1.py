"""Pristine defect (C15): detailed `cycles` entries with `burn steps: 0` (schema: Range(min=0)) or
`availability factor: 0` (schema: Range(min=0, max=1)) make every cycle-arithmetic helper raise
ZeroDivisionError, so such a history can neither be numbered nor run.

Run as: cd <armi tree> && /venv/bin/python C15-pristine-1.py ; exit 1 when the defect shows.
"""
import sys, os

sys.path.insert(0, os.getcwd())
from armi import configure

configure(permissive=True)
import armi

assert armi.__file__.startswith(os.getcwd())
from armi import settings
from armi.utils import getCycleLengths, getNodesPerCycle, getStepLengths

bad = 0
cases = {
    "zero burn steps in a detailed cycle": (
        [{"cycle length": 10, "burn steps": 0}, {"cycle length": 10, "burn steps": 2}],
        dict(steps=[[], [5.0, 5.0]], lengths=[10.0, 10.0], nodes=[1, 3]),
    ),
    "zero availability (decay-only) detailed cycle": (
        [
            {"cycle length": 10, "burn steps": 2, "availability factor": 0.0},
            {"cycle length": 10, "burn steps": 2},
        ],
        dict(steps=[[0.0, 0.0], [5.0, 5.0]], lengths=[10.0, 10.0], nodes=[3, 3]),
    ),
}
for label, (cycles, exp) in cases.items():
    cs = settings.Settings().modified(newSettings={"nCycles": 2, "power": 1.0, "cycles": cycles})
    print(label)
    print("  expected: stepLengths", exp["steps"], "cycleLengths", exp["lengths"], "nodesPerCycle", exp["nodes"])
    try:
        obs = (getStepLengths(cs), getCycleLengths(cs), getNodesPerCycle(cs))
        print("  observed:", obs)
        if obs != (exp["steps"], exp["lengths"], exp["nodes"]):
            bad += 1
    except Exception as e:
        print("  observed:", type(e).__name__, e)
        bad += 1
print("DEFECT" if bad else "OK")
sys.exit(1 if bad else 0)
