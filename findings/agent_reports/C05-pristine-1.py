"""C05 pristine defect 1: one object without a value (and without a default) makes
Database._writeParams silently drop the parameter for ALL objects; the values that were set on
the other objects are not rejected at write time and are gone on reading."""
import sys, os

sys.path.insert(0, os.getcwd())
hadLogs = os.path.exists(os.path.join(os.getcwd(), "logs"))
from armi import configure

configure(permissive=True)
import armi

assert armi.__file__.startswith(os.getcwd()), armi.__file__

import atexit
import shutil
import tempfile

if not hadLogs:
    atexit.register(shutil.rmtree, os.path.join(os.getcwd(), "logs"), True)

import h5py

from armi.bookkeeping.db.database import Database
from armi.reactor import parameters


class ThingParams(parameters.ParameterCollection):
    pDefs = parameters.ParameterDefinitionCollection()
    with pDefs.createBuilder(location="N/A", saveToDB=True) as pb:
        pb.defParam("noDefault", units="", description="a parameter without a default")


class Thing:
    pDefs = ThingParams.pDefs

    def __init__(self):
        self.p = ThingParams()


values = [1.5, "UNSET", 3.5]  # the middle object never gets a value
comps = [Thing() for _ in values]
for c, v in zip(comps, values):
    if v != "UNSET":
        c.p.noDefault = v

d = tempfile.mkdtemp()
try:
    fn = os.path.join(d, "t.h5")
    db = Database(fn, "w")
    with h5py.File(fn, "w") as f:
        db._writeParams(f.create_group("c00n00"), comps)  # accepted: no error
    comps2 = [Thing() for _ in values]
    with h5py.File(fn, "r") as f:
        stored = list(f["c00n00/Thing"].keys())
        Database._readParams(f["c00n00"], "Thing", comps2)
finally:
    shutil.rmtree(d, ignore_errors=True)

got = [c.p.get("noDefault", "UNSET") for c in comps2]
print("expected:", values, "(or an error at write time)")
print("observed:", got, "; datasets stored for Thing:", stored)
if got != values:
    print("DEFECT: values set on two objects were silently discarded because a third had none")
    sys.exit(1)
print("no defect")
sys.exit(0)
