"""C05 pristine defect 2: per-object values that are ragged nested lists are accepted by
Database._writeParams (JaggedArray fallback path) but cannot be read back: the fallback records
each shape as a bare int (``shapes.append(len(flattenedList),)`` - the comma is inside the call),
so JaggedArray.unpack fails with TypeError at READ time instead of the data being rejected at
write time (or returned flattened as documented)."""
import sys, os

sys.path.insert(0, os.getcwd())
hadLogs = os.path.exists(os.path.join(os.getcwd(), "logs"))
from armi import configure

configure(permissive=True)
import armi

assert armi.__file__.startswith(os.getcwd()), armi.__file__

import atexit
import shutil
import tempfile

if not hadLogs:
    atexit.register(shutil.rmtree, os.path.join(os.getcwd(), "logs"), True)

import h5py

from armi.bookkeeping.db.database import Database
from armi.reactor import parameters


class ThingParams(parameters.ParameterCollection):
    pDefs = parameters.ParameterDefinitionCollection()
    with pDefs.createBuilder(location="N/A", saveToDB=True) as pb:
        pb.defParam("val", units="", description="some value", default=None)


class Thing:
    pDefs = ThingParams.pDefs

    def __init__(self):
        self.p = ThingParams()


values = [[[1, 2], [3]], [[4, 5], [6], [7]]]
comps = [Thing() for _ in values]
for c, v in zip(comps, values):
    c.p.val = v

d = tempfile.mkdtemp()
rc = 0
try:
    fn = os.path.join(d, "t.h5")
    db = Database(fn, "w")
    try:
        with h5py.File(fn, "w") as f:
            db._writeParams(f.create_group("c00n00"), comps)
    except Exception as ee:
        print("rejected at write time ({}): fine".format(type(ee).__name__))
        sys.exit(0)
    print("write accepted", values)
    comps2 = [Thing() for _ in values]
    try:
        with h5py.File(fn, "r") as f:
            print("stored shapes attr:", f["c00n00/Thing/val"].attrs["shapes"])
            Database._readParams(f["c00n00"], "Thing", comps2)
        print("read back:", [c.p.val for c in comps2])
        print("expected (documented normalisation): [array([1,2,3]), array([4,5,6,7])]")
    except Exception as ee:
        print("expected: flattened arrays [1 2 3] and [4 5 6 7] (documented), or an error at WRITE time")
        print("observed: DEFECT, error at READ time: {}: {}".format(type(ee).__name__, ee))
        rc = 1
finally:
    shutil.rmtree(d, ignore_errors=True)
sys.exit(rc)
