import sys, os; sys.path.insert(0, os.getcwd())
from armi import configure; configure(permissive=True)
import armi
assert armi.__file__.startswith(os.getcwd())
import voluptuous as vol
from armi import settings
from armi.settings.setting import Setting

# an ad-hoc setting (not known to the app) with its own schema, added through modified()
extra = Setting("demoFraction", default=0.5, description="a fraction",
                schema=vol.All(vol.Coerce(float), vol.Range(min=0, max=1)))
cs = settings.Settings().modified(newSettings={"demoFraction": extra})
bad = []
try:
    cs["demoFraction"] = 7.0
    bad.append("first copy accepted 7.0 (schema says 0..1)")
except vol.Invalid:
    pass
cs2 = cs.duplicate()   # deepcopy -> Setting.__getstate__ drops the schema, __setstate__ re-derives it from the default
try:
    cs2["demoFraction"] = 7.0
    bad.append("expected: 7.0 rejected by the Range(0..1) schema and value stays 0.5; observed after duplicate(): accepted, value=%r" % cs2["demoFraction"])
except vol.Invalid:
    pass
if bad:
    print("DEFECT"); [print(" -", b) for b in bad]; sys.exit(1)
print("no defect"); sys.exit(0)
