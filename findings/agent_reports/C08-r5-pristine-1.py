"""C08 pristine defect: CartesianBlock.getSymmetryFactor classifies cells of a FULL core as cut.

A full-core Cartesian core with an odd x odd layout carries the symmetry "full through center"
(gridBlueprint.construct sets throughCenterAssembly for it, and GridBlueprint.expandToFull keeps
the flag when it unfolds a quarter core).  A full core has no symmetry lines, so every cell is
entirely inside the modelled domain and the symmetry factor of every block must be 1.  The block
only looks at isThroughCenterAssembly, not at the domain: the centre block reports 4 and every
block in row 0 / column 0 reports 2, so their volumes and masses are quartered / halved.
"""
import sys, os

sys.path.insert(0, os.getcwd())
from armi import configure

configure(permissive=True)
import armi

assert armi.__file__.startswith(os.getcwd()), armi.__file__

from armi.reactor import blocks, components, geometry, grids, reactors
from armi.reactor.assemblies import CartesianAssembly
from armi.reactor.blueprints.gridBlueprint import GridBlueprint
from armi.settings import Settings

# what a 3x3 full-core blueprint grid turns into
gb = GridBlueprint(
    name="core",
    geom="cartesian",
    symmetry="full",
    gridContents={(i, j): "A" for i in (-1, 0, 1) for j in (-1, 0, 1)},
)
bpGrid = gb.construct()
print("symmetry of a 3x3 full-core Cartesian blueprint grid:", repr(str(bpGrid.symmetry)))

from armi.reactor.cores import Core

r = reactors.Reactor("demo", None)
core = Core("core")
r.add(core)
core.spatialGrid = grids.CartesianGrid.fromRectangle(
    10.0, 10.0, numRings=3, symmetry=str(bpGrid.symmetry), armiObject=core
)
core.spatialGrid.geomType = geometry.CARTESIAN

bad = []
n = 0
for i in (-1, 0, 1):
    for j in (-1, 0, 1):
        n += 1
        a = CartesianAssembly("fuel", assemNum=n)
        a.spatialGrid = grids.AxialGrid.fromNCells(1)
        a.spatialGrid.armiObject = a
        b = blocks.CartesianBlock("fuel", height=10.0)
        b.add(
            components.Rectangle(
                "box", "HT9", Tinput=25.0, Thot=25.0, lengthOuter=10.0, widthOuter=10.0, mult=1.0
            )
        )
        a.add(b)
        core.add(a, core.spatialGrid[i, j, 0])
        sf = b.getSymmetryFactor()
        if sf != 1.0:
            bad.append(((i, j), sf, b.getVolume()))

print("domain:", core.symmetry.domain, " equivalents of (0,1):", core.spatialGrid.getSymmetricEquivalents((0, 1)))
if bad:
    print("DEFECT: in a full core every block must have symmetry factor 1 (full volume 1000 cm3), observed:")
    for idx, sf, vol in bad:
        print(f"   cell {idx}: symmetry factor {sf}, block volume {vol:.1f}")
    sys.exit(1)
print("no defect observed")
