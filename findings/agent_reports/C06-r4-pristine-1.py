"""
C06 pristine defect 1 (round 4): the location-based history query cannot return the
"location" parameter for any reactor that contains a pin lattice.

Database.getHistoriesByLocation handles paramName == "location" with
``np.array(layout.location)[objectIndicesInLayout]``.  layout.location holds one entry per
object of the whole snapshot; for components with a MultiIndexLocation (pins on a block grid)
the entry is a LIST of (i, j, k) tuples, so the list is ragged and numpy raises
"setting an array element with a sequence ... inhomogeneous shape" - although the objects asked
for (assemblies) have plain index locations.  The identity-based query (getHistory) answers
the same question fine.  Expected: {(0,0): (0,0,0), (0,1): (0,0,0)} for the assembly.
"""
import sys, os

sys.path.insert(0, os.getcwd())
from armi import configure

configure(permissive=True)
import armi

assert armi.__file__.startswith(os.getcwd()), armi.__file__
import shutil
import tempfile

from armi import context, runLog, settings
from armi.bookkeeping.db.database import Database
from armi.reactor import reactors
from armi.tests import TEST_ROOT


def main():
    runLog.setVerbosity("error")
    cs = settings.Settings(
        os.path.join(TEST_ROOT, "smallestTestReactor", "armiRunSmallest.yaml")
    )
    cs = cs.modified(newSettings={"verbosity": "error"})
    r = reactors.loadFromCs(cs)
    start = os.getcwd()
    oldFast = context._FAST_PATH
    work = tempfile.mkdtemp(prefix="c06work")
    os.chdir(work)
    context._FAST_PATH = work
    defect = False
    try:
        db = Database("c06p1.h5", "w")
        db.open()
        db.writeInputsToDB(cs)
        a = r.core[0]
        db.writeToDB(r)
        r.p.timeNode = 1
        db.writeToDB(r)
        byId = dict(db.getHistory(a, ["location"], [(0, 0), (0, 1)])["location"])
        print("identity-based history of 'location':", byId)
        print("expected location-based history     :", byId)
        try:
            byLoc = dict(
                db.getHistoryByLocation(a, ["location"], [(0, 0), (0, 1)])["location"]
            )
            print("observed location-based history     :", byLoc)
            defect = {k: tuple(v) for k, v in byLoc.items()} != byId
        except Exception as ee:
            print("observed: exception {}: {}".format(type(ee).__name__, str(ee)[:160]))
            defect = True
        db.close(True)
    finally:
        os.chdir(start)
        context._FAST_PATH = oldFast
        shutil.rmtree(work, ignore_errors=True)
    if defect:
        print("DEFECT SHOWN: location-based history of 'location' fails when the reactor has pin lattices")
        return 1
    print("no defect")
    return 0


if __name__ == "__main__":
    sys.exit(main())
