"""C07 pristine 6: index domain of bounds-defined axes is inconsistent: n+1 bounds give n cells, but the grid pre-builds n+1 locators (the last has no coordinates), getCellTop accepts cell -1, and AxialGrid.pitch returns None."""
import sys, os
sys.path.insert(0, os.getcwd())
from armi import configure
configure(permissive=True)
import armi
assert armi.__file__.startswith(os.getcwd()), armi.__file__
import math
import numpy as np
from armi.reactor import grids
bad = []

a = grids.AxialGrid.fromNCells(3)
if len(a) != 3:
    bad.append(f"AxialGrid.fromNCells(3): expected 3 locators, observed len(grid)={len(a)}, indices {[k for (_i, _j, k) in a.getAllIndices()]}")
for (i, j, k), loc in a.items():
    try:
        loc.getLocalCoordinates()
    except Exception as e:
        bad.append(f"pre-built locator {(i, j, k)} has no coordinates: {e!r}")
try:
    t = a.getCellTop((0, 0, -1))
    bad.append(f"getCellTop((0,0,-1)) expected IndexError (negative bounds index), observed {t}")
except IndexError:
    pass
if a.pitch is None:
    bad.append("AxialGrid.pitch expected a float (1.0 for unit cells), observed None")

if bad:
    print("DEFECT")
    for b in bad[:10]:
        print("  ", b)
    sys.exit(1)
print("no defect observed")
sys.exit(0)

