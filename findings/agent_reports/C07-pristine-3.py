"""Pristine defect: HexGrid.changePitch does more than rescale the in-plane coordinates.

(a) On a 3-D hex grid with a uniform axial unit step the z step is overwritten with 0,
    so every cell collapses to z = 0.
(b) On a hex grid whose z direction is bounds-defined (2x2 unit steps) it installs a
    2x3 step matrix and every later coordinate lookup raises.
"""
import sys, os, math

sys.path.insert(0, os.getcwd())
from armi import configure

configure(permissive=True)
import armi

assert armi.__file__.startswith(os.getcwd()), armi.__file__
import numpy as np
from armi.reactor import grids

s = 1.0 / math.sqrt(3)
fail = False

g = grids.HexGrid(
    unitSteps=((1.5 * s, 0.0, 0.0), (0.5, 1.0, 0.0), (0.0, 0.0, 3.0)),
    unitStepLimits=((-2, 2), (-2, 2), (0, 4)),
)
before = g.getCoordinates((1, 1, 2))
g.changePitch(2.0)
after = g.getCoordinates((1, 1, 2))
print("(a) expected after changePitch(2.0): x,y doubled, z unchanged:", before * (2, 2, 1))
print("(a) observed:", after)
if not np.allclose(after, before * (2, 2, 1)):
    fail = True

g = grids.HexGrid(unitSteps=((1.5 * s, 0.0), (0.5, 1.0)), bounds=(None, None, [0.0, 1.0, 2.0]))
before = g.getCoordinates((1, 1, 1))
g.changePitch(2.0)
print("(b) expected after changePitch(2.0):", before * (2, 2, 1))
try:
    after = g.getCoordinates((1, 1, 1))
    print("(b) observed:", after)
    if not np.allclose(after, before * (2, 2, 1)):
        fail = True
except Exception as e:
    print("(b) observed: getCoordinates raises", repr(e))
    fail = True
sys.exit(1 if fail else 0)
