"""Pristine defect: admissible lower-case XS type labels do not survive label -> number -> label.

_ALLOWABLE_XS_TYPE_LIST (and getNextAvailableXsTypes) hand out 'a'..'z' once 'A'..'Z' are used up,
but getXSTypeLabelFromNumber treats every number > ord('Z') as a packed two-character label:
  'a' -> 97  -> int('') ValueError ; 'd' -> 100 -> '\n\x00' ; 'z' -> 122 -> '\x0c\x02'
Two-character labels containing 'd'..'z' (ord >= 100, three digits) break the same way ('dd' -> 100100 -> '\nd').
"""
import sys, os

sys.path.insert(0, os.getcwd())
from armi import configure

configure(permissive=True)
import armi

assert armi.__file__.startswith(os.getcwd()), armi.__file__
import io, contextlib
from armi.physics.neutronics import crossSectionGroupManager as m

bad = []
seen = {}
labels = list(m._ALLOWABLE_XS_TYPE_LIST) + ["AA", "Az", "dd", "zA"]
buf = io.StringIO()
for lab in labels:
    num = m.getXSTypeNumberFromLabel(lab)
    if num in seen:
        bad.append("collision: {!r} and {!r} -> {}".format(seen[num], lab, num))
    seen[num] = lab
    try:
        with contextlib.redirect_stdout(buf), contextlib.redirect_stderr(buf):
            back = m.getXSTypeLabelFromNumber(num)
    except Exception as e:  # noqa
        back = "raised {}: {}".format(type(e).__name__, e)
    if back != lab:
        bad.append("{!r} -> {} -> {!r}".format(lab, num, back))

print("expected: every admissible label converts to a number and back to itself")
if bad:
    print("observed: {} of {} labels do not round-trip, e.g.".format(len(bad), len(labels)))
    for x in bad[:8]:
        print("   ", x)
    sys.exit(1)
print("observed: all labels round-trip")
sys.exit(0)
