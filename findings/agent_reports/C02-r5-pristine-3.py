"""Pristine defect: ZeroMassComponent ("never has mass -- it always returns zero for getMass and
getNumberDensity") does have mass.

Only getNumberDensity/setNumberDensity are overridden.  The constructor fills p.numberDensities from
the material, and getMass / getNumberDensities / density / the parent's volume-weighted number
densities all read p.numberDensities directly.  So getNumberDensity(nuc)==0 while getMass()>0, and
adding the component to a block changes the block's mass.
"""
import sys, os
sys.path.insert(0, os.getcwd())
import atexit, shutil
if not os.path.exists("logs"):
    atexit.register(shutil.rmtree, "logs", ignore_errors=True)
from armi import configure
configure(permissive=True)
import armi
assert armi.__file__.startswith(os.getcwd()), armi.__file__
from armi import runLog
runLog.setVerbosity("error")

from armi.reactor import blocks, components
from armi.reactor.components import ZeroMassComponent
T = dict(Tinput=400.0, Thot=400.0)
b = blocks.HexBlock("fuel", height=10.0)
for c in (
    components.Circle("clad", "HT9", od=0.86, id=0.60, mult=61, **T),
    components.Hexagon("duct", "HT9", op=9.0, ip=8.6, mult=1, **T),
):
    b.add(c)
m0 = b.getMass()
z = ZeroMassComponent("fluxHolder", "HT9", Tinput=25.0, Thot=25.0, volume=5.0)
b.add(z)
print("z.getNumberDensity('FE') =", z.getNumberDensity("FE"), " z.getNumberDensities()['FE'] =", z.getNumberDensities().get("FE"))
print("z.getMass() expected 0.0, observed", z.getMass(), "; z.density() =", z.density())
print("block mass before adding it", m0, "after (expected unchanged)", b.getMass())
bad = z.getMass() != 0.0 or abs(b.getMass() - m0) > 1e-9 * m0
print("DEFECT" if bad else "OK")
sys.exit(1 if bad else 0)
