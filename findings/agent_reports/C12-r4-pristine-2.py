"""C12 pristine 2: re-designating a block's target on the fly leaves the OLD target registered too,
so the block boundary follows whichever of the two comes last in the block's component order.

setAssembly(a, setFuel=False) registers the fuel as target of the fuel blocks; the documented
on-the-fly call expansionData.determineTargetComponent(b, Flags.CLAD) then registers the clad as well
and stores 'clad' on b.p.axialExpTargetComponent, but never un-registers the fuel.  If the block
lists its clad before its fuel (component order in a block is arbitrary), the fuel is processed last
and wins.
Expected (property C12): block top == top of the designated target (clad), its mass conserved."""
import sys, os

sys.path.insert(0, os.getcwd())
from armi import configure

configure(permissive=True)
import armi

assert armi.__file__.startswith(os.getcwd()), armi.__file__

import numpy as np
from armi.reactor import grids
from armi.reactor.assemblies import HexAssembly
from armi.reactor.blocks import HexBlock
from armi.reactor.components import Circle, DerivedShape, Hexagon
from armi.reactor.converters.axialExpansionChanger import AxialExpansionChanger
from armi.reactor.converters.axialExpansionChanger.expansionData import (
    iterSolidComponents,
)
from armi.reactor.flags import Flags


def block(btype, h, mainMat="HT9", T=25.0, order=(0, 1, 2, 3, 4)):
    b = HexBlock(btype, height=h)
    comps = [
        Circle(btype, mainMat, Tinput=25.0, Thot=T, od=0.76, id=0.0, mult=127.0),
        Circle("clad", "HT9", Tinput=25.0, Thot=T, od=0.80, id=0.77, mult=127.0),
        Hexagon("duct", "HT9", Tinput=25.0, Thot=T, op=16, ip=15.3, mult=1.0),
        DerivedShape("coolant", "Sodium", Tinput=25.0, Thot=T),
        Hexagon("intercoolant", "Sodium", Tinput=25.0, Thot=T, op=17.0, ip=16.0, mult=1.0),
    ]
    for i in order:
        b.add(comps[i])
    b.setType(btype)
    b.getVolumeFractions()
    return b


def dummy(h, T=25.0):
    b = HexBlock("dummy", height=h)
    b.add(Hexagon("dummy coolant", "Sodium", Tinput=25.0, Thot=T, op=17, ip=0.0, mult=1.0))
    b.getVolumeFractions()
    b.setType("dummy")
    return b


def buildAssembly(fuelMat="UZr", order=(0, 1, 2, 3, 4)):
    """shield / fuel / fuel / plenum / dummy pin assembly; fuel pins are UZr, structure is HT9."""
    a = HexAssembly("fuel")
    a.spatialGrid = grids.AxialGrid.fromNCells(numCells=1)
    a.spatialGrid.armiObject = a
    a.add(block("shield", 10.0))
    a.add(block("fuel", 12.0, fuelMat, order=order))
    a.add(block("fuel", 14.0, fuelMat, order=order))
    a.add(block("plenum", 16.0))
    a.add(dummy(20.0))
    a.calculateZCoords()
    a.reestablishBlockOrder()
    return a


bad = []

a = buildAssembly(order=(1, 0, 2, 3, 4))  # fuel blocks list the clad before the fuel
changer = AxialExpansionChanger()
changer.setAssembly(a, setFuel=False)
for b in a[1:3]:
    changer.expansionData.determineTargetComponent(b, Flags.CLAD)
    registered = [c.name for c in b if changer.expansionData.isTargetComponent(c)]
    print(f"{b.getType()}: stored target '{b.p.axialExpTargetComponent}', registered targets {registered}")
    if len(registered) != 1:
        bad.append(f"expected exactly one registered target in {b.getType()} block, observed {registered}")
clads = [b.getComponent(Flags.CLAD) for b in a[1:-1]]
m0 = {c: c.getMass() for c in clads}
changer.expansionData.setExpansionFactors(clads, [1.02] * len(clads))
changer.axiallyExpandAssembly()
for ib, b in enumerate(a[:-1]):
    t = b.getComponentByName(b.p.axialExpTargetComponent)
    print(f"block {ib} {b.getType():7s} designated {t.name:7s} block top {b.p.ztop:.4f} target top {t.ztop:.4f}")
    if abs(b.p.ztop - t.ztop) > 1e-10:
        bad.append(
            f"expected block {ib} top == top of designated target '{t.name}' ({t.ztop!r}); observed {b.p.ztop!r}"
        )
    if t in m0 and abs(t.getMass() / m0[t] - 1.0) > 1e-10:
        bad.append(
            f"expected mass of designated target '{t.name}' of block {ib} conserved; observed relative change "
            f"{t.getMass() / m0[t] - 1.0:+.3e}"
        )

if bad:
    print("DEFECT SHOWN")
    for line in bad:
        print("  " + line)
    sys.exit(1)
print("no defect observed")
