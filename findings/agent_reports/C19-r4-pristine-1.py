"""Pristine defect: Sodium.density at the UPPER END of its own stated validity range is a complex number.

propertyValidTemperature["density"] = ((97.85, 2230.55), "C").  2230.55 C + 273.15 evaluates to
2503.7000000000003 K > Tcrit = 2503.7 K, so (1 - T/Tcrit) is a tiny negative number and
`** 0.5` silently yields a complex result.  Expected: finite positive real density (0.219 g/cc).
"""
import sys, os, math

sys.path.insert(0, os.getcwd())
from armi import configure

configure(permissive=True)
import armi

assert armi.__file__.startswith(os.getcwd()), armi.__file__
from armi.materials.sodium import Sodium

na = Sodium()
(lo, hi), unit = na.propertyValidTemperature["density"]
rho = na.density(Tc=hi)
print(f"stated density range: {lo}..{hi} {unit}")
print(f"expected: real, finite, positive density at Tc={hi} (about 0.219 g/cc)")
print(f"observed: Sodium.density(Tc={hi}) = {rho!r} ({type(rho).__name__})")
if isinstance(rho, complex) or not math.isfinite(rho) or rho <= 0:
    print("DEFECT: density is not a finite positive real number inside the stated range")
    sys.exit(1)
print("no defect observed")
sys.exit(0)
