"""Pristine C01 defect 3: copy.deepcopy(Reactor) drops the ex-core registry. ExcoreCollection is a dict subclass whose
__deepcopy__ copies only __dict__, and Reactor.add registers structures as dict ITEMS, so the copy still has the
SFP as a child but r2.excore is empty (pickle round-trip keeps it). On the copy, tracked discharges then cannot
find the pool: the assembly is dropped from the model instead of being re-parented."""
import sys, os

sys.path.insert(0, os.getcwd())
from armi import configure

configure(permissive=True)
import armi

assert armi.__file__.startswith(os.getcwd()), armi.__file__
import copy, pickle
from armi import settings, tests, runLog
from armi.reactor import assemblies, blocks, grids, composites
from armi.reactor.components import Hexagon, Circle
from armi.materials import uZr

runLog.setVerbosity("error")


def mkBlock(typ="fuel"):
    b = blocks.HexBlock("TestBlock")
    b.setType(typ)
    b.add(Hexagon("duct", uZr.UZr(), Tinput=600, Thot=600, op=16.0, ip=15.0, mult=1))
    b.add(Circle("fuel", uZr.UZr(), Tinput=600, Thot=600, od=0.5, id=0.0, mult=7))
    b.add(Circle("clad", uZr.UZr(), Tinput=600, Thot=600, od=0.6, id=0.5, mult=7))
    return b


def mkAssem(n=2, num=None):
    a = assemblies.HexAssembly("fuel", assemNum=num)
    a.spatialGrid = grids.AxialGrid.fromNCells(n)
    for _ in range(n):
        a.add(mkBlock())
    return a


bad = []


def check(ok, expected, observed):
    print(("ok      " if ok else "DEFECT  ") + f"expected: {expected}; observed: {observed}")
    if not ok:
        bad.append(observed)


def finish():
    print("DEFECT PRESENT" if bad else "no defect observed")
    sys.exit(1 if bad else 0)

from armi.reactor.spentFuelPool import SpentFuelPool

cs = settings.Settings().modified(newSettings={"db": False, "trackAssems": True})
r = tests.getEmptyHexReactor()
r.core.setOptionsFromCs(cs)
sfp = SpentFuelPool("Spent Fuel Pool")
sfp.spatialGrid = grids.CartesianGrid.fromRectangle(50.0, 50.0)
sfp.spatialGrid.armiObject = sfp
r.add(sfp)
for ij in [(0, 0), (1, 0)]:
    a = mkAssem(2)
    a.spatialLocator = r.core.spatialGrid[ij[0], ij[1], 0]
    r.core.add(a)

r3 = pickle.loads(pickle.dumps(r))
check(r3.excore.get("sfp") is r3._children[1], "unpickled reactor: excore['sfp'] is its SFP child", f"{dict(r3.excore)}")
r2 = copy.deepcopy(r)
check(r2.excore.get("sfp") is r2._children[1], "deep-copied reactor: excore['sfp'] is its SFP child", f"excore={dict(r2.excore)}, children={[type(c).__name__ for c in r2._children]}")
a = r2.core[0]
r2.core.removeAssembly(a, discharge=True)
check(a.parent is r2._children[1], "tracked discharge on the copy re-parents the assembly into the copy's SFP", f"a.parent={a.parent!r}, SFP children={len(r2._children[1])}")
finish()
