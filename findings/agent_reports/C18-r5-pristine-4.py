"""C18 pristine defect 4: well-formed blueprints that die with internal errors instead of building.

(a) material ``UThZr`` with its own material modifications (U235_wt_frac / ZR_wt_frac): applyInputParams
    works on ``self.parent``, which is None while a component blueprint constructs the material
    -> AttributeError.  (UZr, UO2, MOX, B4C ... all work on ``self``.)
(b) ``geom: Hex`` -- the lattice reader and GeomType.fromStr accept any capitalisation, but
    GridBlueprint._constructSpatialGrid compares the raw string with "hex"/"cartesian"/...
    -> UnboundLocalError for ``spatialGrid``.
(c) a ``systems`` entry without ``origin`` (the attribute is declared optional, default None)
    -> AttributeError: 'NoneType' object has no attribute 'x'.
Run as: cd <armi tree> && /venv/bin/python /tmp/seedout5/C18-pristine-4.py
"""
import sys, os

sys.path.insert(0, os.getcwd())
from armi import configure

configure(permissive=True)
import armi

assert armi.__file__.startswith(os.getcwd()), armi.__file__
sys.path.insert(0, os.path.dirname(os.path.abspath(__file__)))
from C18_pristine_common import HEAD, blocks

from armi import runLog, settings
from armi.reactor import blueprints, reactors

runLog.setVerbosity("error")

ASSEM = """
assemblies:
    fuel a:
        specifier: A
        blocks: [*block_fuel]
        height: [25.0]
        axial mesh points: [1]
        xs types: [A]
"""
CORE = """
systems:
    core:
        grid name: core
        ORIGIN
grids:
    core:
        geom: GEOM
        symmetry: third periodic
        lattice map: |
           A
            A
           A A
"""
ORIGIN = "origin: {x: 0.0, y: 0.0, z: 0.0}"

cases = {
    "(a) UThZr with U235_wt_frac/ZR_wt_frac": (
        HEAD + blocks(mat="UThZr") + ASSEM + "        material modifications:\n"
        "            U235_wt_frac: [0.2]\n            ZR_wt_frac: [0.1]\n",
        False,
    ),
    "(b) geom: Hex": (HEAD + blocks() + ASSEM + CORE.replace("ORIGIN", ORIGIN).replace("GEOM", "Hex"), True),
    "(c) system without origin": (HEAD + blocks() + ASSEM + CORE.replace("ORIGIN", "").replace("GEOM", "hex"), True),
    "(reference) geom: hex with origin": (
        HEAD + blocks() + ASSEM + CORE.replace("ORIGIN", ORIGIN).replace("GEOM", "hex"),
        True,
    ),
}
bad = False
for title, (text, full) in cases.items():
    try:
        bp = blueprints.Blueprints.load(text)
        if full:
            r = reactors.factory(settings.Settings(), bp)
            msg = f"built a core with {len(r.core)} assemblies"
        else:
            a = bp.constructAssem(settings.Settings(), name="fuel a")
            msg = f"built {a}"
        ok = True
    except Exception as e:
        msg = f"{type(e).__name__}: {str(e)[:160]}"
        ok = False
    print(f"{title}: expected a model (or an input error that names the problem), observed {msg}")
    bad = bad or not ok

if os.path.isdir("logs") and not os.listdir("logs"):
    os.rmdir("logs")
print("DEFECT SHOWN" if bad else "no defect")
sys.exit(1 if bad else 0)
