"""Pristine defect 3 (C16): on a read-only reactor Component.setNumberDensity is refused (RuntimeError) only AFTER
the numberDensities dict parameter has been updated in place, so the value changes although the assignment is "refused".
(updateNumberDensities mutates self.p.numberDensities via dict.update and only then writes self.p.assigned.)"""
import sys, os
sys.path.insert(0, os.getcwd())
from armi import configure
configure(permissive=True)
import armi
assert armi.__file__.startswith(os.getcwd()), armi.__file__
from armi.testing import loadTestReactor
_o, r = loadTestReactor(inputFileName="smallestTestReactor/armiRunSmallest.yaml")
b = r.core.getFirstBlock()

from armi.reactor.reactorParameters import makeParametersReadOnly
fuel = b.getComponentByName("fuel")
b.getVolume()  # volumes already evaluated, as in any reactor that has been used
makeParametersReadOnly(r)
before = fuel.getNumberDensity("U235")
refused = False
try:
    fuel.setNumberDensity("U235", before * 2)
except RuntimeError as e:
    refused = True
    print("refused with:", e)
after = fuel.getNumberDensity("U235")
print("expected: refused and U235 number density unchanged =", before)
print("observed: refused =", refused, " U235 number density =", after)
bad = after != before
print("DEFECT" if bad else "no defect")
sys.exit(1 if bad else 0)
