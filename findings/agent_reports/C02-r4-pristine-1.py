"""C02 pristine defect 1: mass edits at COMPONENT level do not read back inside a block that is cut by
symmetry lines (central assembly of a 1/3 core). Component.getMass divides the volume by the parent
symmetry factor, but setMass/addMass/getNumberOfAtoms/getHMMoles (inherited from ArmiObject) use the
un-reduced Component.getVolume()."""
import sys, os; sys.path.insert(0, os.getcwd())
from armi import configure; configure(permissive=True)
import armi
assert armi.__file__.startswith(os.getcwd()), armi.__file__
from armi import runLog
runLog.setVerbosity("error")
from armi import tests as armitests
from armi.reactor import assemblies, blocks, components, geometry, grids
from armi.reactor.flags import Flags


def mkBlock(height=10.0, intercoolant=True):
    b = blocks.HexBlock("fuel", height=height)
    b.setType("fuel")
    comps = [
        components.Circle("fuel", "UZr", Tinput=25.0, Thot=600, od=0.76, id=0.0, mult=127.0),
        components.Circle("clad", "HT9", Tinput=25.0, Thot=450, od=0.80, id=0.77, mult=127.0),
        components.Hexagon("duct", "HT9", Tinput=25.0, Thot=400, op=16, ip=15.3, mult=1.0),
        components.DerivedShape("coolant", "Sodium", Tinput=25.0, Thot=400),
    ]
    if intercoolant:
        comps.append(components.Hexagon("intercoolant", "Sodium", Tinput=400, Thot=400, op=17.0, ip=16.0, mult=1.0))
    for c in comps:
        b.add(c)
    return b


def mkReactor(nb=3, intercoolant=True):
    """1/3-core hex reactor with a central assembly (cut in 3 by symmetry) and one full assembly."""
    r = armitests.getEmptyHexReactor()
    r.core.spatialGrid = grids.HexGrid.fromPitch(17.0)
    r.core.spatialGrid.symmetry = geometry.SymmetryType(
        geometry.DomainType.THIRD_CORE, geometry.BoundaryType.PERIODIC
    )
    r.core.spatialGrid.geomType = geometry.HEX
    r.core.spatialGrid.armiObject = r.core
    asms = []
    for n, (i, j) in enumerate([(0, 0), (1, 0)]):
        a = assemblies.HexAssembly("fuel", assemNum=n)
        a.spatialGrid = grids.AxialGrid.fromNCells(nb)
        for k in range(nb):
            a.add(mkBlock(height=10.0 + 5 * k, intercoolant=intercoolant))
        a.calculateZCoords()
        a.spatialLocator = r.core.spatialGrid[i, j, 0]
        r.core.add(a)
        asms.append(a)
    return r, asms


def close(a, b, rtol=1e-9):
    return abs(a - b) <= rtol * max(abs(a), abs(b))


problems = []


def finish():
    if problems:
        print("DEFECT SHOWN")
        for p in problems:
            print("  " + p)
        sys.exit(1)
    print("no defect observed")
    sys.exit(0)

r, (a0, a1) = mkReactor()
for tag, a in (("full assembly", a1), ("central (1/3) assembly", a0)):
    b = a[0]
    f = b.getComponent(Flags.FUEL)
    sf = b.getSymmetryFactor()
    f.setMass("U235", 10.0)
    got = f.getMass("U235")
    print(f"{tag}: symmetry factor {sf}; fuel.setMass('U235', 10 g) -> fuel.getMass('U235') = {got!r} g (expected 10.0)")
    if not close(got, 10.0):
        problems.append(f"{tag}: component setMass(10 g) reads back {got!r} g")
    m0 = f.getMass("U238"); f.addMass("U238", 6.0); d = f.getMass("U238") - m0
    print(f"{tag}: fuel.addMass('U238', 6 g) -> mass increased by {d!r} g (expected 6.0)")
    if not close(d, 6.0):
        problems.append(f"{tag}: component addMass(6 g) increases mass by {d!r} g")
    atomsComps = sum(c.getNumberOfAtoms("U238") for c in b)
    atomsBlock = b.getNumberOfAtoms("U238")
    print(f"{tag}: sum of component getNumberOfAtoms('U238') = {atomsComps!r}, block = {atomsBlock!r}")
    if not close(atomsComps, atomsBlock):
        problems.append(f"{tag}: atoms at component level {atomsComps!r} != block level {atomsBlock!r}")
    molesFromMass = f.getHMMass() / 238.0
    print(f"{tag}: fuel.getHMMoles() = {f.getHMMoles()!r}, fuel.getHMMass()/238 = {molesFromMass!r}")
    if abs(f.getHMMoles() / molesFromMass - 1) > 0.01:
        problems.append(f"{tag}: component HM moles {f.getHMMoles()!r} inconsistent with HM mass/238 = {molesFromMass!r}")
finish()
