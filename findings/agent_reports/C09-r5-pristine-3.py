"""C09 pristine defect 3: an ISOTXS library written with sub-blocked scattering (NSBLOK > 1) cannot be read back.

The writer happily emits MSCMAX*NSBLOK scattering records per nuclide, but on reading each sub-block record
is turned into a full (NGROUP x NGROUP) CSR matrix from only the rows of that sub-block, which scipy rejects
("index pointer size ... should be ..."); even if it did not, each sub-block would overwrite the previous one.
Also the LOCA offsets written in the 2D record count one record per scattering block, ignoring NSBLOK.
"""
import sys, os

sys.path.insert(0, os.getcwd())
from armi import configure

configure(permissive=True)
import struct
import tempfile

import armi
from armi import runLog
from armi.nuclearDataIO.cccc import isotxs
from armi.nuclearDataIO.tests import test_xsLibraries

assert armi.__file__.startswith(os.getcwd()), armi.__file__
runLog.setVerbosity("error")


def frames(path):
    raw, pos, out = open(path, "rb").read(), 0, []
    while pos < len(raw):
        (n,) = struct.unpack("i", raw[pos : pos + 4])
        out.append((pos, n))
        pos += n + 8
    return raw, out


defect = False
with tempfile.TemporaryDirectory() as tmp:
    lib = isotxs.readBinary(test_xsLibraries.ISOTXS_AA)
    lib.isotxsMetadata["subblockingControl"] = 3  # 33 groups -> 3 sub-blocks of 11 groups
    path = os.path.join(tmp, "ISOTXS")
    isotxs.writeBinary(lib, path)
    raw, recs = frames(path)
    numNucs = len(lib)
    # records: file id, 1D, 2D, then per nuclide 4D, 5D, 6 blocks x 3 sub-blocks of 7D
    print("records in file:", len(recs), "expected", 3 + numNucs * (2 + 6 * 3))
    pos, n = recs[2]
    loca = struct.unpack(f"{numNucs}i", raw[pos + 4 + n - 4 * numNucs : pos + 4 + n])
    expectedLoca = tuple(i * (2 + 6 * 3) for i in range(numNucs))
    print("LOCA expected:", expectedLoca[:4], "... observed:", loca[:4], "...")
    if loca != expectedLoca:
        defect = True
    try:
        back = isotxs.readBinary(path)
        print("read back ok; equal:", isotxs.compare(lib, back))
    except Exception as ee:
        print("expected the file written by armi to be readable; observed", type(ee).__name__, str(ee).strip().splitlines()[-1])
        defect = True
if defect:
    print("DEFECT: ISOTXS with NSBLOK=3 does not round-trip")
    sys.exit(1)
print("no defect observed")
sys.exit(0)
