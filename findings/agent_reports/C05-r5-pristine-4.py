"""Pristine C05 defect 4: the unset pattern "every object is None" is not preserved. When only
some objects are None they read back None; when all are, the parameter is skipped at write and
every object reads back the parameter default (0.0) instead of None. The same happens for a
ragged collection whose entries hold nothing but None."""
import sys, os

sys.path.insert(0, os.getcwd())
from armi import configure

configure(permissive=True)
import armi

assert armi.__file__.startswith(os.getcwd()), armi.__file__

import shutil
import tempfile

import h5py
import numpy as np

from armi.bookkeeping.db.database import Database
from armi.reactor.blocks import HexBlock

PARAM = "power"  # block parameter with a plain setter (default 0.0); any value may be stored on it


CASES = [
    [None, 1.0, None],  # control: partial None survives
    [None, None, None],
]


def roundTrip(values):
    """Return ("ok", values read) or ("rejected", error raised while writing)."""
    src = [HexBlock("b{}".format(i)) for i in range(len(values))]
    for b, v in zip(src, values):
        b.p[PARAM] = v
    dst = [HexBlock("b{}".format(i)) for i in range(len(values))]
    td = tempfile.mkdtemp()
    try:
        path = os.path.join(td, "c05.h5")
        with h5py.File(path, "w") as f:
            g = f.create_group("c00n00")
            try:
                Database._writeParams(Database, g, src)
            except Exception as ee:
                return "rejected", "{}: {}".format(type(ee).__name__, ee)
        with h5py.File(path, "r") as f:
            Database._readParams(f["c00n00"], "HexBlock", dst)
    finally:
        shutil.rmtree(td, ignore_errors=True)
    return "ok", [b.p[PARAM] for b in dst]


def same(a, b):
    if a is None or b is None:
        return a is None and b is None
    if isinstance(a, (bool, np.bool_)) != isinstance(b, (bool, np.bool_)):
        return False
    if isinstance(a, (int, np.integer)) and isinstance(b, (int, np.integer)):
        return int(a) == int(b)
    return type(a) is type(b) and a == b


def check(cases):
    bad = 0
    for written in cases:
        status, got = roundTrip(written)
        if status == "rejected":
            print("ok   (rejected at write) {!r}".format(written))
            continue
        if len(got) == len(written) and all(same(w, g) for w, g in zip(written, got)):
            print("ok   {!r} -> {!r}".format(written, got))
        else:
            bad += 1
            print("BAD  expected {!r} (or an error at write time)".format(written))
            print("     observed {!r}".format(got))
    return bad


if __name__ == "__main__":
    bad = check(CASES)
    print("DEFECT" if bad else "no defect seen")
    sys.exit(1 if bad else 0)
