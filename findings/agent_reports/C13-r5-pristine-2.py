"""C13 pristine defect 2: restorePreviousGeometry() does not restore the centre assembly parameters exactly: they are
multiplied by 3 and divided by 3 in floating point (0.1 * 3 / 3 != 0.1), and integer values come back as floats."""
import sys, os; sys.path.insert(0, os.getcwd())
hadLogs = os.path.exists("logs")
from armi import configure; configure(permissive=True)
import io, contextlib, shutil, atexit
import armi
assert armi.__file__.startswith(os.getcwd()), armi.__file__
from armi import runLog
from armi.testing import loadTestReactor, reduceTestReactorRings
from armi.reactor.converters.geometryConverters import ThirdCoreHexToFullCoreChanger, EdgeAssemblyChanger
atexit.register(lambda: (not hadLogs) and os.path.isdir("logs") and shutil.rmtree("logs", ignore_errors=True))
def load(rings):
    with contextlib.redirect_stdout(io.StringIO()):
        o, r = loadTestReactor()
        reduceTestReactorRings(r, o.cs, rings)
    runLog.setVerbosity("error")
    return o, r

o, r = load(3)
core = r.core
centre = core.getAssemblyWithStringLocation("001-001")
vals = [0.1, 0.7, 1.1, 4.35, 123456.789]
blocks = list(centre)
for b, v in zip(blocks, vals):
    b.p.power = v
    b.p.kgHM = v * 7
    b.p.mgFlux = [v, v / 3, v * 1.3]
before = [(b.p.power, b.p.kgHM, list(b.p.mgFlux), b.p.massHmBOL, b.p.molesHmBOL) for b in blocks]
conv = ThirdCoreHexToFullCoreChanger(o.cs)
conv.convert(r)
conv.restorePreviousGeometry(r)
after = [(b.p.power, b.p.kgHM, list(b.p.mgFlux), b.p.massHmBOL, b.p.molesHmBOL) for b in blocks]
diffs = [(b.getName(), x, y) for b, x, y in zip(blocks, before, after) if x != y]
print("expected: centre-assembly block parameters identical after convert + restore")
for d in diffs[:3]:
    print("observed:", d[0], "before", d[1], "after", d[2])
print("FAIL ({} of {} blocks changed)".format(len(diffs), len(before)) if diffs else "PASS")
sys.exit(1 if diffs else 0)
