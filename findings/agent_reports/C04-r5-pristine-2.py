"""C04 pristine 2: after a shuffle the stationary blocks load back under other names / assembly numbers.

FuelHandler.swapAssemblies leaves the blocks selected by ``stationaryBlockFlags`` (default: the
grid plate) where they are by exchanging them between the two assemblies with Assembly.remove /
Assembly.insert (_transferStationaryBlocks). insert() does not rename: the grid-plate block that
now sits in assembly A0000 keeps the name ``B0009-000`` and ``p.assemNum == 9`` of the assembly it
came from. Database.load re-adds every block with Assembly.add -> reestablishBlockOrder, which
renames all blocks after their parent (``B0000-000``, assemNum 0). So the object with a given
serial number has another name and another ``assemNum`` after save/load, and name based look-ups
(core.getBlockByName of the saved name) return a different object.

Expected: every block has the same name and the same p.assemNum after save/load.
"""
import sys, os

sys.path.insert(0, os.getcwd())
_HAD_LOGS = os.path.exists(os.path.join(os.getcwd(), "logs"))
from armi import configure

configure(permissive=True)

import contextlib
import shutil
import tempfile

import armi

assert os.path.abspath(armi.__file__).startswith(os.getcwd()), armi.__file__

from armi import runLog
from armi.bookkeeping.db import Database
from armi.physics.fuelCycle.fuelHandlers import FuelHandler
from armi.testing import loadTestReactor, reduceTestReactorRings
from armi.tests import TEST_ROOT


@contextlib.contextmanager
def quiet():
    sys.stdout.flush()
    sys.stderr.flush()
    saved = os.dup(1), os.dup(2)
    devnull = os.open(os.devnull, os.O_WRONLY)
    try:
        os.dup2(devnull, 1)
        os.dup2(devnull, 2)
        yield
    finally:
        sys.stdout.flush()
        sys.stderr.flush()
        os.dup2(saved[0], 1)
        os.dup2(saved[1], 2)
        for fd in (devnull,) + saved:
            os.close(fd)


def facts(r):
    return {
        b.p.serialNum: (b.getName(), int(b.p.assemNum), b.parent.getName(), b.getType())
        for b in r.core.getBlocks()
    }


def main():
    tmp = tempfile.mkdtemp(prefix="c04p2")
    cwd = os.getcwd()
    try:
        with quiet():
            o, r = loadTestReactor(TEST_ROOT, inputFileName="armiRun.yaml")
            reduceTestReactorRings(r, o.cs, 2)
            runLog.setVerbosity("error")
            assems = sorted(r.core, key=lambda a: a.getName())
            a1, a2 = assems[0], assems[-1]
            FuelHandler(o).swapAssemblies(a1, a2)
            mem = facts(r)
            db = Database(os.path.join(tmp, "shuffled.h5"), "w")
            db.open()
            r.p.cycle, r.p.timeNode = 0, 0
            db.writeToDB(r)
            r2 = db.load(0, 0, cs=o.cs, bp=r.blueprints)
            ld = facts(r2)
            lookups = []
            for sn, (name, _n, _p, _t) in mem.items():
                found = r2.core.getBlockByName(name) if name in r2.core.blocksByName else None
                if found is None or found.p.serialNum != sn:
                    lookups.append((name, sn, None if found is None else found.p.serialNum))
            db.h5db.close()
            db.h5db = None
    finally:
        os.chdir(cwd)
        shutil.rmtree(tmp, ignore_errors=True)
        if not _HAD_LOGS:
            shutil.rmtree(os.path.join(cwd, "logs"), ignore_errors=True)

    problems = []
    for sn in sorted(mem):
        if mem[sn] != ld.get(sn):
            problems.append(
                "block serial {}: saved (name, assemNum, parent, type) = {}; after load {}".format(
                    sn, mem[sn], ld.get(sn)
                )
            )
    for name, sn, other in lookups:
        problems.append(
            "getBlockByName({!r}): saved state -> serial {}; loaded state -> serial {}".format(name, sn, other)
        )
    if problems:
        print("DEFECT SHOWN on this tree ({} observations) after swapping {} and {}".format(len(problems), a1.getName(), a2.getName()))
        print("   expected: every block keeps its name and p.assemNum through save/load")
        for p in problems[:8]:
            print("  ", p)
        return 1
    print("no defect observed")
    return 0


if __name__ == "__main__":
    sys.exit(main())
