"""C16 pristine defect 4: holes in the read-only guard, and a vacuous equality.

(a) After ``p.readOnly = True`` (what makeParametersReadOnly sets everywhere) ``del p[name]`` is
    accepted and changes the value back to the default, and assignments through the history key
    form ``p[(name, timeStep)] = v`` are accepted too: the guard lives only in __setattr__, while
    __delitem__ uses delattr and the tuple path writes into ``_hist`` directly.
(b) ``ParameterCollection.__eq__`` compares ``getattr(self, f) != getattr(self, f)`` (self on both
    sides), so two collections with different values compare equal (or it raises on array values);
    it cannot be used to check that a copy equals its original.
"""
import sys, os

sys.path.insert(0, os.getcwd())
from armi import configure

configure(permissive=True)

import armi

assert armi.__file__.startswith(os.getcwd()), armi.__file__

from armi.reactor import assemblies, blocks, grids
from armi.reactor.components import Circle, DerivedShape, Hexagon


def buildBlock():
    b = blocks.HexBlock("fuel", height=10.0)
    fuel = Circle("fuel", "UZr", Tinput=25.0, Thot=600.0, od=0.76, id=0.0, mult=127.0)
    bond = Circle("bond", "Sodium", Tinput=450.0, Thot=450.0, od="clad.id", id="fuel.od", mult="fuel.mult")
    clad = Circle("clad", "HT9", Tinput=25.0, Thot=470.0, od=1.00, id=0.90, mult="fuel.mult")
    duct = Hexagon("duct", "HT9", Tinput=25.0, Thot=450.0, op=16.0, ip=15.0, mult=1.0)
    coolant = DerivedShape("coolant", "Sodium", Tinput=450.0, Thot=450.0)
    comps = {c.name: c for c in (fuel, bond, clad, duct, coolant)}
    for c in comps.values():
        c.resolveLinkedDims(comps)
        b.add(c)
    return b


import copy

bad = False
b = buildBlock()
b.p.power = 3.0
b.p[("power", 1)] = 1.0
b.p.readOnly = True
try:
    del b.p["power"]
    print("(a) expected: del b.p['power'] refused, power stays 3.0; observed: accepted, power =", b.p.power)
    bad = True
except RuntimeError as e:
    print("(a) del refused:", e)
try:
    b.p[("power", 1)] = 2.0
    print("(a) expected: b.p[('power', 1)] = 2.0 refused; observed: accepted, value =", b.p[("power", 1)])
    bad = True
except RuntimeError as e:
    print("(a) history assignment refused:", e)

duct = buildBlock().getComponentByName("duct")
duct2 = copy.deepcopy(duct)
duct2.p.temperatureInC = 999.0
eq = duct.p == duct2.p
print("(b) expected: duct.p == copy.p is False after copy.p.temperatureInC = 999.0; observed:", eq)
bad = bad or eq
if bad:
    print("DEFECT")
    sys.exit(1)
print("OK")
