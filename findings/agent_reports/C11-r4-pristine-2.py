"""C11-pristine-2: armi.utils.mathematics.resampleStepwise(avg=False) does not conserve the total
under refinement, and corrupts a numpy input.

(a) When an output bin lies strictly inside ONE input bin, both the "right trim" and the "left trim"
    are applied to the same single chunk, so the value is multiplied by the PRODUCT of two fractions
    ((xout_hi-xin_lo)/w * (xin_hi-xout_lo)/w) instead of (xout_hi-xout_lo)/w.
(b) ``chunk = yin[a:b]`` is a view for numpy input and ``chunk[-1] *= fraction`` writes through to the
    caller's array; the next output bin then re-reads the already scaled value.

Expected: sum(yout) == sum(yin) for any xout spanning the same range; yin untouched.
Run: cd <armi checkout> && python C11-pristine-2.py   (exit 1 when the defect shows)
"""
import sys, os

sys.path.insert(0, os.getcwd())
from armi import configure

configure(permissive=True)
import armi

assert armi.__file__.startswith(os.getcwd()), armi.__file__
import numpy as np
from armi.utils.mathematics import resampleStepwise

bad = []
xin, yin, xout = [0, 10], [10.0], [0, 2, 4, 10]
out = resampleStepwise(xin, list(yin), xout, avg=False)
exp = [2.0, 2.0, 6.0]
if not np.allclose(out, exp):
    bad.append(f"(a) xin={xin} yin={yin} xout={xout} avg=False: expected {exp} (sum 10), observed {out} (sum {sum(out)})")

xin, xout = [0, 10, 20], [0, 5, 20]
y = np.array([10.0, 20.0])
out = resampleStepwise(xin, y, xout, avg=False)
exp = [5.0, 25.0]
if not np.allclose(out, exp) or not np.allclose(y, [10.0, 20.0]):
    bad.append(
        f"(b) xin={xin} yin=np.array([10,20]) xout={xout} avg=False: expected {exp} and yin unchanged, "
        f"observed {[float(v) for v in out]} (sum {float(sum(out))}) and yin mutated to {y.tolist()}"
    )
if bad:
    print("DEFECT")
    for m in bad:
        print("  " + m)
    sys.exit(1)
print("no defect observed")
