"""C08 pristine defect 1: EdgeAssemblyChanger.addEdgeAssemblies puts an UN-ROTATED copy of each
0-degree-line assembly onto the 120-degree symmetry line of a 'third periodic' hex core.

In a periodic (120 degree rotational) third core, the cell on the 120 degree line is the image of
the cell on the 0 degree line under a +120 degree rotation (that is what
HexGrid.getSymmetricEquivalents()[0] means, and addEdgeAssemblies uses exactly that entry to find
the target location).  The object occupying the image cell must therefore be the source assembly
rotated by 120 degrees: per-corner / per-edge data shifted by two positions, orientation 120,
displacement vector turned, pins moved.  ThirdCoreHexToFullCoreChanger.convert does this
(newAssem.rotate(count * angle)); addEdgeAssemblies does not, so the two operations disagree about
the contents of the very same cell.

Run as:  cd <armi tree> && python C08-pristine-1.py      (exit 1 when the defect shows)
"""
import sys, os

sys.path.insert(0, os.getcwd())
from armi import configure

configure(permissive=True)
import math

import armi

assert armi.__file__.startswith(os.getcwd()), armi.__file__

from armi import runLog
from armi.reactor import grids
from armi.reactor.converters import geometryConverters
from armi.reactor.tests.test_reactors import TEST_ROOT, loadTestReactor

CORNERS = [1.0, 2.0, 3.0, 4.0, 5.0, 6.0]
DX, DY = 0.01, 0.0


def load():
    o, r = loadTestReactor(TEST_ROOT)
    runLog.setVerbosity("error")
    core = r.core
    assert str(core.symmetry) == "third periodic", core.symmetry
    # make sure we start without edge assemblies
    geometryConverters.EdgeAssemblyChanger().removeEdgeAssemblies(core)
    for a in core.getAssembliesOnSymmetryLine(grids.BOUNDARY_0_DEGREES):
        for b in a:
            b.p.THcornTemp = list(CORNERS)
            b.p.displacementX = DX
            b.p.displacementY = DY
    return o, r


def describe(a):
    b = a[1]
    pins = (
        [tuple(int(v) for v in loc[:2]) for loc in b.getPinLocations()[:4]]
        if b.spatialGrid is not None
        else None
    )
    return {
        "THcornTemp": [float(v) for v in b.p.THcornTemp],
        "orientation": float(b.p.orientation[2]) % 360.0,
        "displacement": (round(b.p.displacementX, 6), round(b.p.displacementY, 6)),
        "first pins": pins,
    }


# (A) edge assemblies
_oE, rEdge = load()
geometryConverters.EdgeAssemblyChanger().addEdgeAssemblies(rEdge.core)
edge = {
    tuple(int(v) for v in a.spatialLocator.getRingPos()): a
    for a in rEdge.core.getAssembliesOnSymmetryLine(grids.BOUNDARY_120_DEGREES)
}

# (B) full core expansion of an identical reactor
oFull, rFull = load()
geometryConverters.ThirdCoreHexToFullCoreChanger(oFull.cs).convert(rFull)
fullGrid = rFull.core.spatialGrid

th = 2 * math.pi / 3
expected = {
    "THcornTemp": CORNERS[-2:] + CORNERS[:-2],
    "orientation": 120.0,
    "displacement": (
        round(DX * math.cos(th) - DY * math.sin(th), 6),
        round(DX * math.sin(th) + DY * math.cos(th), 6),
    ),
}

bad = 0
print("cell (ring,pos) on the 120 degree line: what each operation puts there")
for ringPos, aEdge in sorted(edge.items()):
    i, j = fullGrid.getIndicesFromRingAndPos(*ringPos)
    aFull = rFull.core.childrenByLocator[fullGrid[i, j, 0]]
    dE, dF = describe(aEdge), describe(aFull)
    print(f" {ringPos}:")
    print(f"   expected (source rotated +120 deg) : {expected}")
    print(f"   full-core expansion                : {dF}")
    print(f"   addEdgeAssemblies                  : {dE}")
    for key, val in expected.items():
        if dE[key] != val:
            bad += 1
    if dE["first pins"] != dF["first pins"]:
        bad += 1

if bad:
    print(f"DEFECT: addEdgeAssemblies left {bad} rotation-dependent quantities un-rotated")
    sys.exit(1)
print("no defect observed")
sys.exit(0)
