"""C01 pristine defect 4: HexBlock.createHomogenizedCopy() of a block that has a pin lattice.

The copy is given the very same spatialGrid object as the source block (b.spatialGrid =
self.spatialGrid).  A grid has exactly one owner (grid.armiObject), which stays the source block:
the copy's grid is anchored to another object, and with pinSpatialLocators=True the copy's pin
components sit on locators of a grid that belongs to the source block.
"""
import sys, os

sys.path.insert(0, os.getcwd())
import atexit, shutil

if not os.path.isdir("logs"):
    atexit.register(shutil.rmtree, "logs", True)
from armi import configure

configure(permissive=True)
import armi

assert armi.__file__.startswith(os.getcwd()), armi.__file__
import io, contextlib

from armi.reactor import blocks, components


def main():
    b = blocks.HexBlock("fuel", height=10.0)
    b.setType("fuel")
    for c in (
        components.Circle("fuel", "UZr", Tinput=25.0, Thot=25.0, od=0.7, id=0.0, mult=19),
        components.Circle("clad", "HT9", Tinput=25.0, Thot=25.0, od=0.8, id=0.7, mult=19),
        components.Helix("wire", "HT9", Tinput=25.0, Thot=25.0, axialPitch=30.0, helixDiameter=0.9, od=0.1, id=0.0, mult=19),
        components.Hexagon("duct", "HT9", Tinput=25.0, Thot=25.0, op=6.0, ip=5.5, mult=1),
        components.DerivedShape("coolant", "Sodium", Tinput=450.0, Thot=450.0),
    ):
        b.add(c)
    with contextlib.redirect_stdout(io.StringIO()):
        b.autoCreateSpatialGrids()
        cpy = b.createHomogenizedCopy(pinSpatialLocators=True)
    print("expected: copy.spatialGrid is a grid of its own, anchored to the copy")
    print(
        "observed: copy.spatialGrid is source.spatialGrid = {}; copy.spatialGrid.armiObject is copy = {} (is source = {})".format(
            cpy.spatialGrid is b.spatialGrid,
            cpy.spatialGrid.armiObject is cpy,
            cpy.spatialGrid.armiObject is b,
        )
    )
    foreign = [
        c.name
        for c in cpy
        if c.spatialLocator is not None
        and any(getattr(l, "grid", None) is not None and l.grid.armiObject is not cpy for l in (list(c.spatialLocator) if hasattr(c.spatialLocator, "_locations") else [c.spatialLocator]))
    ]
    print("children of the copy located in a grid owned by another object:", foreign)
    if cpy.spatialGrid is b.spatialGrid or cpy.spatialGrid.armiObject is not cpy:
        print("DEFECT: copy shares its grid with the source block; the grid is owned by the source")
        return 1
    print("no defect")
    return 0


if __name__ == "__main__":
    sys.exit(main())
