"""C06 pristine defect 1: the debugDB option (labelled snapshots around every interface) breaks runs.

(a) With cs['debugDB'] on, Operator._interactAll calls _debugDB before any interface has opened the
    database; DatabaseInterface.database raises RuntimeError instead of being skipped, so the very
    first hook (Init, inside Operator.initializeInterfaces) aborts.
(b) With the database already open, a tightly coupled node that needs more than one coupled
    iteration re-uses the label 'cXtY-Coupled-0-start' (the label has no iteration number), the
    second write to the same (cycle, node, label) raises ValueError in Database._writeParams and
    the whole run aborts - although no interface failed.
Run as: cd <armi tree> && python C06-pristine-1.py ; exit 1 when the defect shows.
"""
import sys, os

sys.path.insert(0, os.getcwd())
from armi import configure

configure(permissive=True)
import armi

assert armi.__file__.startswith(os.getcwd()), armi.__file__
import io, tempfile, contextlib
import h5py
from armi import interfaces, runLog
from armi.testing import loadTestReactor, reduceTestReactorRings
from armi.bookkeeping.db.databaseInterface import DatabaseInterface

quiet = io.StringIO()


class Probe(interfaces.Interface):
    name = "probe"
    function = "probe"

    def __init__(self, r, cs):
        super().__init__(r, cs)
        self.coupler = interfaces.TightCoupler("keff", 1e-6, 4)
        self.n = 0

    def interactEveryNode(self, cycle, node):
        self.n = 0

    def interactCoupled(self, iteration):
        self.n += 1
        self.r.core.p.keff = 1.0 + 0.5 ** (8 * self.n)  # converges at the 3rd iteration

    def getTightCouplingValue(self):
        return self.r.core.p.keff


def run(debugAtInit, debugDB):
    os.chdir(tempfile.mkdtemp(prefix="C06-p1-"))
    err = None
    settings = {
        "nCycles": 1, "burnSteps": 1, "startCycle": 0, "startNode": 0, "db": True,
        "verbosity": "error", "tightCoupling": True, "tightCouplingMaxNumIters": 4,
    }
    if debugAtInit:
        settings["debugDB"] = True
    with contextlib.redirect_stdout(quiet), contextlib.redirect_stderr(quiet):
        try:
            o, r = loadTestReactor(customSettings=settings)
        except Exception as e:
            return "{}: {}".format(type(e).__name__, str(e)[:120]), None
        reduceTestReactorRings(r, o.cs, 2)
        runLog.setVerbosity("error")
        o.removeAllInterfaces()
        o.addInterface(Probe(r, o.cs))
        o.addInterface(DatabaseInterface(r, o.cs))
        o.getInterface("database").initDB()
        if debugDB and not debugAtInit:
            o.reattach(r, o.cs.modified(newSettings={"debugDB": True}))
        r.p.cycle, r.p.timeNode = 0, 0
        try:
            with o:
                o.operate()
        except Exception as e:
            err = "{}: {}".format(type(e).__name__, str(e)[:120])
    fn = o.cs.caseTitle + ".h5"
    with h5py.File(fn, "r") as f:
        plain = sorted(k for k in f.keys() if k.startswith("c") and len(k) == 6 or k.endswith("EOL"))
        return err, (plain, bool(f.attrs["successfulCompletion"]))


bad = 0
ref = run(False, False)
print("reference (no debugDB):", ref)
a = run(True, True)
print("(a) debugDB set in the settings: expected the run to start; observed:", a[0])
bad += a[0] is not None
b = run(False, True)
print("(b) debugDB + 3 coupled iterations: expected", ref, "(plus debug labels); observed:", b)
bad += b[0] is not None or b[1] != ref[1]
print("DEFECT" if bad else "OK")
sys.exit(1 if bad else 0)
