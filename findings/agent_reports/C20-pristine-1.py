"""Pristine defect (C20): lower-case XS type labels do not convert to their number and back.

_ALLOWABLE_XS_TYPE_LIST admits 'a'..'z' (CrossSectionGroupManager.getNextAvailableXsTypes hands them
out once A-Z are used), but getXSTypeLabelFromNumber(getXSTypeNumberFromLabel(x)) != x for all of
them: 'a','b','c' (97..99) raise ValueError, 'd'..'z' (100..122) come back as two control
characters, and every two-character label that starts with 'd'..'z' comes back wrong as well
(the writer emits 3 digits for those characters, the reader always cuts after 2).
Expected: every admissible label round-trips.
"""
import sys, os

sys.path.insert(0, os.getcwd())
hadLogs = os.path.exists("logs")
import atexit, shutil

atexit.register(lambda: (not hadLogs) and shutil.rmtree("logs", ignore_errors=True))
from armi import configure

configure(permissive=True)
import armi

assert armi.__file__.startswith(os.getcwd()), armi.__file__
from armi import runLog

runLog.setVerbosity("header")
from armi.physics.neutronics import crossSectionGroupManager as xsgm
from armi.reactor import blocks

bad = []
labels = list(xsgm._ALLOWABLE_XS_TYPE_LIST)
labels += [a + b for a in xsgm._ALLOWABLE_XS_TYPE_LIST for b in xsgm._ALLOWABLE_XS_TYPE_LIST]
for label in labels:
    num = xsgm.getXSTypeNumberFromLabel(label)
    try:
        back = xsgm.getXSTypeLabelFromNumber(num)
    except Exception as ee:
        back = "%s(%s)" % (type(ee).__name__, ee)
    if back != label:
        bad.append((label, num, back))

# what a database reload of a block with xsType 'a' does
src, dst = blocks.HexBlock("src"), blocks.HexBlock("dst")
src.p.xsType = "a"
try:
    dst.p.xsTypeNum = src.p.xsTypeNum
    blockResult = repr(dst.p.xsType)
except Exception as ee:
    blockResult = "%s(%s)" % (type(ee).__name__, ee)

if bad or blockResult != "'a'":
    print("DEFECT: %d of %d admissible XS type labels do not round-trip" % (len(bad), len(labels)))
    for label, num, back in bad[:5] + bad[26:29]:
        print("    label %r -> %d -> expected %r, observed %r" % (label, num, label, back))
    print("    block xsType 'a' -> xsTypeNum %d -> restoring gives %s" % (src.p.xsTypeNum, blockResult))
    sys.exit(1)
print("no defect observed")
sys.exit(0)
