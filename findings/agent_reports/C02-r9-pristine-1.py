"""Pristine armi: a component inside a block cut by symmetry lines (symmetry factor 3) accounts its
mass with the symmetry factor in getMass() but not in getMasses()/setMass()/addMass()/getNumberOfAtoms()."""
import sys, os; sys.path.insert(0, os.getcwd())
from armi import configure; configure(permissive=True)
import armi
assert armi.__file__.startswith(os.getcwd()), armi.__file__
from armi.reactor import blocks, components, assemblies, grids
from armi.reactor.flags import Flags

b = blocks.HexBlock("fuel", height=10.0)
for c in (
    components.Circle("fuel", "UZr", Tinput=25.0, Thot=600, od=0.76, id=0.0, mult=127.0),
    components.Circle("clad", "HT9", Tinput=25.0, Thot=450, od=0.80, id=0.77, mult=127.0),
    components.Hexagon("duct", "HT9", Tinput=25.0, Thot=400, op=16, ip=15.3, mult=1.0),
    components.DerivedShape("coolant", "Sodium", Tinput=25.0, Thot=400),
):
    b.add(c)
a = assemblies.HexAssembly("fuel")
a.spatialGrid = grids.AxialGrid.fromNCells(1)
a.add(b)
a.spatialLocator = grids.HexGrid.fromPitch(16.0, symmetry="third periodic")[0, 0, 0]
assert b.getSymmetryFactor() == 3.0
fuel = b.getComponent(Flags.FUEL)
bad = []
m, ms = fuel.getMass(), sum(fuel.getMasses().values())
print(f"expected sum(fuel.getMasses()) == fuel.getMass(): {ms!r} vs {m!r}")
if abs(m - ms) > 1e-8 * m:
    bad.append("getMasses")
atomsChildren = sum(c.getNumberOfAtoms("U235") for c in b)
atomsBlock = b.getNumberOfAtoms("U235")
print(f"expected sum of children's getNumberOfAtoms(U235) == block's: {atomsChildren!r} vs {atomsBlock!r}")
if abs(atomsChildren - atomsBlock) > 1e-8 * atomsBlock:
    bad.append("getNumberOfAtoms")
fuel.setMass("U235", 100.0)
got = fuel.getMass("U235")
print(f"expected fuel.getMass('U235') == 100.0 after fuel.setMass('U235', 100.0): {got!r}")
if abs(got - 100.0) > 1e-8:
    bad.append("setMass")
fuel.addMass("U235", 30.0)
got = fuel.getMass("U235")
print(f"expected 130.0 after fuel.addMass('U235', 30.0): {got!r}")
if abs(got - 130.0) > 1e-6:
    bad.append("addMass")
if bad:
    print("DEFECT shown for:", bad)
    sys.exit(1)
print("no defect")
