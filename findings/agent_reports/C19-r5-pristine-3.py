"""Pristine defect: several library materials have a zero density through one of the two density entry points.

Uranium (class attribute refDens = 19.07 is shadowed by Material.__init__'s self.refDens = 0.0),
Concrete, Cu and ZnO define density() but never set refDens, so pseudoDensity() - the one components use
for number densities - is 0.0 while density() is positive.  UThZr is the mirror image: pseudoDensity()
is ~16 g/cc but density() (Material.density -> refDens / f) is 0.0.
Expected: both density(T) and pseudoDensity(T) finite and positive for every non-void material.
"""
import sys, os
sys.path.insert(0, os.getcwd())
from armi import configure
configure(permissive=True)
import armi
assert armi.__file__.startswith(os.getcwd()), armi.__file__
import math

from armi import materials
from armi.materials import material as mm

skip = {"Material", "Fluid", "SimpleSolid", "FuelMaterial", "Custom", "Void", "_Mixture", "Water"}
bad = []
seen = set()
for cls in materials.iterAllMaterialClassesInNamespace(materials):
    if cls in seen or cls.__name__ in skip:
        continue
    seen.add(cls)
    m = cls()
    rng = [r for k, (r, u) in cls.propertyValidTemperature.items() if "dens" in k.lower() or "expansion" in k.lower()]
    Tk = 0.5 * (rng[0][0] + rng[0][1]) if rng else 600.0
    if rng and [u for k, (r, u) in cls.propertyValidTemperature.items() if "dens" in k.lower() or "expansion" in k.lower()][0] == "C":
        Tk += 273.15
    d, p = m.density(Tk=Tk), m.pseudoDensity(Tk=Tk)
    if not (d and p and d > 0 and p > 0):
        bad.append(cls.__name__)
        print(f"{cls.__name__}: at {Tk:.1f} K density() = {d}, pseudoDensity() = {p}, refDens = {m.refDens}")
print("expected: density() and pseudoDensity() both finite and > 0")
if bad:
    print("DEFECT observed for:", bad)
    sys.exit(1)
print("no defect")
