"""Pristine observation (C15, possibly by design): an interface listed in deferredInterfaceNames with
deferredInterfacesCycle = 1 is skipped only at BOL and at BOC of cycle 0; it is still called at
every time node and at EOC of cycle 0 (i.e. before the cycle at which it "begins normal
operations"), and it never receives interactBOL at all.

Run as: cd <armi tree> && /venv/bin/python C15-pristine-3.py ; exit 1 when the behaviour shows.
"""
import sys, os

sys.path.insert(0, os.getcwd())
from armi import configure

configure(permissive=True)
import contextlib, io
from types import SimpleNamespace
import armi

assert armi.__file__.startswith(os.getcwd())
from armi import interfaces, settings
from armi.operators.operator import Operator

LOG = []


class B(interfaces.Interface):
    name = "b"

    def interactBOL(self): LOG.append("BOL")
    def interactBOC(self, cycle=None): LOG.append(f"BOC{cycle}")
    def interactEveryNode(self, c, n): LOG.append(f"N{c}.{n}")
    def interactEOC(self, cycle=None): LOG.append(f"EOC{cycle}")
    def interactEOL(self): LOG.append("EOL")


cs = settings.Settings().modified(newSettings={
    "nCycles": 2, "burnSteps": 1, "power": 1.0, "cycleLength": 10.0,
    "deferredInterfaceNames": ["b"], "deferredInterfacesCycle": 1,
})
r = SimpleNamespace(
    p=SimpleNamespace(cycle=0, timeNode=0, time=0.0, cycleLength=None, availabilityFactor=None,
                      capacityFactor=None, stepLength=None),
    core=SimpleNamespace(p=SimpleNamespace(coupledIteration=0, power=0.0), getHMMass=lambda: 1.0), o=None)
with contextlib.redirect_stdout(io.StringIO()):
    o = Operator(cs)
    o.r = r
    o.addInterface(B(r, cs))
    o.operate()
if os.path.isdir("logs") and not os.listdir("logs"):
    os.rmdir("logs")
expected = ["BOC1", "N1.0", "N1.1", "EOC1", "EOL"]
print("expected calls on deferred interface (nothing before cycle 1):", expected)
print("observed calls on deferred interface:", LOG)
bad = LOG != expected
print("DEFECT" if bad else "OK")
sys.exit(1 if bad else 0)
