"""C16 pristine defect 2: if the spatial grid object of something inside the scope is *replaced*
while the scope is open (Assembly.reestablishBlockOrder() does that, and it is what one calls after
adding/removing a block), leaving the scope raises TypeError from StructuredGrid.restoreBackup()
(the new grid has no backup) and the unwinding stops half-way: the old grid is not put back and
objects later in the traversal are left un-restored with their backup stacks still pushed.
"""
import sys, os

sys.path.insert(0, os.getcwd())
from armi import configure

configure(permissive=True)

import armi

assert armi.__file__.startswith(os.getcwd()), armi.__file__

from armi.reactor import assemblies, blocks, grids
from armi.reactor.components import Circle, DerivedShape, Hexagon


def buildBlock():
    b = blocks.HexBlock("fuel", height=10.0)
    fuel = Circle("fuel", "UZr", Tinput=25.0, Thot=600.0, od=0.76, id=0.0, mult=127.0)
    bond = Circle("bond", "Sodium", Tinput=450.0, Thot=450.0, od="clad.id", id="fuel.od", mult="fuel.mult")
    clad = Circle("clad", "HT9", Tinput=25.0, Thot=470.0, od=1.00, id=0.90, mult="fuel.mult")
    duct = Hexagon("duct", "HT9", Tinput=25.0, Thot=450.0, op=16.0, ip=15.0, mult=1.0)
    coolant = DerivedShape("coolant", "Sodium", Tinput=450.0, Thot=450.0)
    comps = {c.name: c for c in (fuel, bond, clad, duct, coolant)}
    for c in comps.values():
        c.resolveLinkedDims(comps)
        b.add(c)
    return b


a = assemblies.HexAssembly("fuel")
a.spatialGrid = grids.AxialGrid.fromNCells(1)
a.spatialGrid.armiObject = a
b0 = buildBlock()
a.add(b0)
a.reestablishBlockOrder()
a.calculateZCoords()
gridBefore = a.spatialGrid
boundsBefore = [list(x) if x is not None else None for x in a.spatialGrid._bounds]
b0.p.power = 1.0
err = None
try:
    with a.retainState():
        b0.p.power = 2.0
        a.add(buildBlock())
        a.reestablishBlockOrder()  # installs a brand new AxialGrid
        a.calculateZCoords()
except Exception as e:  # noqa
    err = e
print("expected: scope exits cleanly; grid bounds", boundsBefore[2], "and b0.p.power == 1.0 again")
print("observed: exception on exit:", repr(err))
print("observed: grid is the original object:", a.spatialGrid is gridBefore, "; z bounds now", list(a.spatialGrid._bounds[2]))
print("observed: b0.p.power =", b0.p.power, "; b0 backup still pushed:", b0.p._backup is not None)
if err is not None or a.spatialGrid is not gridBefore or b0.p.power != 1.0:
    print("DEFECT")
    sys.exit(1)
print("OK")
