"""
C06 pristine defect 3 (round 4): the history tracker's pre-load cache freezes the LIVE value of
the current step and keeps serving it after the step has been written with a different value.

HistoryTrackerInterface.preloadBlockHistoryVals(names, keys, steps) goes through
DatabaseInterface.getHistories, which fills the entry for the current (cycle, node) with the
live parameter value.  getBlockHistoryVal answers from the live reactor only while the current
step is not yet in the database; once it is, it answers from the pre-loaded data first.  So:
pre-load at node (0,1) (as a fuel-performance interface does before the flux solve), let a
later interface change the parameter, let the database interface write (0,1), then ask for
(0,1): the tracker returns the value frozen at pre-load time, which is neither the value in
snapshot c00n01 nor what the same call returns without pre-loading (the docstring promises
"the same results should be given if this method is not called").
"""
import sys, os

sys.path.insert(0, os.getcwd())
from armi import configure

configure(permissive=True)
import armi

assert armi.__file__.startswith(os.getcwd()), armi.__file__
import shutil
import tempfile

from armi import context, operators, runLog, settings
from armi.bookkeeping.historyTracker import HistoryTrackerInterface
from armi.reactor import reactors
from armi.tests import TEST_ROOT


def main():
    runLog.setVerbosity("error")
    start = os.getcwd()
    oldFast = context._FAST_PATH
    work = tempfile.mkdtemp(prefix="c06work")
    fast = tempfile.mkdtemp(prefix="c06fast")
    os.chdir(work)
    try:
        cs = settings.Settings(
            os.path.join(TEST_ROOT, "smallestTestReactor", "armiRunSmallest.yaml")
        )
        cs = cs.modified(
            newSettings={"verbosity": "error", "db": True, "nCycles": 1, "burnSteps": 2}
        )
        o = operators.factory(cs)
        context._FAST_PATH = fast
        r = reactors.loadFromCs(cs)
        o.initializeInterfaces(r)
        dbi = o.getInterface("database")
        ht = o.getInterface("history")
        if ht is None:
            ht = HistoryTrackerInterface(o.r, o.cs)
            ht.o = o
            o.interfaces.insert(0, ht)
        dbi.initDB()
        b = o.r.core[0][0]
        name = b.getName()

        o.r.p.cycle, o.r.p.timeNode = 0, 0
        b.p.power = 100.0
        dbi.interactEveryNode(0, 0)

        o.r.p.timeNode = 1
        b.p.power = 111.0  # value carried over / guessed at the start of the node
        ht.preloadBlockHistoryVals([name], ["power"], [(0, 0), (0, 1)])
        b.p.power = 222.0  # the physics of node (0,1) updates it
        dbi.interactEveryNode(0, 1)  # snapshot c00n01 holds 222

        withPreload = ht.getBlockHistoryVal(name, "power", (0, 1))
        ht.unloadBlockHistoryVals()
        withoutPreload = ht.getBlockHistoryVal(name, "power", (0, 1))
        inSnapshot = float(dbi.database.h5db["c00n01/HexBlock/power"][0])
        dbi.database.close(True)
    finally:
        os.chdir(start)
        context._FAST_PATH = oldFast
        context._FAST_PATH_IS_TEMPORARY = False
        shutil.rmtree(work, ignore_errors=True)
        shutil.rmtree(fast, ignore_errors=True)
    print("power of the block in snapshot c00n01        :", inSnapshot)
    print("expected getBlockHistoryVal(.., (0,1))       :", inSnapshot)
    print("observed without pre-loading                 :", withoutPreload)
    print("observed with pre-loading (done before write):", withPreload)
    if withPreload != inSnapshot or withoutPreload != inSnapshot:
        print("DEFECT SHOWN: pre-loaded history serves a stale live value for a written step")
        return 1
    print("no defect")
    return 0


if __name__ == "__main__":
    sys.exit(main())
