"""C05 pristine defect 4: FlagSerializer's conversion between writer and reader flag sets treats the
INDEX of a flag in sortedFields() as its BIT position (both when decoding the stored bits and when
building the new value). That only holds when flag values are the contiguous powers 1,2,4,...
Flag classes may legally carry explicit values (class body ints, Flags.extend({"X": 1 << n}) from a
plugin), and then a reordered reader silently decodes a flag set to a different meaning (or dies
with KeyError at read time).  In addition Flag._registerField's collision guard compares the new
VALUE with the dict of NAMES (``assert value not in cls._nameToValue``) so it never fires and two
flags may share one bit."""
import sys, os

sys.path.insert(0, os.getcwd())
hadLogs = os.path.exists(os.path.join(os.getcwd(), "logs"))
from armi import configure

configure(permissive=True)
import armi

assert armi.__file__.startswith(os.getcwd()), armi.__file__

import atexit
import shutil

if not hadLogs:
    atexit.register(shutil.rmtree, os.path.join(os.getcwd(), "logs"), True)

from armi.reactor.composites import FlagSerializer
from armi.utils.flags import Flag, auto


class WriterFlags(Flag):
    FUEL = 1
    PLUGIN = 4  # hand-numbered, leaves bit 1 unused
    DUCT = 8


class ReaderFlags(Flag):  # same flags, different numbering/order
    DUCT = auto()
    FUEL = auto()
    PLUGIN = auto()


rc = 0
for written in (
    [WriterFlags.PLUGIN, WriterFlags.FUEL, WriterFlags.FUEL | WriterFlags.PLUGIN],
    [WriterFlags.PLUGIN, WriterFlags.FUEL | WriterFlags.DUCT, WriterFlags.DUCT],
):
    names = [sorted(f._flagsOn()) for f in written]
    packed, attrs = FlagSerializer._packImpl(written, WriterFlags)
    print("written :", names)
    try:
        read = FlagSerializer._unpackImpl(packed, FlagSerializer.version, attrs, ReaderFlags)
        got = [sorted(f._flagsOn()) for f in read]
        print("observed:", got)
        if got != names:
            print("DEFECT: flag sets changed meaning between writing and reading")
            rc = 1
    except Exception as ee:
        print("observed: DEFECT, error at read time {}: {}".format(type(ee).__name__, ee))
        rc = 1


class F(Flag):
    A = auto()
    B = auto()


try:
    F.extend({"C": 2})  # collides with B
    print("extend with a colliding explicit value was accepted: B={} C={} -> F.B == F.C is {}".format(
        int(F.B), int(F.C), F.B == F.C))
    print("DEFECT: expected an AssertionError (the guard checks the value against the flag NAMES)")
    rc = 1
except AssertionError:
    print("colliding explicit value rejected: fine")

sys.exit(rc)
