"""C13 pristine defect 5: addEdgeAssemblies halves the volume-integrated parameters of the copy it puts on the 120-degree
line (Assembly.moveTo rescales by the symmetry factor) but leaves the source on the 0-degree line at its full value, although both
are now half assemblies.  The third-core total of e.g. power grows by adding edge assemblies and full core != 3 x third core."""
import sys, os; sys.path.insert(0, os.getcwd())
hadLogs = os.path.exists("logs")
from armi import configure; configure(permissive=True)
import io, contextlib, shutil, atexit
import armi
assert armi.__file__.startswith(os.getcwd()), armi.__file__
from armi import runLog
from armi.testing import loadTestReactor, reduceTestReactorRings
from armi.reactor.converters.geometryConverters import ThirdCoreHexToFullCoreChanger, EdgeAssemblyChanger
atexit.register(lambda: (not hadLogs) and os.path.isdir("logs") and shutil.rmtree("logs", ignore_errors=True))
def load(rings):
    with contextlib.redirect_stdout(io.StringIO()):
        o, r = loadTestReactor()
        reduceTestReactorRings(r, o.cs, rings)
    runLog.setVerbosity("error")
    return o, r

o, r = load(5)
core = r.core
for b in core.iterBlocks():
    b.p.power = 100.0 * b.getVolume() / 1000.0  # uniform power density: the centre already carries 1/3
def total():
    return sum(b.p.power for b in core.iterBlocks())
p0 = total()
edge = EdgeAssemblyChanger()
edge.addEdgeAssemblies(core)
p1 = total()
lo = core.getAssemblyWithStringLocation("003-012")
up = core.getAssemblyWithStringLocation("003-004")
conv = ThirdCoreHexToFullCoreChanger(o.cs)
conv.convert(r)
p2 = total()
print("expected: total power unchanged by adding edge assemblies, both half assemblies carry half; full = 3 x third")
print("observed: third-core total {} -> {} with edge assemblies (x{:.6f})".format(p0, p1, p1 / p0))
print("observed: block 1 power of 003-012 = {}, of its edge copy 003-004 = {} (both have symmetry factor 2)".format(lo[1].p.power, up[1].p.power))
print("observed: full / third(with edges) = {:.6f}, full / third(no edges) = {:.6f}".format(p2 / p1, p2 / p0))
bad = abs(p1 / p0 - 1) > 1e-9 or abs(p2 / p1 - 3) > 1e-9
print("FAIL" if bad else "PASS")
sys.exit(1 if bad else 0)
