"""Pristine armi: on a block where one component holds elemental ZR and another holds ZR isotopes,
getMassFrac('ZR') (element selection) disagrees with getMass('ZR')/getMass()."""
import sys, os; sys.path.insert(0, os.getcwd())
from armi import configure; configure(permissive=True)
import armi
assert armi.__file__.startswith(os.getcwd()), armi.__file__
from armi.reactor import blocks, components
from armi.reactor.flags import Flags

b = blocks.HexBlock("fuel", height=10.0)
fuel = components.Circle("fuel", "UZr", Tinput=25.0, Thot=600, od=0.76, id=0.0, mult=127.0)
clad = components.Circle("clad", "HT9", Tinput=25.0, Thot=450, od=0.80, id=0.77, mult=127.0)
duct = components.Hexagon("duct", "HT9", Tinput=25.0, Thot=400, op=16, ip=15.3, mult=1.0)
cool = components.DerivedShape("coolant", "Sodium", Tinput=25.0, Thot=400)
for c in (fuel, clad, duct, cool):
    b.add(c)
print("fuel nuclides:", sorted(fuel.getNuclides()))
# the clad gets zirconium as isotopes, the fuel keeps elemental ZR (or vice versa)
if "ZR" in fuel.getNuclides():
    clad.setNumberDensity("ZR90", 1e-3)
    clad.setNumberDensity("ZR91", 2e-4)
else:
    clad.setNumberDensity("ZR", 1e-3)
fromMass = b.getMass("ZR") / b.getMass()
fromFrac = b.getMassFrac("ZR")
print(f"expected getMassFrac('ZR') == getMass('ZR')/getMass(): {fromFrac!r} vs {fromMass!r}")
if abs(fromMass - fromFrac) > 1e-9:
    print("DEFECT")
    sys.exit(1)
print("no defect")
