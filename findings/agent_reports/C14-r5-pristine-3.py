"""Pristine defect: dischargeSwap(fresh, outgoing) with stationary blocks exchanges the grid plates
BEFORE the fresh assembly gets its real number. The plate that ends up in the outgoing assembly
(now in the spent fuel pool) is still called B-<random negative>-000 and is in no lookup; the plate
that stays in the core is renamed by Core.add (renumber) from B<out>-000 to B<new>-000 but
blocksByName keeps the old key. When the new assembly is later purged, the stale key stays and
getBlockByName hands out a block of a purged assembly."""
import sys, os; sys.path.insert(0, os.getcwd())
from armi import configure; configure(permissive=True)
import armi
assert armi.__file__.startswith(os.getcwd()), armi.__file__


def quiet(fn, *a, **k):
    sys.stdout.flush()
    saved = os.dup(1); devnull = os.open(os.devnull, os.O_WRONLY); os.dup2(devnull, 1)
    try:
        return fn(*a, **k)
    finally:
        sys.stdout.flush(); os.dup2(saved, 1); os.close(devnull); os.close(saved)


from armi.testing import loadTestReactor
from armi.physics.fuelCycle import fuelHandlers
o, r = quiet(loadTestReactor, customSettings={"trackAssems": True})
core, sfp = r.core, r.excore["sfp"]
fh = fuelHandlers.FuelHandler(o)
out = core.getAssemblyWithStringLocation("004-002")
new = quiet(core.createAssemblyOfType, out.getType())
quiet(fh.dischargeSwap, new, out)
bad = 0
print("expected: every block of the core and the pool is found by getBlockByName under its name")
for a in list(core) + list(sfp):
    for b in a:
        if core.blocksByName.get(b.getName()) is not b:
            print("observed: block %s of %s (%s) is not in blocksByName" % (
                b.getName(), a.getName(), "pool" if a in sfp else "core"))
            bad += 1
stale = [n for n, b in core.blocksByName.items() if b.getName() != n]
for n in stale:
    print("observed: blocksByName[%s] is a block now called %s" % (n, core.blocksByName[n].getName()))
    bad += 1
quiet(core.removeAssembly, new, False)
print("expected: after purging %s none of its blocks can be looked up" % new.getName())
for n, b in core.blocksByName.items():
    if b.parent is new:
        print("observed: blocksByName[%s] still returns block %s of the purged %s" % (n, b.getName(), new.getName()))
        bad += 1
print("FAIL (%d problems)" % bad if bad else "PASS")
sys.exit(1 if bad else 0)
