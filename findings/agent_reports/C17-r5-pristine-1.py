"""C17 on the UNCHANGED tree: long strings containing a run of two blanks do not survive the writer.

The settings writer dumps with ruamel's default line width (80). A long plain scalar is folded at
blanks; when the fold falls on a run of two blanks one of them is lost on reading (comment,
list-of-string settings), and a long mapping key of that shape (versions, moduleVerbosity) is folded
into something that is not valid YAML at all, so the written file cannot be read back.
"""
import sys, os; sys.path.insert(0, os.getcwd())
import io
from armi import configure; configure(permissive=True)
import armi
assert armi.__file__.startswith(os.getcwd()), armi.__file__
from armi import settings

problems = []
text = "x" * 100 + "  " + "y" * 100  # two blanks in the middle of a long string

for name, val in (("comment", text), ("copyFilesFrom", [text])):
    cs = settings.Settings()
    cs[name] = val
    for style in ("short", "full"):
        s = io.StringIO()
        cs.writeToYamlStream(s, style=style)
        cs2 = settings.Settings()
        cs2.loadFromString(s.getvalue())
        if cs2[name] != val:
            problems.append(
                f"{name} ({style}): expected the string with 2 blanks between the x's and y's "
                f"(len {len(text)}), read back len {len(cs2[name] if name == 'comment' else cs2[name][0])}"
            )

key = "a  b" * 30
cs = settings.Settings()
cs["versions"] = {key: "1.0"}
s = io.StringIO()
cs.writeToYamlStream(s)
try:
    cs2 = settings.Settings()
    cs2.loadFromString(s.getvalue())
    if cs2["versions"].get(key) != "1.0":
        problems.append(f"versions: long key not found after write/read: {list(cs2['versions'])!r:.100}")
except Exception as e:
    problems.append(f"versions with a long key: the file ARMI wrote cannot be read: {type(e).__name__}: {str(e)[:80]}")

if problems:
    print("DEFECT (expected: equal values after write/read)")
    for p in problems:
        print("  " + p)
    sys.exit(1)
print("no defect observed")
