"""C17 on the UNCHANGED tree: a copy of a compound setting forgets how to serialise itself.

``Setting.__copy__`` always builds a plain ``Setting``; for ``XSSettingDef`` / ``TightCouplingSettingDef``
(and ``FlagListSetting``) the copy therefore loses the ``dump`` override. ``Settings.getSetting`` hands
out such copies and ``Settings.modified`` stores a copy of any Setting it is given, so

    mod = cs.modified(newSettings={name: cs.getSetting(name)})

yields a settings object whose cross-section / tight-coupling setting cannot be written any more
(RepresenterError), in any style.
"""
import sys, os; sys.path.insert(0, os.getcwd())
import io
from armi import configure; configure(permissive=True)
import armi
assert armi.__file__.startswith(os.getcwd()), armi.__file__
from armi import settings

cs = settings.Settings()
cs["crossSectionControl"] = {"AA": {"geometry": "0D"}}
cs["tightCouplingSettings"] = {"globalFlux": {"parameter": "keff", "convergence": 1e-4}}
problems = []
for name in ("crossSectionControl", "tightCouplingSettings"):
    st = cs.getSetting(name)
    if type(st) is not type(dict(cs.items())[name]):
        problems.append(f"getSetting({name!r}) is a {type(st).__name__}, the setting is a {type(dict(cs.items())[name]).__name__}")
    mod = cs.modified(newSettings={name: st})
    try:
        s = io.StringIO()
        mod.writeToYamlStream(s)
        cs2 = settings.Settings()
        cs2.loadFromString(s.getvalue())
        if list(cs2[name].keys()) != list(cs[name].keys()):
            problems.append(f"{name}: read back {cs2[name]}")
    except Exception as e:
        problems.append(f"{name}: modified copy cannot be written: {type(e).__name__}: {str(e)[:90]}")
if problems:
    print("DEFECT (expected: the modified copy writes and reads back equal)")
    for p in problems:
        print("  " + p)
    sys.exit(1)
print("no defect observed")
