"""Pristine defect: rebuilding the nuclide directory leaves every Element pointing at the OLD
(orphaned) nuclide objects.

Sequence: nuclideBases.destroyGlobalNuclides(); nuclideBases.factory()   (what the test-suite's
setUpClass and any "re-initialise the directory" code does).

Expected: afterwards each nuclide of the directory belongs to the element with its atomic number,
i.e. the objects in elements.byZ[z].nuclides ARE the objects in nuclideBases.byName / instances.
Observed: Element.append() skips a nuclide that compares equal to one already in the list
(INuclide.__eq__ is hash((a, z, state)) equality), and destroyGlobalNuclides() never empties
Element.nuclides, so the elements keep the pre-rebuild objects. Data later attached to the live
nuclides (burn chain decays/transmutations, MC2 ids, changed labels) is invisible through
element.nuclides / getNaturalIsotopics() / NaturalNuclideBase expansion.
"""
import sys, os

sys.path.insert(0, os.getcwd())
from armi import configure

configure(permissive=True)
import armi

assert armi.__file__.startswith(os.getcwd()), armi.__file__
from armi.context import RES
from armi.nucDirectory import elements, nuclideBases

nuclideBases.destroyGlobalNuclides()
nuclideBases.factory()
nuclideBases.burnChainImposed = False
with open(os.path.join(RES, "burn-chain.yaml")) as f:
    nuclideBases.imposeBurnChain(f)

stale = 0
total = 0
for nuc in nuclideBases.instances:
    total += 1
    if not any(member is nuc for member in nuc.element.nuclides):
        stale += 1

u238 = nuclideBases.byName["U238"]
viaElement = [n for n in elements.byZ[92].nuclides if n.name == "U238"][0]
print("expected: every live nuclide is (by identity) a member of its element's nuclide list")
print("observed: {} of {} live nuclides are NOT in element.nuclides".format(stale, total))
print(
    "          byName['U238'] has {} transmutations/decays, elements.byZ[92] U238 has {}; same object: {}".format(
        len(u238.trans) + len(u238.decays),
        len(viaElement.trans) + len(viaElement.decays),
        viaElement is u238,
    )
)
if stale:
    print("DEFECT")
    sys.exit(1)
print("OK")
sys.exit(0)
