"""
PRISTINE defects (C05), all in Database._writeParams' plain `np.array(temp)` path, which lets numpy
pick a common dtype and never checks that the conversion kept the values:
  a) [1, "a"]            is stored as the strings ["1", "a"]  (an int reads back as a str)
  b) [2**63 + 1, 1]      is stored as float64 (value rounded to 9.223372036854775808e18, kind changed)
  c) a fixed-shape array parameter without unset entries reads back as nested Python *lists*, while
     the same parameter with one unset entry (or ragged shapes) reads back as numpy arrays, i.e.
     the documented normalisation "sequences come back as arrays" is applied the other way round.

Run: cd <armi tree> && /venv/bin/python /tmp/seedout4/C05-pristine-4.py   (exit 1 = defect shown)
"""
import sys, os

sys.path.insert(0, os.getcwd())
from armi import configure

configure(permissive=True)
import armi

assert armi.__file__.startswith(os.getcwd())
import shutil, tempfile
import numpy as np
from armi.bookkeeping.db.database import Database
from armi.reactor import components


def mk(i):
    return components.Circle("c%d" % i, "HT9", 20, 20, od=1.0 + i, id=0.0, mult=1)


def roundTrip(values, name="pinNum"):
    comps = [mk(i) for i in range(len(values))]
    for c, v in zip(comps, values):
        c.p[name] = v
    d = tempfile.mkdtemp()
    db = Database(os.path.join(d, "x.h5"), "w")
    db.open()
    try:
        g = db.h5db.create_group("c00n00")
        db._writeParams(g, comps)
        new = [mk(i) for i in range(len(values))]
        Database._readParams(g, "Circle", new)
        return [c.p[name] for c in new]
    finally:
        db.close(True)
        shutil.rmtree(d, ignore_errors=True)


bad = False
for label, vals, check in (
    ("a) int next to str", [1, "a"], lambda o: o[0] == 1 and not isinstance(o[0], str)),
    ("b) int beyond int64", [2**63 + 1, 1], lambda o: o[0] == 2**63 + 1 and isinstance(o[1], int)),
    ("c) fixed-shape arrays", [np.array([1.0, 2.0]), np.array([3.0, 4.0])], lambda o: isinstance(o[0], np.ndarray)),
    ("c') same with an unset entry", [np.array([1.0, 2.0]), None], lambda o: isinstance(o[0], np.ndarray)),
):
    try:
        out = roundTrip(vals)
        ok = check(out)
        print("%s: wrote %r -> read %r (%s)%s" % (label, vals, out, type(out[0]).__name__, "" if ok else "   <-- differs"))
    except Exception as ee:
        ok = True  # rejected at write time is acceptable
        print("%s: wrote %r -> rejected with %s" % (label, vals, type(ee).__name__))
    bad |= not ok
if bad:
    print("DEFECT shown")
    sys.exit(1)
print("no defect")
