"""C10 pristine defect 4 (probably known/by design): merge-order dependence and empty composition.

(a) _mergeNeutronEnergies keeps the neutron velocity of whichever neutron library was merged first, so
    merging ISOAA then ISOAB gives a different library than ISOAB then ISOAA.
(b) computeMacroscopicGroupConstants returns None (not a zero vector) for an empty composition or one whose
    densities are all zero.
"""
import sys, os

sys.path.insert(0, os.getcwd())
from armi import configure

configure(permissive=True)
import armi

assert armi.__file__.startswith(os.getcwd()), armi.__file__
import numpy as np
from armi.nuclearDataIO import xsLibraries, xsNuclides, xsCollections
from armi.nuclearDataIO.cccc import isotxs


fx = os.path.join(os.getcwd(), "armi", "nuclearDataIO", "tests", "fixtures")


def merged(order):
    lib = xsLibraries.IsotxsLibrary()
    for f in order:
        lib.merge(isotxs.readBinary(os.path.join(fx, f)))
    return lib


a = merged(["ISOAA", "ISOAB"])
b = merged(["ISOAB", "ISOAA"])
bad = False
same = np.array_equal(a.neutronVelocity, b.neutronVelocity)
print("(a) expected identical neutronVelocity for both merge orders; identical: {}".format(same))
if not same:
    print("    AA,AB -> {}   AB,AA -> {}".format(a.neutronVelocity[1:3], b.neutronVelocity[1:3]))
    bad = True
for comp in ({}, {"U235": 0.0}):
    res = xsCollections.computeMacroscopicGroupConstants("fission", comp, a, "AA", libType="micros")
    print("(b) composition {}: expected zero vector of {} groups, observed {}".format(comp, a.numGroups, res))
    if res is None:
        bad = True
if bad:
    print("DEFECT")
    sys.exit(1)
print("no defect")
sys.exit(0)
