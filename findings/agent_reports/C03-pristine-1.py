"""Pristine defect (C03, linked-dimension clause): chained dimension links leave a stale
cached volume.

If component C links a dimension to a dimension of B that is itself a link to A
(C.od -> B.id -> A.od), then A.setTemperature() only invalidates the cached volume of
the DIRECT dependents of A (B).  C.getDimension()/getArea() follow A correctly, but
C.getVolume() (and therefore C.getMass() and the block's DerivedShape/coolant volume,
which is maxVolume - sum(sibling.getVolume())) keep using the volume from before the
temperature change.

Run: cd <armi tree> && python C03-pristine-1.py   (exit 1 when the defect shows)
"""
import sys, os

sys.path.insert(0, os.getcwd())
from armi import configure

configure(permissive=True)
import armi

assert armi.__file__.startswith(os.getcwd()), armi.__file__

import math
from armi.reactor import blocks
from armi.reactor.components import Circle, Hexagon, DerivedShape

height = 10.0
n = 19
b = blocks.HexBlock("fuel", height=height)
slug = Circle("fuel", "UZr", Tinput=25.0, Thot=400.0, od=0.80, id=0.30, mult=n)
comps = {"fuel": slug}
# a liner bonded to the inner surface of the annular fuel: its OD follows fuel.id
liner = Circle("liner", "HT9", Tinput=25.0, Thot=400.0, od="fuel.id", id=0.25, mult=n, components=comps)
comps["liner"] = liner
# central void defined relative to the liner's outer surface (which is itself a link)
hole = Circle("hole", "Sodium", Tinput=25.0, Thot=400.0, od="liner.od", id=0.0, mult=n, components=comps)
# NOTE: hole deliberately overlaps the liner; only the bookkeeping matters here
duct = Hexagon("duct", "HT9", Tinput=25.0, Thot=400.0, op=6.0, ip=5.6, mult=1)
cool = DerivedShape("coolant", "Sodium", Tinput=25.0, Thot=400.0)
for c in (slug, liner, hole, duct, cool):
    b.add(c)

v0 = hole.getVolume()  # fills cache
_ = cool.getVolume()
slug.setTemperature(650.0)

od = hole.getDimension("od")
expected = n * math.pi / 4.0 * od**2 * height
print("fuel.id now            :", slug.getDimension("id"))
print("hole.od (via 2 links)  :", od)
print("hole.getArea()*height  :", hole.getArea() * height)
print("hole.getVolume()       :", hole.getVolume(), "(value before heating was", v0, ")")
bad = abs(hole.getVolume() / expected - 1) > 1e-12
if bad:
    print("DEFECT: expected volume", expected, "observed", hole.getVolume(),
          "-> stale by %.3f %%" % (100 * (hole.getVolume() / expected - 1)))
    sys.exit(1)
print("no defect observed")
sys.exit(0)
