"""C13 pristine defect 5: a re-used ThirdCoreHexToFullCoreChanger scales the centre with a stale parameter list.

The list of volume-integrated parameters to scale on the centre assembly is computed at the first
convert() and never reset.  A parameter first assigned after that (here mgFlux) is not multiplied by
three by a later convert() of the same changer, while a fresh changer does scale it.
"""
import sys, os

sys.path.insert(0, os.getcwd())
from armi import configure

configure(permissive=True)
import armi

assert armi.__file__.startswith(os.getcwd()), armi.__file__
import shutil
import numpy as np
from armi import runLog
from armi.reactor import grids, zones
from armi.reactor.converters import geometryConverters
from armi.reactor.tests.test_reactors import TEST_ROOT, loadTestReactor, reduceTestReactorRings

runLog.setVerbosity("error")


def finish(rc):
    shutil.rmtree(os.path.join(os.getcwd(), "logs"), ignore_errors=True)
    sys.exit(rc)


o, r = loadTestReactor(TEST_ROOT)
reduceTestReactorRings(r, o.cs, 3)
core = r.core
changer = geometryConverters.ThirdCoreHexToFullCoreChanger(o.cs)
changer.convert(r)
changer.restorePreviousGeometry(r)
for b in core.iterBlocks():
    b.p.mgFlux = np.array([1.0, 2.0])
thirdTotal = sum(b.p.mgFlux for b in core.iterBlocks())
centre = core.getAssemblyWithStringLocation("001-001")
changer.convert(r)  # same changer, second conversion
fullTotal = sum(b.p.mgFlux for b in core.iterBlocks())
print("expected centre mgFlux [3. 6.], full-core total", 3 * thirdTotal)
print("observed centre mgFlux", centre[0].p.mgFlux, ", full-core total", fullTotal)
if not np.allclose(fullTotal, 3 * thirdTotal):
    print("DEFECT: volume-integrated total of the full core is not three times the third-core value")
    finish(1)
print("no defect observed")
finish(0)
