"""C12 pristine 4: an ExpansionData that is re-used for several steps (setAssembly once, then
set factors / axiallyExpandAssembly repeatedly -- the pattern of armi's own complexConservationTest)
keeps the factors of earlier steps: components that are not mentioned in a later step are expanded
AGAIN by their old factor.  The same happens in the thermal variant when only some components get
updateComponentTemp in a later step (their componentReferenceTemperature is never cleared).
Expected (property C12): a step that prescribes growth only for the plenum clad leaves the fuel
blocks' heights unchanged."""
import sys, os

sys.path.insert(0, os.getcwd())
from armi import configure

configure(permissive=True)
import armi

assert armi.__file__.startswith(os.getcwd()), armi.__file__

import numpy as np
from armi.reactor import grids
from armi.reactor.assemblies import HexAssembly
from armi.reactor.blocks import HexBlock
from armi.reactor.components import Circle, DerivedShape, Hexagon
from armi.reactor.converters.axialExpansionChanger import AxialExpansionChanger
from armi.reactor.converters.axialExpansionChanger.expansionData import (
    iterSolidComponents,
)
from armi.reactor.flags import Flags


def block(btype, h, mainMat="HT9", T=25.0, order=(0, 1, 2, 3, 4)):
    b = HexBlock(btype, height=h)
    comps = [
        Circle(btype, mainMat, Tinput=25.0, Thot=T, od=0.76, id=0.0, mult=127.0),
        Circle("clad", "HT9", Tinput=25.0, Thot=T, od=0.80, id=0.77, mult=127.0),
        Hexagon("duct", "HT9", Tinput=25.0, Thot=T, op=16, ip=15.3, mult=1.0),
        DerivedShape("coolant", "Sodium", Tinput=25.0, Thot=T),
        Hexagon("intercoolant", "Sodium", Tinput=25.0, Thot=T, op=17.0, ip=16.0, mult=1.0),
    ]
    for i in order:
        b.add(comps[i])
    b.setType(btype)
    b.getVolumeFractions()
    return b


def dummy(h, T=25.0):
    b = HexBlock("dummy", height=h)
    b.add(Hexagon("dummy coolant", "Sodium", Tinput=25.0, Thot=T, op=17, ip=0.0, mult=1.0))
    b.getVolumeFractions()
    b.setType("dummy")
    return b


def buildAssembly(fuelMat="UZr", order=(0, 1, 2, 3, 4)):
    """shield / fuel / fuel / plenum / dummy pin assembly; fuel pins are UZr, structure is HT9."""
    a = HexAssembly("fuel")
    a.spatialGrid = grids.AxialGrid.fromNCells(numCells=1)
    a.spatialGrid.armiObject = a
    a.add(block("shield", 10.0))
    a.add(block("fuel", 12.0, fuelMat, order=order))
    a.add(block("fuel", 14.0, fuelMat, order=order))
    a.add(block("plenum", 16.0))
    a.add(dummy(20.0))
    a.calculateZCoords()
    a.reestablishBlockOrder()
    return a


bad = []

a = buildAssembly()
changer = AxialExpansionChanger()
changer.setAssembly(a)
fuels = [b.getComponent(Flags.FUEL) for b in a[1:3]]
changer.expansionData.setExpansionFactors(fuels, [1.01, 1.01])
changer.axiallyExpandAssembly()
h1 = [b.getHeight() for b in a]
print("after step 1 (fuel x1.01)        :", h1)
changer.expansionData.setExpansionFactors([a[3].getComponent(Flags.CLAD)], [1.01])
changer.axiallyExpandAssembly()
h2 = [b.getHeight() for b in a]
print("after step 2 (plenum clad x1.01) :", h2)
for ib in (1, 2):
    if abs(h2[ib] - h1[ib]) > 1e-10:
        bad.append(
            f"expected fuel block {ib} height unchanged in step 2 ({h1[ib]!r}); observed {h2[ib]!r} "
            "(fuel grew by 1.01 a second time)"
        )

# thermal variant
a = buildAssembly()
changer = AxialExpansionChanger()
changer.setAssembly(a)
for b in a:
    for c in iterSolidComponents(b):
        changer.expansionData.updateComponentTemp(c, 300.0)
changer.expansionData.computeThermalExpansionFactors()
changer.axiallyExpandAssembly()
t1 = [b.getHeight() for b in a]
for c in iterSolidComponents(a[3]):  # only the plenum heats further
    changer.expansionData.updateComponentTemp(c, 400.0)
changer.expansionData.computeThermalExpansionFactors()
changer.axiallyExpandAssembly()
t2 = [b.getHeight() for b in a]
print("thermal, after all->300 C        :", t1)
print("thermal, after plenum->400 C     :", t2)
for ib in (0, 1, 2):
    if abs(t2[ib] - t1[ib]) > 1e-10:
        bad.append(
            f"expected block {ib} (temperature unchanged at 300 C) height unchanged ({t1[ib]!r}); observed {t2[ib]!r}"
        )

if bad:
    print("DEFECT SHOWN")
    for line in bad:
        print("  " + line)
    sys.exit(1)
print("no defect observed")
