"""C13 pristine defect 4: convert/restore of a third core WITH edge assemblies loses them for good.

convert() strips the edge assemblies with a private EdgeAssemblyChanger; restorePreviousGeometry does
not put them back, and the EdgeAssemblyChanger that added them still believes they are there, so a
further addEdgeAssemblies on it is skipped.
"""
import sys, os

sys.path.insert(0, os.getcwd())
from armi import configure

configure(permissive=True)
import armi

assert armi.__file__.startswith(os.getcwd()), armi.__file__
import shutil
import numpy as np
from armi import runLog
from armi.reactor import grids, zones
from armi.reactor.converters import geometryConverters
from armi.reactor.tests.test_reactors import TEST_ROOT, loadTestReactor, reduceTestReactorRings

runLog.setVerbosity("error")


def finish(rc):
    shutil.rmtree(os.path.join(os.getcwd(), "logs"), ignore_errors=True)
    sys.exit(rc)


o, r = loadTestReactor(TEST_ROOT)
reduceTestReactorRings(r, o.cs, 3)
core = r.core
edgeChanger = geometryConverters.EdgeAssemblyChanger()
edgeChanger.addEdgeAssemblies(core)
before = sorted(a.getLocation() for a in core)
changer = geometryConverters.ThirdCoreHexToFullCoreChanger(o.cs)
changer.convert(r)
changer.restorePreviousGeometry(r)
after = sorted(a.getLocation() for a in core)
edgeChanger.addEdgeAssemblies(core)
afterReAdd = sorted(a.getLocation() for a in core)
print("expected locations after convert+restore:", before)
print("observed locations after convert+restore:", after)
print("observed after calling addEdgeAssemblies again on the same changer:", afterReAdd)
if after != before:
    print("DEFECT: undoing the conversion did not return the core (with edge assemblies) to its previous state")
    finish(1)
print("no defect observed")
finish(0)
