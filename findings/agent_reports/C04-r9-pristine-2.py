import sys, os; sys.path.insert(0, os.getcwd())
from armi import configure; configure(permissive=True)
import armi, tempfile, shutil
assert armi.__file__.startswith(os.getcwd())
import numpy as np
from armi import runLog
runLog.setVerbosity("error")
from armi.testing import loadTestReactor, reduceTestReactorRings
from armi.bookkeeping.db.database import Database
from armi.reactor.tests.test_reactors import TEST_ROOT
o, r = loadTestReactor(TEST_ROOT, customSettings={"reloadDBName": "x.h5"})
reduceTestReactorRings(r, o.cs, maxNumRings=2)
# assigned values of persistent parameters that Core.processLoading(dbLoad=True) recomputes
b = r.core.getFirstBlock()
b.p.kgHM = 123.0
b.p.puFrac = 0.5
r.core.p.beta = 0.00321

d = tempfile.mkdtemp()
db = Database(os.path.join(d, "t.h5"), "w"); db.open(); db.writeInputsToDB(o.cs); db.writeToDB(r)
r2 = db.load(0, 0, cs=o.cs, bp=r.blueprints, allowMissing=True); db.close()
shutil.rmtree(d, ignore_errors=True); shutil.rmtree(os.path.join(os.getcwd(), "logs"), ignore_errors=True)
b2 = r2.core.getFirstBlock()
bad = []
for name, want, got in (("Block.kgHM", b.p.kgHM, b2.p.kgHM), ("Block.puFrac", b.p.puFrac, b2.p.puFrac), ("Core.beta", r.core.p.beta, r2.core.p.beta)):
    if want != got:
        bad.append("%s: expected %r after load, observed %r" % (name, want, got))

if bad:
    print("DEFECT (pristine): " + "; ".join(bad)); sys.exit(1)
print("no defect observed")
