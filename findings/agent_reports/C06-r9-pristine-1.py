"""Full history (timeSteps=None) reports, for the last node, the value of the labelled
(EOL / error) snapshot that shares its (cycle, node), not the value of the node's own snapshot."""
import sys, os; sys.path.insert(0, os.getcwd())
from armi import configure; configure(permissive=True)
import armi
assert armi.__file__.startswith(os.getcwd()), armi.__file__
import tempfile, shutil
from armi import runLog
from armi.reactor.tests.test_reactors import loadTestReactor, reduceTestReactorRings
from armi.tests import TEST_ROOT
from armi.bookkeeping.db.database import Database

runLog.setVerbosity("error")
o, r = loadTestReactor(TEST_ROOT, customSettings={"reloadDBName": "reloadingDB.h5"})
reduceTestReactorRings(r, o.cs, 2)
b = r.core.getBlocks()[0]
cwd = os.getcwd()
tmp = tempfile.mkdtemp(prefix="c06prist1_")
bad = None
try:
    os.chdir(tmp)
    db = Database("p1.h5", "w"); db.open(); db.writeInputsToDB(o.cs)
    r.p.cycle, r.p.timeNode = 0, 0; b.p.power = 10.0; db.writeToDB(r)
    r.p.timeNode = 1; b.p.power = 11.0; db.writeToDB(r)
    b.p.power = 99.0; db.writeToDB(r, "EOL")  # state changed at EOL, same (cycle, node)
    db.close(True)
    r.p.cycle, r.p.timeNode = 1, 0  # "now" is elsewhere
    with Database("p1.h5", "r") as rdb:
        full = dict(rdb.getHistory(b, ["power"])["power"])
        sel = dict(rdb.getHistory(b, ["power"], [(0, 0), (0, 1)])["power"])
        print("listed steps:", list(rdb.genTimeSteps()))
    print("history, explicit steps :", sel)
    print("history, all steps      :", full)
    if full.get((0, 1)) != 11.0:
        bad = f"expected power 11.0 at step (0,1) (value written at c00n01), observed {full.get((0, 1))} (value of c00n01EOL)"
finally:
    os.chdir(cwd)
    shutil.rmtree(tmp, ignore_errors=True)
    shutil.rmtree(os.path.join(cwd, "logs"), ignore_errors=True)
if bad:
    print("DEFECT:", bad); sys.exit(1)
print("no defect"); sys.exit(0)
