"""Pristine defect: elements cannot be retrieved by name/symbol through the documented helper functions.

elements.byName is keyed by the capitalised name read from elements.dat ("Neon"), but
elements.getName(symbol=..) looks up byName[symbol.upper()], and getSymbol/getElementZ(name=..)
(and nucDir.getElementName / getElementSymbol) look up byName[name.lower()].  All documented
examples (elements.getName(symbol='Ne') -> 'Neon', getSymbol(name='Neon') -> 'Ne',
getElementZ(name='Zirconium') -> 40) raise KeyError.
"""
import sys, os

sys.path.insert(0, os.getcwd())
from armi import configure

configure(permissive=True)
import armi

assert armi.__file__.startswith(os.getcwd()), armi.__file__
from armi.nucDirectory import elements, nucDir

cases = [
    (elements.getName, dict(symbol="Ne"), "Neon"),
    (elements.getSymbol, dict(name="Neon"), "NE"),
    (elements.getElementZ, dict(name="Zirconium"), 40),
    (nucDir.getElementName, dict(symbol="Zr"), "Zirconium"),
    (nucDir.getElementSymbol, dict(name="Neon"), "NE"),
]
bad = 0
for func, kwargs, expected in cases:
    try:
        got = func(**kwargs)
    except Exception as ee:
        got = ee
    flag = "ok" if got == expected else "DEFECT"
    bad += flag != "ok"
    print(f"{func.__module__}.{func.__name__}({kwargs}): expected {expected!r}, observed {got!r}  [{flag}]")
sys.exit(1 if bad else 0)
