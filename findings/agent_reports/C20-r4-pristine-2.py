"""Pristine defect: two different (xsType, envGroup) pairs land in the same XS group.

Block.getMicroSuffix returns a two-character xsType verbatim (env group 'A' is dropped), so a block
with xsType 'AB' in env group 'A' gets the same XS ID 'AB' as a block with xsType 'A' that burned
into env group 'B'.  With more than one burnup group nothing guards against this at the moment the
groups are made (the guard in getMicroSuffix only fires once the two-character block itself leaves
env group 'A'), so CrossSectionGroupManager averages the two unrelated block populations together.
"""
import sys, os

sys.path.insert(0, os.getcwd())
from armi import configure

configure(permissive=True)
import armi

assert armi.__file__.startswith(os.getcwd()), armi.__file__
import io, contextlib, shutil
from armi import runLog
from armi.reactor.flags import Flags
from armi.reactor.tests import test_reactors
from armi.tests import TEST_ROOT

hadLogs = os.path.exists("logs")
buf = io.StringIO()
with contextlib.redirect_stdout(buf), contextlib.redirect_stderr(buf):
    o, r = test_reactors.loadTestReactor(TEST_ROOT, customSettings={"buGroups": [10, 100]})
    runLog.setVerbosity("error")
    xsgm = o.getInterface("xsGroups")
    xsgm.interactBOL()
    fuel = [b for b in r.core.getBlocks(Flags.FUEL) if b.p.xsType == "A"]
    x, y = fuel[0], fuel[1]
    x.p.xsType = "AB"  # fresh block with a two-character type, stays in env group A
    y.p.percentBu = 50.0  # type 'A' block burned into env group B
    # make them physically very different so that averaging them is visibly wrong
    fx = x.getComponent(Flags.FUEL)
    fx.setNumberDensity("U235", fx.getNumberDensity("U235") * 3.0)
    groups = xsgm.makeCrossSectionGroups()
    xsgm.createRepresentativeBlocks()
if not hadLogs and os.path.isdir("logs"):
    shutil.rmtree("logs", ignore_errors=True)

print("expected: blocks with different (xsType, envGroup) are never members of the same group")
bad = 0
for xsID, coll in groups.items():
    pairs = sorted({(b.p.xsType, b.p.envGroup) for b in coll})
    if len(pairs) > 1:
        bad += 1
        print("observed: group {!r} holds blocks with (xsType, envGroup) = {}".format(xsID, pairs))
        rep = xsgm.representativeBlocks.get(xsID)
        if rep is not None:
            vals = [b.getNumberDensity("U235") for b in coll.getCandidateBlocks()]
            print("          its representative U235 density {:.5e} mixes member values {}".format(
                rep.getNumberDensity("U235"), ["%.5e" % v for v in vals]))
if bad:
    sys.exit(1)
print("observed: every group is homogeneous in (xsType, envGroup)")
sys.exit(0)
