"""C18 pristine defect 3: the block-area consistency check skips the first assembly design.

Blueprints._checkAssemblyAreaConsistency takes the first assembly as the reference and ``continue``s
before the per-block comparison, so an assembly whose blocks have different cross-section areas
(a 15.6 cm duct block under a 14.6 cm duct block) is refused when it is the second design but accepted
when it is the first (or only) design in the ``assemblies`` section.
Run as: cd <armi tree> && /venv/bin/python /tmp/seedout5/C18-pristine-3.py
"""
import sys, os

sys.path.insert(0, os.getcwd())
from armi import configure

configure(permissive=True)
import armi

assert armi.__file__.startswith(os.getcwd()), armi.__file__
sys.path.insert(0, os.path.dirname(os.path.abspath(__file__)))
from C18_pristine_common import HEAD, blocks

from armi import runLog, settings
from armi.reactor import blueprints

runLog.setVerbosity("error")

GOOD = """
    NAME:
        specifier: SPEC
        blocks: [*block_fuel, *block_fuel]
        height: [25.0, 25.0]
        axial mesh points: [1, 1]
        xs types: [A, A]
"""
BAD = GOOD.replace("[*block_fuel, *block_fuel]", "[*block_fuel, *block_small]")


def attempt(order):
    text = HEAD + blocks() + "\nassemblies:"
    for i, kind in enumerate(order):
        text += (GOOD if kind == "good" else BAD).replace("NAME", f"assem {kind}").replace("SPEC", f"S{i}")
    try:
        bp = blueprints.Blueprints.load(text)
        a = bp.constructAssem(settings.Settings(), name="assem bad")
    except Exception as e:
        return f"refused ({type(e).__name__})", True
    return f"built, block areas {[round(b.getArea(), 2) for b in a]}", False


results = {}
for order in (("good", "bad"), ("bad", "good"), ("bad",)):
    msg, refused = attempt(order)
    results[order] = refused
    print(f"designs in order {order}: expected refused (blocks of unequal area), observed {msg}")

if os.path.isdir("logs") and not os.listdir("logs"):
    os.rmdir("logs")
bad = not all(results.values())
print("DEFECT SHOWN" if bad else "no defect")
sys.exit(1 if bad else 0)
