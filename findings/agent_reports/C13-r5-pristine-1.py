"""C13 pristine defect 1: a third-core model that HAS edge assemblies loses them in convert() -> restorePreviousGeometry()
(convert removes them with a private EdgeAssemblyChanger and restore never puts them back), and the EdgeAssemblyChanger that
originally added them then refuses to add them again because its _newAssembliesAdded list is stale."""
import sys, os; sys.path.insert(0, os.getcwd())
hadLogs = os.path.exists("logs")
from armi import configure; configure(permissive=True)
import io, contextlib, shutil, atexit
import armi
assert armi.__file__.startswith(os.getcwd()), armi.__file__
from armi import runLog
from armi.testing import loadTestReactor, reduceTestReactorRings
from armi.reactor.converters.geometryConverters import ThirdCoreHexToFullCoreChanger, EdgeAssemblyChanger
atexit.register(lambda: (not hadLogs) and os.path.isdir("logs") and shutil.rmtree("logs", ignore_errors=True))
def load(rings):
    with contextlib.redirect_stdout(io.StringIO()):
        o, r = loadTestReactor()
        reduceTestReactorRings(r, o.cs, rings)
    runLog.setVerbosity("error")
    return o, r

o, r = load(5)
core = r.core
edge = EdgeAssemblyChanger()
edge.addEdgeAssemblies(core)
before = sorted((a.getLocation(), a.getName()) for a in core)
conv = ThirdCoreHexToFullCoreChanger(o.cs)
conv.convert(r)
conv.restorePreviousGeometry(r)
after = sorted((a.getLocation(), a.getName()) for a in core)
lost = [x for x in before if x not in after]
edge.addEdgeAssemblies(core)  # same changer that put them in: "already there"
afterReAdd = sorted(a.getLocation() for a in core)
print("expected: convert + restore returns the same", len(before), "assemblies at the same places")
print("observed:", len(after), "assemblies; lost", lost)
print("observed: re-adding with the original EdgeAssemblyChanger gives", len(afterReAdd), "assemblies (expected", len(before), ")")
bad = bool(lost) or len(afterReAdd) != len(before)
print("FAIL" if bad else "PASS")
sys.exit(1 if bad else 0)
