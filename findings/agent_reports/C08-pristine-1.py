"""Pristine defect (C08, quantifier "all k in Z"): HexAssembly.rotate refuses many exact
multiples of 60 degrees, notably most NEGATIVE ones (-180, -360, -300 ...), although
HexBlock.rotate handles the very same angle correctly.

The guard is ``math.isclose(rad % (math.pi / 3), 0, abs_tol=1e-12)``.  For k*60 degrees the
floating-point remainder is either ~0 or ~pi/3 (just below the modulus); only the first is
accepted, so e.g. rotate(-math.pi) raises "Rotation must be in 60 degree increments".
"""
import sys, os

sys.path.insert(0, os.getcwd())
from armi import configure

configure(permissive=True)

import copy
import math

import armi

assert armi.__file__.startswith(os.getcwd()), armi.__file__

from armi import runLog
from armi.tests import mockRunLogs
from armi.reactor.tests.test_blocks import loadTestBlock

runLog.setVerbosity("error")

block = loadTestBlock()
assembly = block.parent

rejected = []
for k in range(-12, 13):
    for label, rad in (
        (f"math.radians({60 * k})", math.radians(60 * k)),
        (f"{k}*math.pi/3", k * math.pi / 3),
        (f"{k}*(math.pi/3)", k * (math.pi / 3)),
    ):
        a = copy.deepcopy(assembly)
        b = copy.deepcopy(block)
        b.rotate(rad)  # block level: always fine
        blockSteps = int(b.getRotationNum())
        try:
            with mockRunLogs.BufferLog():
                a.rotate(rad)
            got = int(a[0].getRotationNum())
            if got != k % 6:
                rejected.append(f"{label}: assembly rotated {got} steps, expected {k % 6}")
        except ValueError as e:
            rejected.append(
                f"{label} = {rad!r}: HexAssembly.rotate raised ValueError "
                f"(rad % (pi/3) = {rad % (math.pi / 3)!r}); HexBlock.rotate accepted it "
                f"and rotated {blockSteps} steps (expected {k % 6})"
            )

print("expected: every k*60 degree angle, k in -12..12, rotates the assembly by k mod 6 steps")
if rejected:
    print(f"observed: {len(rejected)} valid 60-degree multiples were refused / wrong:")
    for line in rejected:
        print("  ", line)
    sys.exit(1)
print("observed: all accepted")
sys.exit(0)
