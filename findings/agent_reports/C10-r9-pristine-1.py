"""Pristine: macroscopic constants of an EMPTY composition are not zero arrays.

Expected (property C10): zero for an empty composition (an array of zeros, one per group).
Observed: computeMacroscopicGroupConstants returns None, and the energy deposition / generation
helpers built on it raise TypeError (None * float, ndarray += None).
"""
import sys, os
sys.path.insert(0, os.getcwd())
from armi import configure
configure(permissive=True)
import armi
assert armi.__file__.startswith(os.getcwd())
import numpy as np
from armi.nuclearDataIO import xsLibraries, xsNuclides, xsCollections as xc

lib = xsLibraries.IsotxsLibrary()
lib.neutronEnergyUpperBounds = np.array([1e7, 1e3, 1.0])
nuc = xsNuclides.XSNuclide(lib, "U235AA")
nuc.isotxsMetadata["nuclideId"] = "U235"
nuc.isotxsMetadata["ecapt"] = 1.0
nuc.isotxsMetadata["efiss"] = 2.0
nuc.updateBaseNuclide()
for name in xc.BASIC_XS:
    nuc.micros[name] = np.ones(3)
nuc.neutronHeating = np.ones(3)
nuc.gammaHeating = np.ones(3)
lib["U235AA"] = nuc

bad = []
for label, fn in [
    ("computeMacroscopicGroupConstants(fission)", lambda d: xc.computeMacroscopicGroupConstants("fission", d, lib, "AA", libType="micros")),
    ("computeFissionEnergyGenerationConstants", lambda d: xc.computeFissionEnergyGenerationConstants(d, lib, "AA")),
    ("computeCaptureEnergyGenerationConstants", lambda d: xc.computeCaptureEnergyGenerationConstants(d, lib, "AA")),
    ("computeNeutronEnergyDepositionConstants", lambda d: xc.computeNeutronEnergyDepositionConstants(d, lib, "AA")),
    ("computeGammaEnergyDepositionConstants", lambda d: xc.computeGammaEnergyDepositionConstants(d, lib, "AA")),
]:
    for desc, dens in [("{}", {}), ("{'U235': 0.0}", {"U235": 0.0})]:
        try:
            out = fn(dens)
        except Exception as ee:
            bad.append("{} with {}: raised {}: {}".format(label, desc, type(ee).__name__, ee))
            continue
        if out is None or np.shape(out) != (3,) or np.any(out):
            bad.append("{} with {}: returned {!r}".format(label, desc, out))
print("expected: zeros(3) for an empty / all-zero composition")
if bad:
    print("observed:")
    for b in bad:
        print("  ", b)
    sys.exit(1)
print("observed: zeros everywhere (no defect)")
