"""Pristine defect candidate (C20): createRepresentativeBlocks corrupts blocks with 2-character XS types.

With a single burnup group ARMI allows 2-character xsType values ('AB', 'AC', ...).  The group
manager's handling of groups without an eligible (e.g. fuel) block, _modifyUnrepresentedXSIDs,
unpacks the 2-character group id as (type, envGroup) = ('A', 'B'), finds "another env group of
type A" (really the unrelated type 'AC') and sets envGroup='C' on the core blocks of type 'AB'.
Afterwards those blocks belong to no group at all: getMicroSuffix() raises.

Expected: creating representative blocks leaves the core blocks alone (or at most re-maps them to
an existing group) and every block still has exactly one group.
"""
import sys, os

sys.path.insert(0, os.getcwd())
hadLogs = os.path.exists("logs")
import atexit, shutil

# registered before armi is imported so that it runs after armi's own exit handlers
atexit.register(lambda: (not hadLogs) and shutil.rmtree("logs", ignore_errors=True))
from armi import configure

configure(permissive=True)
import contextlib
import shutil

import armi

assert armi.__file__.startswith(os.getcwd()), armi.__file__
from armi import runLog

runLog.setVerbosity("error")
from armi.reactor.flags import Flags
from armi.reactor.tests import test_reactors
from armi.tests import TEST_ROOT


def main():
    with open(os.devnull, "w") as devnull, contextlib.redirect_stdout(devnull):
        o, r = test_reactors.loadTestReactor(TEST_ROOT)
    assert o.cs["buGroups"] == [100] and not o.cs["tempGroups"]  # single env group
    for b in r.core.getBlocks():
        if b.hasFlags(Flags.FUEL):
            b.p.xsType = "AC"  # detailed fuel type
        else:
            b.p.xsType = "AB"  # structure type: no fuel block -> no representative
    for a in r.blueprints.assemblies.values():
        for b in a:
            b.p.xsType = "AC" if b.hasFlags(Flags.FUEL) else "AB"
    before = {b: (b.p.xsType, b.p.envGroup, b.getMicroSuffix()) for b in r.core.getBlocks()}

    xsgm = o.getInterface("xsGroups")
    with open(os.devnull, "w") as devnull, contextlib.redirect_stdout(devnull):
        xsgm.interactBOL()
        xsgm.createRepresentativeBlocks()

    problems = []
    for b, (xsType, env, suffix) in before.items():
        try:
            now = b.getMicroSuffix()
        except Exception as ee:
            now = "%s: %s" % (type(ee).__name__, ee)
        if now != suffix or b.p.envGroup != env:
            problems.append(
                "%s: before xsType=%r envGroup=%r group=%r; after envGroup=%r group=%r"
                % (b, xsType, env, suffix, b.p.envGroup, now)
            )
    return problems, len(before)


try:
    problems, n = main()
finally:
    if not hadLogs and os.path.isdir("logs"):
        shutil.rmtree("logs", ignore_errors=True)
if problems:
    print("DEFECT: expected all %d core blocks to keep their XS group; %d were changed" % (n, len(problems)))
    for p in problems[:4]:
        print("   ", p)
    sys.exit(1)
print("no defect observed")
sys.exit(0)
