"""C11-pristine-4: two smaller re-meshing defects in armi/reactor/assemblies.py.

(a) Assembly.adjustResolution(refA) refines an assembly onto the finer mesh of refA by deep-copying the
    block that is split.  Atoms are conserved, but every VOLUME_INTEGRATED block parameter (power, mgFlux,
    molesHmBOL ...) is duplicated into each piece instead of being split by height, so the assembly
    total grows (200 W -> 300 W below).
(b) Assembly.getBlocksBetweenElevations divides by b.getHeight() in its sliver filter, so an assembly
    containing a zero-height block (which ARMI otherwise supports: DerivedShape has "special handling for
    0-height blocks", setAssemblyStateFromOverlaps skips zero-height destination blocks) raises a bare
    ZeroDivisionError instead of reporting the partition [(b0, 20), (b2, 25)] of [0, 45].

Run: cd <armi checkout> && python C11-pristine-4.py   (exit 1 when a defect shows)
"""
import sys, os

sys.path.insert(0, os.getcwd())
from armi import configure

configure(permissive=True)
import armi

assert armi.__file__.startswith(os.getcwd()), armi.__file__
from armi import runLog
from armi.reactor import assemblies, blocks, components, grids

runLog.setVerbosity("error")


def mk(heights):
    a = assemblies.HexAssembly("fuelAssem", assemNum=7)
    a.spatialGrid = grids.AxialGrid.fromNCells(len(heights))
    a.spatialGrid.armiObject = a
    for h in heights:
        b = blocks.HexBlock("fuel", height=h)
        b.setType("fuel")
        b.add(components.Hexagon("fuel", "UZr", Tinput=25.0, Thot=25.0, op=16.0, ip=0.0, mult=1.0))
        b.p.axMesh = 1
        a.add(b)
    a.reestablishBlockOrder()
    a.calculateZCoords()
    return a


bad = []
a, ref = mk([50.0, 50.0]), mk([25.0, 25.0, 50.0])
for b in a:
    b.p.power = 100.0
tot0 = sum(b.p.power for b in a)
a.adjustResolution(ref)
tot1 = sum(b.p.power for b in a)
if abs(tot1 - tot0) > 1e-9:
    bad.append(
        f"(a) adjustResolution [50,50] -> [25,25,50]: total power expected {tot0}, observed {tot1} "
        f"(per block {[b.p.power for b in a]}, heights {[b.getHeight() for b in a]})"
    )
a = mk([20.0, 0.0, 25.0])
try:
    got = a.getBlocksBetweenElevations(0.0, 45.0)
    if abs(sum(h for _b, h in got) - 45.0) > 1e-9:
        bad.append(f"(b) overlaps {got} do not sum to 45")
except ZeroDivisionError as e:
    bad.append(f"(b) getBlocksBetweenElevations(0, 45) on heights [20, 0, 25]: expected overlaps summing to 45, observed ZeroDivisionError: {e}")
if bad:
    print("DEFECT")
    for m in bad:
        print("  " + m)
    sys.exit(1)
print("no defect observed")
