"""C10 pristine defect 1: a rejected library merge is not atomic.

IsotxsLibrary._mergeNuclides adds the nuclides of the other library one by one; when a later nuclide
conflicts (same label, same kind of data) AttributeError is raised, but the nuclides visited before it
have already been added to the target (and their .container re-pointed). The property demands that a
rejected merge leaves the target unchanged.
"""
import sys, os

sys.path.insert(0, os.getcwd())
from armi import configure

configure(permissive=True)
import armi

assert armi.__file__.startswith(os.getcwd()), armi.__file__
import numpy as np
from armi.nuclearDataIO import xsLibraries, xsNuclides, xsCollections
from armi.nuclearDataIO.cccc import isotxs



def nlib(labels):
    lib = xsLibraries.IsotxsLibrary()
    lib.neutronEnergyUpperBounds = np.array([3.0, 2.0, 1.0])
    lib.neutronVelocity = np.array([3.0, 2.0, 1.0])
    for label in labels:
        n = xsNuclides.XSNuclide(lib, label)
        n.micros.nGamma = np.array([1.0, 2.0, 3.0])
        lib[label] = n
    return lib


target = nlib(["B10AA"])
before = target.nuclideLabels
try:
    target.merge(nlib(["A11AA", "B10AA", "C12AA"]))
    print("unexpected: no error")
    sys.exit(2)
except AttributeError as ee:
    print("merge rejected as expected: {}".format(str(ee).splitlines()[0]))
print("expected labels after rejected merge: {}".format(before))
print("observed labels after rejected merge: {}".format(target.nuclideLabels))
if target.nuclideLabels != before:
    print("DEFECT: target was modified by a merge that raised")
    sys.exit(1)
print("no defect")
sys.exit(0)
