"""C12 pristine 1: the mass of a block's TARGET component is not conserved when that target sits on
an axially linked NON-target component of the block below that grew by a different fraction.

Plain isothermal heat-up 25 C -> 500 C of a shield/fuel/fuel/plenum/dummy assembly with UZr fuel and
HT9 clad (performThermalAxialExpansion, one step).  The plenum's target is its clad; its bottom is
aligned with the top of the fuel block's clad (which is not the fuel block's top because UZr and HT9
expand differently), while the plenum block's bottom is the fuel block's top.  Hence
block height != target height and the target's mass changes.
Expected (property C12): mass of every block's target component unchanged."""
import sys, os

sys.path.insert(0, os.getcwd())
from armi import configure

configure(permissive=True)
import armi

assert armi.__file__.startswith(os.getcwd()), armi.__file__

import numpy as np
from armi.reactor import grids
from armi.reactor.assemblies import HexAssembly
from armi.reactor.blocks import HexBlock
from armi.reactor.components import Circle, DerivedShape, Hexagon
from armi.reactor.converters.axialExpansionChanger import AxialExpansionChanger
from armi.reactor.converters.axialExpansionChanger.expansionData import (
    iterSolidComponents,
)
from armi.reactor.flags import Flags


def block(btype, h, mainMat="HT9", T=25.0, order=(0, 1, 2, 3, 4)):
    b = HexBlock(btype, height=h)
    comps = [
        Circle(btype, mainMat, Tinput=25.0, Thot=T, od=0.76, id=0.0, mult=127.0),
        Circle("clad", "HT9", Tinput=25.0, Thot=T, od=0.80, id=0.77, mult=127.0),
        Hexagon("duct", "HT9", Tinput=25.0, Thot=T, op=16, ip=15.3, mult=1.0),
        DerivedShape("coolant", "Sodium", Tinput=25.0, Thot=T),
        Hexagon("intercoolant", "Sodium", Tinput=25.0, Thot=T, op=17.0, ip=16.0, mult=1.0),
    ]
    for i in order:
        b.add(comps[i])
    b.setType(btype)
    b.getVolumeFractions()
    return b


def dummy(h, T=25.0):
    b = HexBlock("dummy", height=h)
    b.add(Hexagon("dummy coolant", "Sodium", Tinput=25.0, Thot=T, op=17, ip=0.0, mult=1.0))
    b.getVolumeFractions()
    b.setType("dummy")
    return b


def buildAssembly(fuelMat="UZr", order=(0, 1, 2, 3, 4)):
    """shield / fuel / fuel / plenum / dummy pin assembly; fuel pins are UZr, structure is HT9."""
    a = HexAssembly("fuel")
    a.spatialGrid = grids.AxialGrid.fromNCells(numCells=1)
    a.spatialGrid.armiObject = a
    a.add(block("shield", 10.0))
    a.add(block("fuel", 12.0, fuelMat, order=order))
    a.add(block("fuel", 14.0, fuelMat, order=order))
    a.add(block("plenum", 16.0))
    a.add(dummy(20.0))
    a.calculateZCoords()
    a.reestablishBlockOrder()
    return a


bad = []

a = buildAssembly()
grid = np.linspace(0.0, a.getTotalHeight(), 73)
changer = AxialExpansionChanger()
changer.setAssembly(a)
targets = {b: b.getComponentByName(b.p.axialExpTargetComponent) for b in a[:-1]}
m0 = {c: c.getMass() for c in targets.values()}
changer.performThermalAxialExpansion(a, grid, np.full(grid.shape, 500.0))
for ib, (b, c) in enumerate(targets.items()):
    rel = c.getMass() / m0[c] - 1.0
    print(
        f"block {ib} {b.getType():7s} target {c.name:7s} rel. mass change {rel:+.3e}  "
        f"block height {b.getHeight():.6f} target height {c.height:.6f}"
    )
    if abs(rel) > 1e-10:
        bad.append(
            f"expected target mass conserved in block {ib} ({b.getType()}/{c.name}); observed relative "
            f"change {rel:+.3e} (block height {b.getHeight()!r} vs target height {c.height!r})"
        )

if bad:
    print("DEFECT SHOWN")
    for line in bad:
        print("  " + line)
    sys.exit(1)
print("no defect observed")
