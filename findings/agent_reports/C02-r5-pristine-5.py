"""Pristine defect: Block.getArea caches under one key for cold and hot dimensions.

Block.getArea(cold=True) stores the COLD area in the "area" cache entry; every later getArea()
(hot) returns it.  Assembly.getArea/getVolume are built on the first block's getArea(), so after
anybody asked for the cold area (e.g. Block.setB10VolParam-style code, reports) the assembly volume
differs from the sum of its blocks' volumes and Assembly.setMass no longer reads back.
Needs a block whose components do not fill the cell (no DerivedShape), otherwise hot==cold area.
"""
import sys, os
sys.path.insert(0, os.getcwd())
import atexit, shutil
if not os.path.exists("logs"):
    atexit.register(shutil.rmtree, "logs", ignore_errors=True)
from armi import configure
configure(permissive=True)
import armi
assert armi.__file__.startswith(os.getcwd()), armi.__file__
from armi import runLog
runLog.setVerbosity("error")

from armi.reactor import assemblies, blocks, components, grids
T = dict(Tinput=25.0, Thot=600.0)
b = blocks.HexBlock("x", height=10.0)
b.add(components.Circle("clad", "HT9", od=0.86, id=0.70, mult=61, **T))
b.add(components.Hexagon("duct", "HT9", op=9.0, ip=8.6, mult=1, **T))
a = assemblies.HexAssembly("fuel")
a.spatialGrid = grids.AxialGrid.fromNCells(1, armiObject=a)
a.add(b)
b.clearCache()
hot = b.getArea()
b.clearCache()
cold = b.getArea(cold=True)
hot2 = b.getArea()
print("hot area", hot, " cold area", cold, " hot area asked after cold (expected", hot, ") observed", hot2)
vSum = sum(x.getVolume() for x in a)
print("assembly volume expected", vSum, "observed", a.getVolume())
a.setMass("FE", 500.0)
got = a.getMass("FE")
print("a.setMass('FE', 500.0) reads back", got)
bad = abs(hot2 - hot) > 1e-9 * hot or abs(a.getVolume() - vSum) > 1e-9 * vSum or abs(got - 500.0) > 1e-6
print("DEFECT" if bad else "OK")
sys.exit(1 if bad else 0)
