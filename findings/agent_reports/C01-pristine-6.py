"""Pristine C01 defect 6: HexBlock.createHomogenizedCopy() hands the ORIGINAL spatialGrid object to the copy
(b.spatialGrid = self.spatialGrid); the copy shares a node with the original and its grid is owned by the
original block (grid.armiObject is the source block). In memory both blocks share one grid."""
import sys, os

sys.path.insert(0, os.getcwd())
from armi import configure

configure(permissive=True)
import armi

assert armi.__file__.startswith(os.getcwd()), armi.__file__
import copy, pickle
from armi import settings, tests, runLog
from armi.reactor import assemblies, blocks, grids, composites
from armi.reactor.components import Hexagon, Circle
from armi.materials import uZr

runLog.setVerbosity("error")


def mkBlock(typ="fuel"):
    b = blocks.HexBlock("TestBlock")
    b.setType(typ)
    b.add(Hexagon("duct", uZr.UZr(), Tinput=600, Thot=600, op=16.0, ip=15.0, mult=1))
    b.add(Circle("fuel", uZr.UZr(), Tinput=600, Thot=600, od=0.5, id=0.0, mult=7))
    b.add(Circle("clad", uZr.UZr(), Tinput=600, Thot=600, od=0.6, id=0.5, mult=7))
    return b


def mkAssem(n=2, num=None):
    a = assemblies.HexAssembly("fuel", assemNum=num)
    a.spatialGrid = grids.AxialGrid.fromNCells(n)
    for _ in range(n):
        a.add(mkBlock())
    return a


bad = []


def check(ok, expected, observed):
    print(("ok      " if ok else "DEFECT  ") + f"expected: {expected}; observed: {observed}")
    if not ok:
        bad.append(observed)


def finish():
    print("DEFECT PRESENT" if bad else "no defect observed")
    sys.exit(1 if bad else 0)

src = mkBlock()
src.spatialGrid = grids.HexGrid.fromPitch(1.0)
src.spatialGrid.armiObject = src
h = src.createHomogenizedCopy()
check(h.spatialGrid is not src.spatialGrid, "copy has its own grid object", f"h.spatialGrid is src.spatialGrid: {h.spatialGrid is src.spatialGrid}")
check(h.spatialGrid.armiObject is h, "copy's grid is owned by the copy", f"owner is the source block: {h.spatialGrid.armiObject is src}")
d = copy.deepcopy(src)
check(d.spatialGrid is not src.spatialGrid and d.spatialGrid.armiObject is d, "(control) deepcopy re-owns the grid", f"{d.spatialGrid.armiObject is d}")
finish()
