"""C11-pristine-3: HexBlock.createHomogenizedCopy sizes the homogenized hexagon with the pitch that was
cached when the pitch-defining component was ADDED (Block._pitchDefiningComponent[1]) instead of its
current pitch (Block.getPitch(), which re-asks the component).  If the outermost solid component (a
duct with no inter-assembly coolant hexagon) is heated after the block was built
(component.setTemperature), the source block's volume grows (DerivedShape coolant fills the bigger
hexagon) but the re-meshed block keeps the old, smaller hexagon -> makeAssemWithUniformMesh loses atoms.

Expected: atoms of every nuclide unchanged by makeAssemWithUniformMesh on a mesh of the same height.
Run: cd <armi checkout> && python C11-pristine-3.py   (exit 1 when the defect shows)
"""
import sys, os

sys.path.insert(0, os.getcwd())
from armi import configure

configure(permissive=True)
import armi

assert armi.__file__.startswith(os.getcwd()), armi.__file__
from armi import runLog
from armi.reactor import assemblies, blocks, components, grids
from armi.reactor.flags import Flags
from armi.reactor.converters.uniformMesh import UniformMeshGeometryConverter

runLog.setVerbosity("error")


def makeBlock(height):
    b = blocks.HexBlock("fuel", height=height)
    b.setType("fuel")
    for c in (
        components.Circle("fuel", "UZr", Tinput=25.0, Thot=600.0, od=0.76, id=0.0, mult=127.0),
        components.Circle("clad", "HT9", Tinput=25.0, Thot=450.0, od=0.80, id=0.77, mult=127.0),
        components.Hexagon("duct", "HT9", Tinput=25.0, Thot=25.0, op=16.0, ip=15.3, mult=1.0),
        components.DerivedShape("coolant", "Sodium", Tinput=25.0, Thot=400.0),
    ):
        b.add(c)
    b.p.xsType = "A"
    b.p.axMesh = 1
    return b


def atoms(a):
    tot = {}
    for b in a:
        v = b.getVolume()
        for n, d in b.getNumberDensities().items():
            tot[n] = tot.get(n, 0.0) + d * v
    return tot


a = assemblies.HexAssembly("fuelAssem", assemNum=7)
a.spatialGrid = grids.AxialGrid.fromNCells(3)
a.spatialGrid.armiObject = a
for h in (20.0, 30.0, 25.0):
    a.add(makeBlock(h))
a.reestablishBlockOrder()
a.calculateZCoords()
for b in a:  # the duct heats up after the block was assembled
    b.getComponent(Flags.DUCT).setTemperature(500.0)
b = a[0]
before = atoms(a)
new = UniformMeshGeometryConverter.makeAssemWithUniformMesh(a, [15.0, 40.0, 75.0], None, True)
after = atoms(new)
rel = {n: after[n] / v - 1.0 for n, v in before.items() if v > 1e-30}
worstNuc = max(rel, key=lambda n: abs(rel[n]))
if abs(rel[worstNuc]) > 1e-8:
    print("DEFECT")
    print(
        f"  current pitch b.getPitch()={b.getPitch():.6f} cm, cached pitch used for the homogenized copy="
        f"{b._pitchDefiningComponent[1]:.6f} cm; homogenized block pitch={new[0].getPitch():.6f} cm"
    )
    print(f"  expected atoms unchanged, observed {worstNuc}: {before[worstNuc]:.6e} -> {after[worstNuc]:.6e} ({rel[worstNuc]:+.4%}) (all nuclides alike)")
    sys.exit(1)
print("no defect observed")
