import sys, os
sys.path.insert(0, os.getcwd())
from armi import configure
configure(permissive=True)
import armi
assert armi.__file__.startswith(os.getcwd()), armi.__file__
import math
import numpy as np
from armi.reactor import grids


class Obj:
    """Minimal stand-in for an ArmiObject: parent, spatialGrid, spatialLocator."""

    def __init__(self, parent=None):
        self.parent = parent
        self.spatialGrid = None
        self.spatialLocator = None


def nest():
    core = Obj(); assem = Obj(core); block = Obj(assem)
    core.spatialGrid = grids.CartesianGrid.fromRectangle(1.0, 1.0, armiObject=core)
    assem.spatialGrid = grids.AxialGrid.fromNCells(5, armiObject=assem)
    block.spatialGrid = grids.CartesianGrid.fromRectangle(0.1, 0.1, armiObject=block)
    core.spatialLocator = grids.CoordinateLocation(0.0, 0.0, 0.0, None)
    assem.spatialLocator = core.spatialGrid[2, 3, 0]
    block.spatialLocator = assem.spatialGrid[0, 0, 3]
    return core, assem, block


# Labels <-> indices are not mutually inverse for negative indices (Cartesian / generic grids):
# getLabel renders -1 as "-01" and locatorLabelToIndices splits on "-".
g = grids.CartesianGrid.fromRectangle(1.0, 1.0)
bad = []
for idx in [(1, 2, 0), (-1, 2, 0), (1, -2, 3), (-3, -4, 0)]:
    label = g.getLabel(idx)
    try:
        back = grids.locatorLabelToIndices(label)
    except Exception as e:  # noqa
        back = f"{type(e).__name__}: {e}"
    print(idx, "-> label", repr(label), "-> indices", back, "(expected", idx, ")")
    if back != idx:
        bad.append(idx)
if bad:
    print("DEFECT: label round trip fails for", bad)
    sys.exit(1)
print("no defect")
