"""Pristine defect: Sodium density is a COMPLEX number at the upper end of its own stated validity range.

Sodium.propertyValidTemperature["density"] = ((97.85, 2230.55), "C").  pseudoDensity() evaluates
(1 - (Tc + 273.15) / 2503.7) ** 0.5; at Tc = 2230.55 the float sum Tc + 273.15 is 2503.7000000000003,
the base is -2.2e-16 and Python returns a complex number.  Expected: a finite positive real density
(0.219 g/cc, the critical density) at every temperature of the stated range.
"""
import sys, os
sys.path.insert(0, os.getcwd())
from armi import configure
configure(permissive=True)
import armi
assert armi.__file__.startswith(os.getcwd()), armi.__file__
import math

from armi.materials.sodium import Sodium

na = Sodium()
(lo, hi), unit = na.propertyValidTemperature["density"]
bad = []
for Tc in (lo, 0.5 * (lo + hi), hi):
    for fn in ("density", "pseudoDensity"):
        rho = getattr(na, fn)(Tc=Tc)
        ok = isinstance(rho, float) and math.isfinite(rho) and rho > 0
        print(f"Sodium.{fn}(Tc={Tc}) = {rho!r}  ->", "ok" if ok else "NOT a finite positive real")
        if not ok:
            bad.append((fn, Tc, rho))
print("expected: finite positive float at lo, mid and hi of the stated range", (lo, hi), unit)
if bad:
    print("DEFECT observed:", bad)
    sys.exit(1)
print("no defect")
