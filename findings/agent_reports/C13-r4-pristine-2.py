"""C13 pristine defect 2: restorePreviousGeometry leaves the full-core locations in the zones.

convert() adds the location of every new assembly to the zone of its source; restore never removes
them, so zone-based location lookups differ from what they were before the conversion.
"""
import sys, os

sys.path.insert(0, os.getcwd())
from armi import configure

configure(permissive=True)
import armi

assert armi.__file__.startswith(os.getcwd()), armi.__file__
import shutil
import numpy as np
from armi import runLog
from armi.reactor import grids, zones
from armi.reactor.converters import geometryConverters
from armi.reactor.tests.test_reactors import TEST_ROOT, loadTestReactor, reduceTestReactorRings

runLog.setVerbosity("error")


def finish(rc):
    shutil.rmtree(os.path.join(os.getcwd(), "logs"), ignore_errors=True)
    sys.exit(rc)


o, r = loadTestReactor(TEST_ROOT)
reduceTestReactorRings(r, o.cs, 3)
core = r.core
core.zones = zones.Zones()
core.zones.addZone(zones.Zone("all", [a.getLocation() for a in core]))
before = sorted(core.zones["all"].locs)
changer = geometryConverters.ThirdCoreHexToFullCoreChanger(o.cs)
changer.convert(r)
changer.restorePreviousGeometry(r)
after = sorted(core.zones["all"].locs)
print("expected zone locations after restore:", before)
print("observed zone locations after restore:", after)
if before != after:
    print("DEFECT: zone keeps {} locations that hold no assembly in the restored third core".format(len(after) - len(before)))
    finish(1)
print("no defect observed")
finish(0)
