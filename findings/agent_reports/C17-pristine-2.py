"""C17 pristine defect 2: verbosity/branchVerbosity/moduleVerbosity accept values outside their option
list on assignment; the value is only refused (KeyError) when a file holding it is read, and by then it
has already replaced the previous value."""
import sys, os, io

sys.path.insert(0, os.getcwd())
from armi import configure

configure(permissive=True)
import armi

assert armi.__file__.startswith(os.getcwd()), armi.__file__
from armi import settings

bad = []
cs = settings.Settings()
try:
    cs["verbosity"] = "chatty"  # not in the option list
    bad.append(f"expected cs['verbosity']='chatty' to be rejected; observed it stored: {cs['verbosity']!r}")
except Exception as e:
    print("rejected on assignment:", type(e).__name__)

buf = io.StringIO()
cs.writeToYamlStream(buf, style="short")
new = settings.Settings()
prev = new["verbosity"]
try:
    new.loadFromString(buf.getvalue())
    bad.append("file with verbosity: chatty was read without error")
except Exception as e:
    bad.append(
        f"reading the file written from that cs fails with {type(e).__name__}: {str(e)[:60]}...; "
        f"previous value was {prev!r}, value after the failed read is {new['verbosity']!r}"
    )

cs2 = settings.Settings()
try:
    cs2["moduleVerbosity"] = {"armi.x": "chatty"}
    bad.append(f"moduleVerbosity accepted invalid level: {cs2['moduleVerbosity']!r}")
except Exception as e:
    print("rejected on assignment:", type(e).__name__)

if bad:
    print("DEFECT")
    for b in bad:
        print("  " + b)
    sys.exit(1)
print("no defect observed")
