"""C13 pristine defect 1: a no-op addEdgeAssemblies makes the next third->full conversion skip the centre scaling.

A two-ring third core has no cell on the symmetry lines, so addEdgeAssemblies adds nothing, but it
still clears the SINCE_LAST_GEOMETRY_TRANSFORMATION assignment flag of every parameter.  Nothing is
added/removed before ThirdCoreHexToFullCoreChanger.convert reaches the centre assembly, so its list of
volume-integrated parameters to scale is empty and the centre keeps its 1/3 values in the full core.
"""
import sys, os

sys.path.insert(0, os.getcwd())
from armi import configure

configure(permissive=True)
import armi

assert armi.__file__.startswith(os.getcwd()), armi.__file__
import shutil
import numpy as np
from armi import runLog
from armi.reactor import grids, zones
from armi.reactor.converters import geometryConverters
from armi.reactor.tests.test_reactors import TEST_ROOT, loadTestReactor, reduceTestReactorRings

runLog.setVerbosity("error")


def finish(rc):
    shutil.rmtree(os.path.join(os.getcwd(), "logs"), ignore_errors=True)
    sys.exit(rc)


o, r = loadTestReactor(TEST_ROOT)
reduceTestReactorRings(r, o.cs, 2)
core = r.core
for b in core.iterBlocks():
    b.p.power = 10.0  # centre blocks: 10 W is the power of the modelled third of the hexagon
centre = core.getAssemblyWithStringLocation("001-001")
thirdTotal = core.getTotalBlockParam("power")

geometryConverters.EdgeAssemblyChanger().addEdgeAssemblies(core)  # adds nothing in a 2-ring core
nAfterAdd = len(core)
changer = geometryConverters.ThirdCoreHexToFullCoreChanger(o.cs)
changer.convert(r)
fullTotal = core.getTotalBlockParam("power")
print("assemblies after (no-op) addEdgeAssemblies:", nAfterAdd, " full core:", len(core))
print("expected centre block power 30.0, full-core total", 3 * thirdTotal)
print("observed centre block power", centre[0].p.power, ", full-core total", fullTotal)
if abs(fullTotal - 3 * thirdTotal) > 1e-9:
    print("DEFECT: total power of the full core is not three times the third-core value")
    finish(1)
print("no defect observed")
finish(0)
