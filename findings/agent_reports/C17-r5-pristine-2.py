"""C17 on the UNCHANGED tree: a numeric module verbosity is accepted, written, and cannot be read back.

``moduleVerbosity`` maps logger names to levels; ``Settings.setModuleVerbosities`` accepts numeric
levels (``int(mLvl) if mLvl.isnumeric()``) but calls ``.isnumeric()`` on the value, so it only works for
numbers given as *strings*. ``cs["moduleVerbosity"] = {"armi.foo": 20}`` is accepted, the writer emits
``armi.foo: 20`` and reading that file (or any hand-written file with an unquoted number) dies with
AttributeError inside loadFromString / loadFromInputFile instead of yielding the setting (or a
settings error).
"""
import sys, os; sys.path.insert(0, os.getcwd())
import io
from armi import configure; configure(permissive=True)
import armi
assert armi.__file__.startswith(os.getcwd()), armi.__file__
from armi import settings

cs = settings.Settings()
cs["moduleVerbosity"] = {"armi.foo": 20}
s = io.StringIO()
cs.writeToYamlStream(s)
print(s.getvalue())
try:
    cs2 = settings.Settings()
    cs2.loadFromString(s.getvalue())
except Exception as e:
    print("DEFECT: expected moduleVerbosity == {'armi.foo': 20} after write/read;")
    print(f"  observed {type(e).__name__}: {e}")
    sys.exit(1)
if cs2["moduleVerbosity"] != {"armi.foo": 20}:
    print("DEFECT: read back", cs2["moduleVerbosity"])
    sys.exit(1)
print("no defect observed")
