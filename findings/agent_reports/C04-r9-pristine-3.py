import sys, os; sys.path.insert(0, os.getcwd())
from armi import configure; configure(permissive=True)
import armi, tempfile, shutil
assert armi.__file__.startswith(os.getcwd())
import numpy as np
from armi import runLog
runLog.setVerbosity("error")
from armi.testing import loadTestReactor, reduceTestReactorRings
from armi.bookkeeping.db.database import Database
from armi.reactor.tests.test_reactors import TEST_ROOT
o, r = loadTestReactor(TEST_ROOT, customSettings={"reloadDBName": "x.h5"})
reduceTestReactorRings(r, o.cs, maxNumRings=2)
# an assembly whose blocks' elevations (z, zbottom, ztop: persistent block parameters) do not start at 0
a = r.core.getFirstAssembly()
for b in a:
    b.p.zbottom += 10.0; b.p.ztop += 10.0; b.p.z += 10.0

d = tempfile.mkdtemp()
db = Database(os.path.join(d, "t.h5"), "w"); db.open(); db.writeInputsToDB(o.cs); db.writeToDB(r)
r2 = db.load(0, 0, cs=o.cs, bp=r.blueprints, allowMissing=True); db.close()
shutil.rmtree(d, ignore_errors=True); shutil.rmtree(os.path.join(os.getcwd(), "logs"), ignore_errors=True)
a2 = r2.core.getFirstAssembly()
bad = []
want = [b.p.zbottom for b in a]; got = [b.p.zbottom for b in a2]
if want != got:
    bad.append("zbottom of the blocks of %s: expected %s after load, observed %s (Assembly.calculateZCoords on load restarts at 0)" % (a.getName(), want, got))

if bad:
    print("DEFECT (pristine): " + "; ".join(bad)); sys.exit(1)
print("no defect observed")
