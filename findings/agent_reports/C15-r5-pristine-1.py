"""C15 pristine defect 1: a detailed cycle with ``burn steps: 0`` (accepted by the settings schema,
``vol.Range(min=0)``) makes every cycle-arithmetic helper raise ZeroDivisionError, so a zero-burn-step
cycle cannot be expressed with `cycle length` + `burn steps` although the same layout works with the
simple input (burnSteps: 0) and with ``step days: []``.

Same root cause (armi/utils/__init__.py::_getStepAndCycleLengths): a detailed cycle given as
`cycle length` + `burn steps` with ``availability factor: 0.0`` (schema Range(min=0, max=1); a pure decay
cycle) divides the summed step lengths by the availability factor to get the cycle length back and raises
ZeroDivisionError, while the simple input handles availabilityFactors: [0.0, ...] fine.
"""
import sys, os; sys.path.insert(0, os.getcwd())
import atexit, shutil

if not os.path.exists("logs"):
    atexit.register(shutil.rmtree, "logs", True)
from armi import configure; configure(permissive=True)
import armi

assert armi.__file__.startswith(os.getcwd()), armi.__file__
import logging

logging.disable(1000)
from armi.settings import Settings
from armi.utils import getBurnSteps, getCycleLengths, getNodesPerCycle, getStepLengths

BASE = {"burnSteps": None, "cycleLength": None, "availabilityFactor": None, "nCycles": 2}
CASES = [
    (
        "burn steps: 0",
        [{"cycle length": 10, "burn steps": 0}, {"step days": [1, 2]}],
        {"steps": [[], [1.0, 2.0]], "lengths": [10.0, 3.0], "burnSteps": [0, 2], "nodes": [1, 3]},
    ),
    (
        "availability factor: 0.0",
        [{"cycle length": 10, "burn steps": 2, "availability factor": 0.0}, {"step days": [1, 2]}],
        {"steps": [[0.0, 0.0], [1.0, 2.0]], "lengths": [10.0, 3.0], "burnSteps": [2, 2], "nodes": [3, 3]},
    ),
]

bad = 0
for label, cycles, exp in CASES:
    cs = Settings().modified(newSettings=dict(BASE, cycles=cycles))  # the schema accepts the input
    for key, func in (
        ("steps", getStepLengths),
        ("lengths", getCycleLengths),
        ("burnSteps", getBurnSteps),
        ("nodes", getNodesPerCycle),
    ):
        try:
            got = func(cs)
        except Exception as e:  # noqa
            got = "%s: %s" % (type(e).__name__, e)
        if got != exp[key]:
            bad += 1
            print("[%s] %s: expected %s, observed %s" % (label, func.__name__, exp[key], got))

if bad:
    print("DEFECT: %d wrong results for schema-valid detailed cycle histories" % bad)
    sys.exit(1)
print("OK")
