"""C13 pristine defect 3: the assemblies made by convert() are not copies of their sources as far as assembly parameters go:
Core.add / Assembly.moveTo stamp them with chargeCycle / chargeTime of the moment of conversion, recompute chargeFis / chargeBu
and bump numMoves, so symmetric partners disagree (and genAssembliesAddedThisCycle reports 2/3 of the core as fresh)."""
import sys, os; sys.path.insert(0, os.getcwd())
hadLogs = os.path.exists("logs")
from armi import configure; configure(permissive=True)
import io, contextlib, shutil, atexit
import armi
assert armi.__file__.startswith(os.getcwd()), armi.__file__
from armi import runLog
from armi.testing import loadTestReactor, reduceTestReactorRings
from armi.reactor.converters.geometryConverters import ThirdCoreHexToFullCoreChanger, EdgeAssemblyChanger
atexit.register(lambda: (not hadLogs) and os.path.isdir("logs") and shutil.rmtree("logs", ignore_errors=True))
def load(rings):
    with contextlib.redirect_stdout(io.StringIO()):
        o, r = loadTestReactor()
        reduceTestReactorRings(r, o.cs, rings)
    runLog.setVerbosity("error")
    return o, r

o, r = load(3)
core = r.core
for a in core:
    a.p.chargeCycle = 0
    a.p.chargeTime = 0.0
    a.p.chargeBu = 0.0
    a.p.numMoves = 0
    for b in a:
        b.p.percentBu = 5.0
r.p.cycle = 3
r.p.time = 500.0
src = core.getAssemblyWithStringLocation("002-001")
conv = ThirdCoreHexToFullCoreChanger(o.cs)
conv.convert(r)
names = ["chargeCycle", "chargeTime", "chargeBu", "numMoves", "daysSinceLastMove"]
bad = []
for loc in ("002-003", "002-005"):
    c = core.getAssemblyWithStringLocation(loc)
    for n in names:
        if c.p[n] != src.p[n]:
            bad.append((loc, n, c.p[n], src.p[n]))
fresh = len(list(core.genAssembliesAddedThisCycle()))
print("expected: copies of 002-001 carry the same assembly parameters as 002-001; no assembly charged in cycle 3")
for x in bad:
    print("observed: copy at {} has {} = {!r}, source has {!r}".format(*x))
print("observed:", fresh, "of", len(core), "assemblies count as added this cycle")
print("FAIL" if bad or fresh else "PASS")
sys.exit(1 if bad or fresh else 0)
