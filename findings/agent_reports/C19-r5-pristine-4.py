"""Pristine defect: the only material modification of ThU (U233_wt_frac) can never be applied.

ThU's default composition is {TH232: 1.0, U233: 0.0}; applyInputParams(U233_wt_frac=x) calls
adjustMassEnrichment -> adjustMassFrac('U233', x), which enriches relative to the other isotopes of the
same ELEMENT.  U233 is the only uranium isotope in ThU and uranium is not mono-isotopic, so every value
raises ValueError.  ThU.getEnrichment() shows the intent: U233 / (U233 + TH232).
Expected: U233_wt_frac=0.1 gives U233/(U233+TH232) = 0.1 with mass fractions summing to one.
"""
import sys, os
sys.path.insert(0, os.getcwd())
from armi import configure
configure(permissive=True)
import armi
assert armi.__file__.startswith(os.getcwd()), armi.__file__
import math

from armi.materials.thU import ThU

m = ThU()
try:
    m.applyInputParams(U233_wt_frac=0.1)
except Exception as ee:
    print("expected: enrichment 0.1, sum 1.0")
    print("DEFECT observed: ThU.applyInputParams(U233_wt_frac=0.1) raised", type(ee).__name__, "-", str(ee)[:120])
    sys.exit(1)
print("enrichment", m.getEnrichment(), "sum", sum(m.massFrac.values()))
print("no defect" if abs(m.getEnrichment() - 0.1) < 1e-9 else "DEFECT: wrong enrichment")
sys.exit(0 if abs(m.getEnrichment() - 0.1) < 1e-9 else 1)
