"""C04 pristine 2: material state other than the theoretical density (enrichment, Zr fraction) is not restored."""
import sys, os

sys.path.insert(0, os.getcwd())
from armi import configure

configure(permissive=True)

import shutil
import tempfile

import armi

assert armi.__file__.startswith(os.getcwd()), armi.__file__

from armi import runLog
from armi.bookkeeping.db import Database
from armi.reactor import grids
from armi.testing import loadTestReactor, reduceTestReactorRings
from armi.tests import TEST_ROOT


def build():
    o, r = loadTestReactor(TEST_ROOT)
    runLog.setVerbosity("error")
    reduceTestReactorRings(r, o.cs, 2)
    return o, r


def roundTrip(o, r, tmp, tag="rt"):
    """Returns (loadedReactor, None) or (None, 'what failed')."""
    db = Database(os.path.join(tmp, tag + ".h5"), "w")
    db.open()
    try:
        try:
            db.writeToDB(r)
        except Exception as e:
            return None, "writeToDB raised {}: {}".format(type(e).__name__, str(e)[:150])
        try:
            return db.load(0, 0, cs=o.cs, bp=r.blueprints), None
        except Exception as e:
            return None, "load raised {}: {}".format(type(e).__name__, str(e)[:150])
    finally:
        db.h5db.close()
        db.h5db = None


def report(problems):
    if problems:
        print("DEFECT SHOWN on unchanged armi ({} observations)".format(len(problems)))
        for p in problems:
            print("  ", p)
        return 1
    print("no defect observed")
    return 0


def main():
    o, r = build()
    tmp = tempfile.mkdtemp(prefix="c04p2")
    try:
        r2, err = roundTrip(o, r, tmp)
    finally:
        shutil.rmtree(tmp, ignore_errors=True)
    if err:
        return report([err])
    problems = []
    seen = set()
    for b, b2 in zip(r.core[1], r2.core[1]):
        for c, c2 in zip(b, b2):
            assert c.p.serialNum == c2.p.serialNum
            key = (b.p.type, c.name)
            if key in seen:
                continue
            m1, m2 = c.material, c2.material
            mf1 = {k: round(v, 8) for k, v in m1.massFrac.items()}
            mf2 = {k: round(v, 8) for k, v in m2.massFrac.items()}
            if type(m1) is not type(m2) or mf1 != mf2:
                seen.add(key)
                problems.append(
                    "{}/{} ({}): expected material massFrac {}, observed {}".format(
                        b.p.type, c.name, type(m1).__name__, mf1, mf2
                    )
                )
                d1 = m1.density(Tc=c.temperatureInC)
                d2 = m2.density(Tc=c2.temperatureInC)
                if abs(d1 - d2) > 1e-9 * abs(d1):
                    problems.append(
                        "{}/{}: expected material density {:.6f} g/cc at {} C, observed {:.6f}".format(
                            b.p.type, c.name, d1, c.temperatureInC, d2
                        )
                    )
    return report(problems[:8])


if __name__ == "__main__":
    sys.exit(main())
