"""
C06 pristine defect 3: Database.getHistory/getHistories (a) add an entry for the step the live
reactor is currently at even when an explicit list of steps was requested and that step was
never written, and (b) raise AttributeError for an object that is no longer attached to a
reactor (e.g. an assembly discharged from a core without spent-fuel pool), although its
snapshots are in the file and objects are matched by serial number.
"""
import sys, os

sys.path.insert(0, os.getcwd())
from armi import configure

configure(permissive=True)
import armi

assert armi.__file__.startswith(os.getcwd()), armi.__file__
import shutil
import tempfile

from armi import context, runLog, settings
from armi.bookkeeping.db.database import Database
from armi.reactor import reactors
from armi.tests import TEST_ROOT


def setup():
    runLog.setVerbosity("error")
    cs = settings.Settings(
        os.path.join(TEST_ROOT, "smallestTestReactor", "armiRunSmallest.yaml")
    )
    cs = cs.modified(newSettings={"verbosity": "error"})
    r = reactors.loadFromCs(cs)
    start = os.getcwd()
    work = tempfile.mkdtemp(prefix="c06work")
    fast = tempfile.mkdtemp(prefix="c06fast")
    os.chdir(work)
    context._FAST_PATH = fast
    db = Database("c06p.h5", "w")
    db.open()
    db.writeInputsToDB(cs)
    return cs, r, db, (start, work, fast)


def cleanup(dirs):
    start, work, fast = dirs
    os.chdir(start)
    shutil.rmtree(work, ignore_errors=True)
    shutil.rmtree(fast, ignore_errors=True)


def keffAt(c, n):
    return 1.0 + 0.01 * c + 0.001 * n


def main():
    cs, r, db, dirs = setup()
    bad = []
    try:
        for n in range(2):
            r.p.cycle, r.p.timeNode = 0, n
            r.core.p.keff = keffAt(0, n)
            for b in r.core.getBlocks():
                b.p.percentBu = 1.0 + n
            db.writeToDB(r)
        # the run has moved on; (4, 0) has not been written
        r.p.cycle, r.p.timeNode = 4, 0
        r.core.p.keff = 0.25
        hist = dict(db.getHistory(r.core, ["keff"], [(0, 0)])["keff"])
        print("(a) requested steps [(0, 0)]; expected {(0, 0): %s}" % keffAt(0, 0))
        print("    observed", hist)
        if set(hist) != {(0, 0)}:
            bad.append("unrequested, unwritten step in the history")

        b = r.core.getFirstBlock()
        a = b.parent
        r.core.remove(a)  # discharged
        print("(b) history of a block of a discharged assembly; expected {(0, 0): 1.0, (0, 1): 2.0}")
        try:
            hist = dict(db.getHistory(b, ["percentBu"], [(0, 0), (0, 1)])["percentBu"])
            print("    observed", hist)
            if hist != {(0, 0): 1.0, (0, 1): 2.0}:
                bad.append("wrong history for a discharged object")
        except Exception as ee:
            print("    observed exception %s: %s" % (type(ee).__name__, ee))
            bad.append("exception for a discharged object")
        db.close(True)
    finally:
        cleanup(dirs)
    if bad:
        print("DEFECT SHOWN:", "; ".join(bad))
        return 1
    print("no defect")
    return 0


if __name__ == "__main__":
    sys.exit(main())
