"""C02 pristine defect 4: HexBlock.createHomogenizedCopy sizes the homogenised hexagon with the pitch VALUE that was
stored when the pitch-defining component was added (self._pitchDefiningComponent[1]) instead of the current
getPitch(). After the duct temperature changes, or after setPitch() on a hot duct (which stores the cold value),
the copy has the same number densities but a smaller volume, so mass and atoms are lost."""
import sys, os; sys.path.insert(0, os.getcwd())
from armi import configure; configure(permissive=True)
import armi
assert armi.__file__.startswith(os.getcwd()), armi.__file__
from armi import runLog
runLog.setVerbosity("error")
from armi import tests as armitests
from armi.reactor import assemblies, blocks, components, geometry, grids
from armi.reactor.flags import Flags


def mkBlock(height=10.0, intercoolant=True):
    b = blocks.HexBlock("fuel", height=height)
    b.setType("fuel")
    comps = [
        components.Circle("fuel", "UZr", Tinput=25.0, Thot=600, od=0.76, id=0.0, mult=127.0),
        components.Circle("clad", "HT9", Tinput=25.0, Thot=450, od=0.80, id=0.77, mult=127.0),
        components.Hexagon("duct", "HT9", Tinput=25.0, Thot=400, op=16, ip=15.3, mult=1.0),
        components.DerivedShape("coolant", "Sodium", Tinput=25.0, Thot=400),
    ]
    if intercoolant:
        comps.append(components.Hexagon("intercoolant", "Sodium", Tinput=400, Thot=400, op=17.0, ip=16.0, mult=1.0))
    for c in comps:
        b.add(c)
    return b


def mkReactor(nb=3, intercoolant=True):
    """1/3-core hex reactor with a central assembly (cut in 3 by symmetry) and one full assembly."""
    r = armitests.getEmptyHexReactor()
    r.core.spatialGrid = grids.HexGrid.fromPitch(17.0)
    r.core.spatialGrid.symmetry = geometry.SymmetryType(
        geometry.DomainType.THIRD_CORE, geometry.BoundaryType.PERIODIC
    )
    r.core.spatialGrid.geomType = geometry.HEX
    r.core.spatialGrid.armiObject = r.core
    asms = []
    for n, (i, j) in enumerate([(0, 0), (1, 0)]):
        a = assemblies.HexAssembly("fuel", assemNum=n)
        a.spatialGrid = grids.AxialGrid.fromNCells(nb)
        for k in range(nb):
            a.add(mkBlock(height=10.0 + 5 * k, intercoolant=intercoolant))
        a.calculateZCoords()
        a.spatialLocator = r.core.spatialGrid[i, j, 0]
        r.core.add(a)
        asms.append(a)
    return r, asms


def close(a, b, rtol=1e-9):
    return abs(a - b) <= rtol * max(abs(a), abs(b))


problems = []


def finish():
    if problems:
        print("DEFECT SHOWN")
        for p in problems:
            print("  " + p)
        sys.exit(1)
    print("no defect observed")
    sys.exit(0)

r, (a0, a1) = mkReactor(intercoolant=False)
b = a1[1]
h = b.createHomogenizedCopy()
print(f"fresh        : block mass {b.getMass()!r} g vol {b.getVolume()!r}; homogenised copy mass {h.getMass()!r} g vol {h.getVolume()!r}")
if not close(b.getMass(), h.getMass(), 1e-6):
    problems.append("fresh block: homogenised copy mass differs")
b.getComponent(Flags.DUCT).setTemperature(700.0)
h = b.createHomogenizedCopy()
print(f"duct at 700C : block mass {b.getMass()!r} g vol {b.getVolume()!r}; copy mass {h.getMass()!r} g vol {h.getVolume()!r}; getPitch {b.getPitch()!r} stored {b._pitchDefiningComponent[1]!r}")
if not close(b.getMass(), h.getMass(), 1e-6):
    problems.append(f"after duct.setTemperature(700): block mass {b.getMass()!r} g, homogenised copy {h.getMass()!r} g")
b2 = a1[2]
b2.setPitch(16.4)
h = b2.createHomogenizedCopy()
print(f"setPitch(16.4): block mass {b2.getMass()!r} g vol {b2.getVolume()!r}; copy mass {h.getMass()!r} g vol {h.getVolume()!r}; getPitch {b2.getPitch()!r} stored {b2._pitchDefiningComponent[1]!r}")
if not close(b2.getMass(), h.getMass(), 1e-6):
    problems.append(f"after setPitch(16.4): block mass {b2.getMass()!r} g, homogenised copy {h.getMass()!r} g")
finish()
