"""C09 pristine defect 2: flux/geometry files whose file-ID version number has a byte >= 0x80 cannot be read.

RTFLUX/ATFLUX, RZFLUX, GEODST and NHFLUX read the whole 28-byte file-ID record (HNAME, HUSE(2), IVERS) as ONE
string and utf-8 decode it, so the binary integer IVERS is decoded as text. IVERS=1 happens to work
(b"\\x01\\x00\\x00\\x00"); IVERS=200 (b"\\xc8\\x00\\x00\\x00") raises UnicodeDecodeError.
"""
import sys, os

sys.path.insert(0, os.getcwd())
from armi import configure

configure(permissive=True)
import struct
import tempfile

import armi
from armi import runLog
from armi.nuclearDataIO.cccc import geodst, rtflux

assert armi.__file__.startswith(os.getcwd()), armi.__file__
runLog.setVerbosity("error")
FIX = os.path.join("armi", "nuclearDataIO", "cccc", "tests", "fixtures")

bad = []
with tempfile.TemporaryDirectory() as tmp:
    for name, reader, writer in [
        ("simple_cartesian.rtflux", rtflux.RtfluxStream.readBinary, rtflux.RtfluxStream.writeBinary),
        ("simple_hexz.geodst", geodst.readBinary, geodst.writeBinary),
    ]:
        raw = bytearray(open(os.path.join(FIX, name), "rb").read())
        raw[4 + 24 : 4 + 28] = struct.pack("i", 200)  # IVERS = 200 instead of 1
        p1, p2 = os.path.join(tmp, name), os.path.join(tmp, name + ".again")
        open(p1, "wb").write(raw)
        try:
            data = reader(p1)
            writer(data, p2)
            same = open(p2, "rb").read() == bytes(raw)
            print(f"{name}: IVERS=200 read ok, byte-identical rewrite: {same}")
            if not same:
                bad.append(name)
        except Exception as ee:
            print(f"{name}: expected IVERS=200 to be read and reproduced; observed {type(ee).__name__}: {ee}")
            bad.append(name)
if bad:
    print("DEFECT: well-formed files with IVERS=200 cannot be round-tripped:", bad)
    sys.exit(1)
print("no defect observed")
sys.exit(0)
