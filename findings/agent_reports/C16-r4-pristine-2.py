"""Pristine defect 2 (C16): keeping an array parameter whose shape changed inside the scope makes the
scope exit raise (numpy cannot compare the shapes in ParameterCollection.restoreBackup); the exception aborts
StateRetainer.__exit__, so every object after the failing one in the traversal is NOT restored at all."""
import sys, os
sys.path.insert(0, os.getcwd())
from armi import configure
configure(permissive=True)
import armi
assert armi.__file__.startswith(os.getcwd()), armi.__file__
from armi.testing import loadTestReactor
_o, r = loadTestReactor(inputFileName="smallestTestReactor/armiRunSmallest.yaml")
b = r.core.getFirstBlock()

import numpy as np
b0 = b
fuel = b.getComponentByName("fuel")  # visited after the block when the scope unwinds
b0.p.mgFlux = np.zeros(5)
tBefore = fuel.p.temperatureInC
pd = b0.p.paramDefs["mgFlux"]
err = None
try:
    with r.retainState([pd]):
        b0.p.mgFlux = np.ones(3)       # e.g. a different group structure
        fuel.p.temperatureInC = tBefore + 400.0  # not in keep-set: must be undone
except Exception as e:
    err = e
print("expected: scope exits cleanly, b0.p.mgFlux == ones(3) (kept), fuel temperatureInC restored to", tBefore)
print("observed: exception on exit:", repr(err))
print("observed: b0.p.mgFlux =", b0.p.mgFlux, " fuel temperatureInC =", fuel.p.temperatureInC)
bad = err is not None or fuel.p.temperatureInC != tBefore
print("DEFECT" if bad else "no defect")
sys.exit(1 if bad else 0)
