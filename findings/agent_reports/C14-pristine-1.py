"""Pristine defect: dischargeSwap(fresh, outgoing) with a stationary grid plate (the DEFAULT setting)
and trackAssems=True leaves core.blocksByName untruthful.

_transferStationaryBlocks exchanges the grid plates without renaming; Core.add then renumbers the
fresh assembly and renames ALL its blocks (including the grid plate inherited from the outgoing
assembly) - the old key stays in blocksByName; the placeholder-named grid plate that went to the
SFP with the outgoing assembly is in no table at all."""
import sys, os; sys.path.insert(0, os.getcwd())
from armi import configure; configure(permissive=True)
import armi
assert armi.__file__.startswith(os.getcwd()), armi.__file__
from armi import runLog
from armi.testing import loadTestReactor
from armi.physics.fuelCycle import fuelHandlers

o, r = loadTestReactor(customSettings={"trackAssems": True})
runLog.setVerbosity("error")
fh = fuelHandlers.FuelHandler(o)
core = r.core
out = core.getAssemblyWithStringLocation("003-002")
fresh = core.createAssemblyOfType(out.getType())
fh.dischargeSwap(fresh, out)
bad = []
for a in list(core) + list(r.excore["sfp"]):
    for b in a:
        if core.blocksByName.get(b.getName()) is not b:
            bad.append("block %s (in %s at %s) is not found by getBlockByName" % (b.getName(), a.getName(), a.getLocation()))
for k, b in core.blocksByName.items():
    if b.getName() != k:
        bad.append("getBlockByName(%r) returns a block named %s" % (k, b.getName()))
print("expected: every block of core+SFP found under its current name, every key maps to a block of that name")
if bad:
    print("observed:")
    for x in bad: print("  ", x)
    sys.exit(1)
print("observed: consistent")
