import sys, os; sys.path.insert(0, os.getcwd())
from armi import configure; configure(permissive=True)
import armi
assert armi.__file__.startswith(os.getcwd()), armi.__file__
from armi.reactor import assemblies, grids
from armi.reactor.tests.test_blocks import buildSimpleFuelBlock

def build(heights):
    a = assemblies.HexAssembly("fuel")
    a.spatialGrid = grids.AxialGrid.fromNCells(len(heights))
    a.spatialGrid.armiObject = a
    for h in heights:
        b = buildSimpleFuelBlock(); b.setHeight(h); a.add(b)
    a.calculateZCoords(); a.reestablishBlockOrder()
    return a

bad = []
# (1) fresh assembly (no snap list made yet: all topIndex == 0): setBlockHeights is silently a no-op
a = build([10.0, 20.0, 30.0])
a.setBlockHeights([20.0, 20.0, 20.0])
got = [b.getHeight() for b in a]
print("case 1 expected heights [20, 20, 20], observed", got)
if got != [20.0, 20.0, 20.0]:
    bad.append("fresh assembly: setBlockHeights ignored")
# (2) assembly snapped to a finer reference mesh (topIndex != block index): setBlockHeights
# indexes cumsum(heights) with topIndex -> wrong heights / partial application
a = build([20.0, 40.0])
a.makeAxialSnapList(refMesh=[10.0, 20.0, 40.0, 60.0])   # topIndex = [1, 3]
a.setBlockHeights([30.0, 30.0])
got = [b.getHeight() for b in a]
print("case 2 topIndex", [b.p.topIndex for b in a], "expected heights [30, 30], observed", got,
      "total", a.getTotalHeight())
if got != [30.0, 30.0]:
    bad.append("snapped assembly: setBlockHeights applied through topIndex")
if bad:
    print("DEFECT:", "; ".join(bad)); sys.exit(1)
print("no defect"); sys.exit(0)
