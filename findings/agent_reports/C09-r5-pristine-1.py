"""C09 pristine defect 1: a DLAYXS file whose file-ID label is blank padded is not reproduced byte for byte.

DlayxsIO._rwFileID sizes the file-ID record from len(label) when writing, but the reader strips trailing
blanks from every string, so a blank-padded label (the normal CCCC HNAME/HUSE layout) comes back shorter
and the re-written first record is shorter than the one that was read.
"""
import sys, os

sys.path.insert(0, os.getcwd())
from armi import configure

configure(permissive=True)
import struct
import tempfile

import armi
from armi import runLog
from armi.nuclearDataIO.cccc import dlayxs

assert armi.__file__.startswith(os.getcwd()), armi.__file__
runLog.setVerbosity("error")
FIXTURE = os.path.join("armi", "nuclearDataIO", "cccc", "tests", "fixtures", "mc2v3.dlayxs")

with tempfile.TemporaryDirectory() as tmp:
    raw = open(FIXTURE, "rb").read()
    (n,) = struct.unpack("i", raw[:4])
    label = b"DLAYXS  USER    USER    ".ljust(n)  # same record length, blank-padded HNAME/HUSE
    original = raw[:4] + label + raw[4 + n :]
    p1, p2 = os.path.join(tmp, "DLAYXS"), os.path.join(tmp, "DLAYXS.again")
    open(p1, "wb").write(original)
    lib = dlayxs.readBinary(p1)
    dlayxs.writeBinary(lib, p2)
    rewritten = open(p2, "rb").read()
    print("label read            :", repr(lib.metadata["label"]))
    print("expected file size    :", len(original), "first record", struct.unpack("i", original[:4])[0], "bytes")
    print("observed file size    :", len(rewritten), "first record", struct.unpack("i", rewritten[:4])[0], "bytes")
    if rewritten != original:
        print("DEFECT: writing what was read does not reproduce the DLAYXS file byte for byte")
        sys.exit(1)
print("no defect observed")
sys.exit(0)
