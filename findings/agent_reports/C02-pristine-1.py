"""C02 pristine defect 1: component-level mass accounting ignores / half-applies the symmetry factor.

On a component that sits in a block cut by symmetry lines (central assembly of a 1/3 hex core,
symmetry factor 3) Component.getMass() divides the volume by the parent's symmetry factor, but the
inherited ArmiObject.setMass / addMass / getMasses / getNumberOfAtoms / getHMMoles use the
component's full getVolume().  Hence, on the UNCHANGED armi:
  * c.setMass(nuc, m); c.getMass(nuc)  -> m / 3
  * c.addMass(nuc, m) raises the mass by m / 3
  * sum(c.getMasses().values()) == 3 * c.getMass()
  * block.getNumberOfAtoms(nuc) != sum(c.getNumberOfAtoms(nuc) for c in block)
"""
import sys, os

sys.path.insert(0, os.getcwd())
_hadLogs = os.path.exists("logs")
from armi import configure

configure(permissive=True)
import shutil

import armi

assert armi.__file__.startswith(os.getcwd()), armi.__file__
from armi import runLog
from armi.reactor import assemblies, blocks, components, geometry, grids, reactors
from armi.reactor import blueprints

runLog.setVerbosity("error")


def buildBlock(name):
    b = blocks.HexBlock(name, height=10.0)
    b.setType("fuel")
    b.add(components.Circle("fuel", "UZr", Tinput=25.0, Thot=600.0, od=0.76, id=0.0, mult=127.0))
    b.add(components.Circle("clad", "HT9", Tinput=25.0, Thot=450.0, od=0.80, id=0.77, mult=127.0))
    b.add(components.Hexagon("duct", "HT9", Tinput=25.0, Thot=400.0, op=16.0, ip=15.3, mult=1.0))
    b.add(components.DerivedShape("coolant", "Sodium", Tinput=25.0, Thot=400.0))
    return b


r = reactors.Reactor("R", blueprints.Blueprints())
r.add(reactors.Core("Core"))
grid = grids.HexGrid.fromPitch(16.0)
grid.symmetry = geometry.SymmetryType(geometry.DomainType.THIRD_CORE, geometry.BoundaryType.PERIODIC)
grid.geomType = geometry.HEX
grid.armiObject = r.core
r.core.spatialGrid = grid
a = assemblies.HexAssembly("fuel", assemNum=0)
a.spatialGrid = grids.AxialGrid.fromNCells(1)
a.spatialGrid.armiObject = a
a.add(buildBlock("b0"))
a.calculateZCoords()
r.core.add(a, grid[0, 0, 0])

b = a[0]
fuel = b.getComponentByName("fuel")
print("block symmetry factor:", b.getSymmetryFactor())
bad = []

m = float(fuel.getMass())
ms = float(sum(fuel.getMasses().values()))
print("fuel.getMass() = %r ; sum(fuel.getMasses().values()) = %r (expected equal)" % (m, ms))
if abs(m - ms) > 1e-9 * m:
    bad.append("getMasses")

atomsBlock = float(b.getNumberOfAtoms("U238"))
atomsComps = float(sum(c.getNumberOfAtoms("U238") for c in b))
print("block.getNumberOfAtoms('U238') = %r ; summed over components = %r (expected equal)" % (atomsBlock, atomsComps))
if abs(atomsBlock - atomsComps) > 1e-9 * atomsBlock:
    bad.append("getNumberOfAtoms")

m0 = float(fuel.getMass("ZR"))
fuel.addMass("ZR", 30.0)
d = float(fuel.getMass("ZR")) - m0
print("fuel.addMass('ZR', 30.0) changed fuel.getMass('ZR') by %r (expected 30.0)" % d)
if abs(d - 30.0) > 1e-6:
    bad.append("addMass")

fuel.setMass("U235", 100.0)
got = float(fuel.getMass("U235"))
print("fuel.setMass('U235', 100.0); fuel.getMass('U235') = %r (expected 100.0)" % got)
if abs(got - 100.0) > 1e-6:
    bad.append("setMass")

if not _hadLogs and os.path.isdir("logs"):
    shutil.rmtree("logs", ignore_errors=True)
if bad:
    print("DEFECT SHOWN:", bad)
    sys.exit(1)
print("no defect observed")
sys.exit(0)
