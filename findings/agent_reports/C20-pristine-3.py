"""Pristine defect candidate (C20): averaged nuclide temperatures apply the block volume twice.

AverageBlockCollection._getNucTempHelper multiplies each block's terms (n*v*T, n*v) -- which
already contain the block volume -- by getWeight(block), which is (weighting parameter) x volume
again.  For two fuel blocks of identical composition and heights h and 2h at fuel temperatures
T1 and T2 the documented atom-weighted mean  sum(n v T)/sum(n v)  is (T1 + 2 T2)/3, but the
collection reports (T1 + 4 T2)/5.  (Number densities of the same collection ARE volume-weighted
once.)  It still is a convex combination, so only an exact-weights check sees it.
"""
import sys, os

sys.path.insert(0, os.getcwd())
hadLogs = os.path.exists("logs")
import atexit, shutil

atexit.register(lambda: (not hadLogs) and shutil.rmtree("logs", ignore_errors=True))
from armi import configure

configure(permissive=True)
import contextlib
import copy

import armi

assert armi.__file__.startswith(os.getcwd()), armi.__file__
from armi import runLog

runLog.setVerbosity("error")
from armi.physics.neutronics.crossSectionGroupManager import AverageBlockCollection
from armi.reactor.flags import Flags
from armi.reactor.tests import test_reactors
from armi.tests import TEST_ROOT

with open(os.devnull, "w") as devnull, contextlib.redirect_stdout(devnull):
    _o, r = test_reactors.loadTestReactor(TEST_ROOT)
src = r.core.getBlocks(Flags.FUEL)[3]


def mk(height, fuelTemp):
    b = copy.deepcopy(src)
    b.p.height = height
    b.clearCache()
    # bypass thermal expansion so both blocks keep identical number densities
    b.getComponent(Flags.FUEL).temperatureInC = fuelTemp
    return b


T1, T2 = 500.0, 800.0
b1, b2 = mk(25.0, T1), mk(50.0, T2)
from armi.physics.neutronics.crossSectionGroupManager import getBlockNuclideTemperatureAvgTerms

# the documented formula sum(n v T) / sum(n v), using armi's own per-block terms
terms = [getBlockNuclideTemperatureAvgTerms(b, ["U238"]) for b in (b1, b2)]
expected = float(sum(t[0][0] for t in terms) / sum(t[1][0] for t in terms))
vols = [b1.getVolume(), b2.getVolume()]
squared = float(
    sum(t[0][0] * v for t, v in zip(terms, vols)) / sum(t[1][0] * v for t, v in zip(terms, vols))
)

bc = AverageBlockCollection(r.blueprints.allNuclidesInProblem)
bc.extend([b1, b2])
bc.calcAvgNuclideTemperatures()
got = bc.avgNucTemperatures["U238"]
if abs(got - expected) > 1e-6:
    print(
        "DEFECT: U238 fuel temperature %.1f C in a block of volume V and %.1f C in a block of volume "
        "%.2f V; expected atom-weighted mean sum(nvT)/sum(nv) = %.4f C, observed %.4f C "
        "(block volume applied twice would give %.4f C)"
        % (T1, T2, vols[1] / vols[0], expected, got, squared)
    )
    sys.exit(1)
print("no defect observed: %.4f" % got)
sys.exit(0)
