"""C13 pristine defect 2: centre assembly not scaled when growing to full core after an
add-edge call that found nothing to add.

EdgeAssemblyChanger.addEdgeAssemblies() always finishes with
ALL_DEFINITIONS.resetAssignmentFlag(SINCE_LAST_GEOMETRY_TRANSFORMATION). The third->full changer
only scales centre-assembly parameters that are VOLUME_INTEGRATED *and* flagged as assigned
since the last geometry transformation, and it processes the centre assembly first (before any
Core.add re-raises the flags). For a core with no assembly on the 0-degree symmetry line (two
rings, or holes there) nothing re-raises the flags, so the list of parameters to scale is empty:
the centre keeps its 1/3 power and the full-core total is not 3x the third-core total.
Run: cd <armi tree> && /venv/bin/python /tmp/seedout3/C13-pristine-2.py   (exit 1 = defect shown)
"""
import sys, os, shutil
sys.path.insert(0, os.getcwd())
from armi import configure
configure(permissive=True)
import armi
assert armi.__file__.startswith(os.getcwd())
from armi.testing import loadTestReactor, reduceTestReactorRings
from armi.reactor.converters.geometryConverters import (
    ThirdCoreHexToFullCoreChanger, EdgeAssemblyChanger)

o, r = loadTestReactor()
reduceTestReactorRings(r, o.cs, 2)
core = r.core
for b in core.iterBlocks():
    b.p.power = 10.0
third = core.getTotalBlockParam("power")
n0 = len(core)
EdgeAssemblyChanger().addEdgeAssemblies(core)   # nothing on the symmetry line: adds nothing
assert len(core) == n0
changer = ThirdCoreHexToFullCoreChanger(o.cs)
changer.convert(r)
full = core.getTotalBlockParam("power")
print("expected: full-core total power = 3 x third-core total =", 3 * third)
print("observed:", full, "ratio", full / third,
      "params scaled on centre:", changer.listOfVolIntegratedParamsToScale)
rc = 0 if abs(full - 3 * third) < 1e-9 * third else 1
shutil.rmtree(os.path.join(os.getcwd(), "logs"), ignore_errors=True)
sys.exit(rc)
