"""Pristine defect: Reactor.normalizeNames renames core and SFP assemblies, but
Core.normalizeInternalBookeeping rebuilds assembliesByName/blocksByName from the core children only:
every assembly in the spent fuel pool disappears from the by-name lookups."""
import sys, os; sys.path.insert(0, os.getcwd())
from armi import configure; configure(permissive=True)
import armi
assert armi.__file__.startswith(os.getcwd()), armi.__file__
from armi import runLog
from armi.testing import loadTestReactor
from armi.physics.fuelCycle import fuelHandlers

o, r = loadTestReactor(customSettings={"trackAssems": True, "stationaryBlockFlags": []})
runLog.setVerbosity("error")
core = r.core
a1 = core.getAssemblyWithStringLocation("003-002")
core.removeAssembly(a1)      # to the SFP
assert core.getAssemblyByName(a1.getName()) is a1
r.normalizeNames()
missing = [a.getName() for a in r.excore["sfp"] if core.assembliesByName.get(a.getName()) is not a]
print("expected: all SFP assemblies still found by name after normalizeNames")
print("observed: SFP assemblies not found under their current name:", missing)
sys.exit(1 if missing else 0)
