"""Pristine defect (C10, merge driver): getISOTXSLibrariesToMerge de-duplicates "ISOAA" against "ISOAA-doppler"
only when it is given bare file names. mergeXSLibrariesInWorkingDirectory always passes glob() results, i.e.
full paths; the comparison `iso == os.path.basename(iws).split("-")[0]` then never matches, both ISOAA and
ISOAA-doppler are selected and the subsequent merge of the two (same nuclide labels) is rejected with
AttributeError - so a directory holding a suffixed and an unsuffixed library for the same XS ID cannot be merged
with xsLibrarySuffix="-doppler", although the documented result is "the suffixed one replaces the plain one".
"""
import sys, os

sys.path.insert(0, os.getcwd())
from armi import configure

configure(permissive=True)
import armi
from armi.nuclearDataIO import xsLibraries

assert armi.__file__.startswith(os.getcwd()), armi.__file__
names = ["ISOAA", "ISOAA-doppler", "ISOAB"]
bare = xsLibraries.getISOTXSLibrariesToMerge("-doppler", list(names))
full = xsLibraries.getISOTXSLibrariesToMerge("-doppler", [os.path.join("/some/dir", n) for n in names])
full = [os.path.basename(f) for f in full]
print("bare names ->", sorted(bare))
print("full paths ->", sorted(full), " expected", sorted(bare))
if sorted(bare) != sorted(full):
    print("DEFECT: with full paths both ISOAA and ISOAA-doppler are selected for merging")
    sys.exit(1)
print("no defect observed")
