"""C09 pristine defect 1: COMPXS file-wide chi and delayed-neutron chi are stored in SINGLE precision.

Every real in a COMPXS file is handled as a double by armi (velocities, group bounds, region chi,
decay constants, all cross sections, power conversion factors) - except the file-wide fission
spectrum of the 2D record (_CompxsIO._rw2DRecord uses record.rwMatrix -> rwFloat) and the
delayed-neutron spectra (_rwDelayedProperties uses record.rwMatrix as well).  Both are optional,
flag-announced data (fileWideChiFlag > 0, numDelayedFam > 0) that the single COMPXS fixture does not
have.  Consequences: (a) values written are not read back to the precision of the format,
(b) the 2D record is 4 bytes per value short compared to the all-double layout.
"""
import sys, os

sys.path.insert(0, os.getcwd())
from armi import configure

configure(permissive=True)
import struct
import tempfile

import numpy as np

import armi
from armi.nuclearDataIO.cccc import compxs
from armi.tests import COMPXS_PATH

assert armi.__file__.startswith(os.getcwd()), armi.__file__

lib = compxs.readAscii(COMPXS_PATH)
md = lib.compxsMetadata
ng = md["numGroups"]
nfam = 2
md["fileWideChiFlag"] = 1
md["fileWideChi"] = (np.arange(ng, 0, -1) / (ng * (ng + 1) / 2.0)).reshape(ng, 1)  # sums to 1
md["numDelayedFam"] = nfam
md["delayedChi"] = np.array([[0.1 * (f + 1) / (g + 1) for g in range(ng)] for f in range(nfam)])
md["delayedDecayConstant"] = np.array([0.0127, 0.0317])
md["compFamiliesWithPrecursors"] = np.zeros(md["numComps"], dtype=int)
wroteChi = md["fileWideChi"].copy()
wroteDelayedChi = md["delayedChi"].copy()
wroteLambda = md["delayedDecayConstant"].copy()

bad = []
with tempfile.TemporaryDirectory() as tmp:
    name = os.path.join(tmp, "COMPXS")
    compxs.writeBinary(lib, name)
    back = compxs.readBinary(name)
    raw = open(name, "rb").read()
    # skip the 1D record, look at the length of the 2D record
    n1 = struct.unpack("i", raw[:4])[0]
    n2 = struct.unpack("i", raw[4 + n1 + 4 : 4 + n1 + 8])[0]
    allDouble = 8 * (ng + 2 * ng + 1 + ng * nfam + nfam) + 4 * md["numComps"]
    print("2D record payload: {} bytes; all-double layout would be {} bytes".format(n2, allDouble))
    gotChi = back.compxsMetadata["fileWideChi"]
    gotDelayedChi = back.compxsMetadata["delayedChi"]
    print("decay constants (double) round trip exactly:", np.array_equal(back.compxsMetadata["delayedDecayConstant"], wroteLambda))
    if not np.array_equal(gotChi, wroteChi):
        bad.append("fileWideChi: wrote {!r}, read {!r}".format(float(wroteChi[1, 0]), float(gotChi[1, 0])))
    if not np.array_equal(gotDelayedChi, wroteDelayedChi):
        bad.append("delayedChi: wrote {!r}, read {!r}".format(float(wroteDelayedChi[0, 0]), float(gotDelayedChi[0, 0])))
    if n2 != allDouble:
        bad.append("2D record is {} bytes, not {}".format(n2, allDouble))

print("expected: file-wide chi and delayed chi read back equal to what was written (doubles, like the rest of the file)")
if bad:
    print("observed DEFECT:")
    for b in bad:
        print("  " + b)
    sys.exit(1)
print("observed: equal")
sys.exit(0)
