"""C04 pristine 1: the geometry label of a corners-up hex core grid is not round-tripped.

GridBlueprint.construct writes the blueprint string straight into the private field
(``spatialGrid._geomType = str(self.geom)`` -> "hex_corners_up"), bypassing the Grid.geomType
setter that canonicalises it to "hex". Grid.reduce() (what the database stores) therefore says
"hex_corners_up" for the reactor built from blueprints, while the grid rebuilt by the database goes
through the setter and says "hex". So the loaded reactor's core grid does not reduce to the same
GridParameters as the original, and a database written from the loaded reactor differs from the
first one in layout/grids/N/geomType (first generation "hex_corners_up", second generation "hex").
The orientation itself (unit steps) survives; only this grid attribute changes.

Expected: reduce() of the core grid, and the stored geomType dataset, equal before and after.
"""
import sys, os

sys.path.insert(0, os.getcwd())
_HAD_LOGS = os.path.exists(os.path.join(os.getcwd(), "logs"))
from armi import configure

configure(permissive=True)

import contextlib
import shutil
import tempfile

import armi

assert os.path.abspath(armi.__file__).startswith(os.getcwd()), armi.__file__

from armi import runLog
from armi.bookkeeping.db import Database
from armi.testing import loadTestReactor
from armi.tests import TEST_ROOT


@contextlib.contextmanager
def quiet():
    sys.stdout.flush()
    sys.stderr.flush()
    saved = os.dup(1), os.dup(2)
    devnull = os.open(os.devnull, os.O_WRONLY)
    try:
        os.dup2(devnull, 1)
        os.dup2(devnull, 2)
        yield
    finally:
        sys.stdout.flush()
        sys.stderr.flush()
        os.dup2(saved[0], 1)
        os.dup2(saved[1], 2)
        for fd in (devnull,) + saved:
            os.close(fd)


def storedGeomTypes(db):
    g = db.h5db["c00n00/layout/grids"]
    types = [t.decode() for t in g["type"][:]]
    return [(t, g[str(i)]["geomType"].asstr()[()]) for i, t in enumerate(types)]


def main():
    tmp = tempfile.mkdtemp(prefix="c04p1")
    cwd = os.getcwd()
    try:
        with quiet():
            o, r = loadTestReactor(
                os.path.join(TEST_ROOT, "smallestTestReactor"),
                inputFileName="armiRunSmallest.yaml",
            )
            runLog.setVerbosity("error")
            mem = r.core.spatialGrid.reduce()
            db1 = Database(os.path.join(tmp, "gen1.h5"), "w")
            db1.open()
            db1.writeToDB(r)
            stored1 = storedGeomTypes(db1)
            r2 = db1.load(0, 0, cs=o.cs, bp=r.blueprints)
            db1.h5db.close()
            db1.h5db = None
            ld = r2.core.spatialGrid.reduce()
            db2 = Database(os.path.join(tmp, "gen2.h5"), "w")
            db2.open()
            db2.writeToDB(r2)
            stored2 = storedGeomTypes(db2)
            db2.h5db.close()
            db2.h5db = None
    finally:
        os.chdir(cwd)
        shutil.rmtree(tmp, ignore_errors=True)
        if not _HAD_LOGS:
            shutil.rmtree(os.path.join(cwd, "logs"), ignore_errors=True)

    print("core grid cornersUp in memory / loaded:", r.core.spatialGrid.cornersUp, r2.core.spatialGrid.cornersUp)
    print("expected core grid reduce().geomType :", repr(mem.geomType))
    print("observed after save/load             :", repr(ld.geomType))
    print("grids stored by the first  file      :", stored1)
    print("grids stored by the second file      :", stored2)
    if mem.geomType != ld.geomType or stored1 != stored2:
        print("DEFECT SHOWN on unchanged armi")
        return 1
    print("no defect observed")
    return 0


if __name__ == "__main__":
    sys.exit(main())
