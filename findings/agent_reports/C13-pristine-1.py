"""C13 pristine defect 1: a third-core map with a hole at the centre (no 001-001 assembly).

convert() works (there is simply no centre assembly to scale), but restorePreviousGeometry()
unconditionally does `for b in core.getAssemblyWithStringLocation("001-001")` and dies with
TypeError after it has already removed the copies and reset the symmetry, before self.reset().
Run: cd <armi tree> && /venv/bin/python /tmp/seedout3/C13-pristine-1.py   (exit 1 = defect shown)
"""
import sys, os, shutil
sys.path.insert(0, os.getcwd())
from armi import configure
configure(permissive=True)
import armi
assert armi.__file__.startswith(os.getcwd())
from armi.testing import loadTestReactor, reduceTestReactorRings
from armi.reactor.converters.geometryConverters import ThirdCoreHexToFullCoreChanger

o, r = loadTestReactor()
reduceTestReactorRings(r, o.cs, 3)
core = r.core
core.removeAssembly(core.getAssemblyWithStringLocation("001-001"), discharge=False)
before = sorted((a.getLocation(), a.getName()) for a in core)
changer = ThirdCoreHexToFullCoreChanger(o.cs)
changer.convert(r)
print("third core without centre:", len(before), "assemblies; full core:", len(core))
rc = 0
try:
    changer.restorePreviousGeometry(r)
    after = sorted((a.getLocation(), a.getName()) for a in core)
    print("expected: restore returns the previous core; observed: restored, same =", after == before)
    rc = 0 if after == before else 1
except Exception as e:
    print("expected: restorePreviousGeometry() returns the core to its previous state")
    print(f"observed: {type(e).__name__}: {e}; converter still remembers "
          f"{len(changer._newAssembliesAdded)} (already removed) assemblies")
    rc = 1
shutil.rmtree(os.path.join(os.getcwd(), "logs"), ignore_errors=True)
sys.exit(rc)
