"""Pristine defect: integer-looking assembly specifiers work in a core lattice map but not in an explicit `grid contents` list.

Specifiers "1" and "2": the text map hands them over as strings; the YAML list hands them over as ints and
SystemBlueprint._loadComposites looks the int up in a dict keyed by str -> bare KeyError(1).  (The analogous pin-lattice
case was fixed in GridBlueprint.getLocators; the core path was not.)
"""
import sys, os
sys.path.insert(0, os.getcwd())
from armi import configure
configure(permissive=True)
import armi
assert armi.__file__.startswith(os.getcwd()), armi.__file__
from armi import settings, runLog
from armi.reactor import blueprints, reactors
runLog.setVerbosity("error")

BASE = r"""
nuclide flags:
    U: {burn: false, xs: true}
    ZR: {burn: false, xs: true}
blocks:
    b: &block_b
        fuel:
            shape: Hexagon
            material: UZr
            Tinput: 600.0
            Thot: 600.0
            ip: 0.0
            mult: 1
            op: 10.0
assemblies:
    one:
        specifier: "1"
        blocks: [*block_b]
        height: [10.0]
        axial mesh points: [1]
        xs types: [A]
    two:
        specifier: "2"
        blocks: [*block_b]
        height: [10.0]
        axial mesh points: [1]
        xs types: [B]
systems:
    core:
        grid name: GRIDNAME
        origin: {x: 0.0, y: 0.0, z: 0.0}
grids:
    core:
        geom: hex
        symmetry: full
"""
BASE = BASE.replace("GRIDNAME", "core")
MAPV = BASE + """        lattice map: |
          - 2 2
           2 1 2
            2 2
"""
LISTV = BASE + """        grid contents:
          [0, 0]: 1
          [1, 0]: 2
          [0, 1]: 2
          [-1, 1]: 2
          [-1, 0]: 2
          [0, -1]: 2
          [1, -1]: 2
"""
MAPV = MAPV.replace("geom: hex", "geom: hex_corners_up")
LISTV = LISTV.replace("geom: hex", "geom: hex_corners_up")
res = {}
for label, txt in (("map", MAPV), ("list", LISTV)):
    bp = blueprints.Blueprints.load(txt)
    try:
        r = reactors.factory(settings.Settings(), bp)
        res[label] = sorted((tuple(int(x) for x in a.spatialLocator.getCompleteIndices()[:2]), a.getType()) for a in r.core)
    except Exception as e:
        res[label] = "ERROR " + repr(e)
    print(f"{label:5} -> {res[label]}")
print("expected: both forms give the same seven assemblies (`one` at (0,0), `two` around it)")
if res["map"] != res["list"]:
    print("DEFECT: the explicit list form of the same core is not built like the map form")
    sys.exit(1)
print("no defect observed")
