"""Pristine defect (C17): the `medium` write style promises to keep every setting that the
user's input file mentioned, even when its value equals the default.  The list of
user-mentioned names is taken verbatim from the YAML keys (Settings.getSettingsSetByUser),
but the writer compares it with CURRENT setting names.  A setting that the user's file
spells with a still-accepted OLD name (e.g. `burnTime` for `cycleLength`, `numProcessors`
for `nTasks`) and leaves at its default value is therefore dropped by the medium writer,
although the reader accepted it and mapped it to the new name."""
import sys, os; sys.path.insert(0, os.getcwd())
from armi import configure; configure(permissive=True)
import tempfile
import armi
assert armi.__file__.startswith(os.getcwd()), armi.__file__
from armi.settings import caseSettings

tmp = tempfile.mkdtemp()
src = os.path.join(tmp, "old.yaml")
dst = os.path.join(tmp, "new.yaml")
default = caseSettings.Settings()
with open(src, "w") as f:
    f.write(
        "settings:\n"
        f"  burnTime: {default['cycleLength']}\n"      # old name of cycleLength, default value
        f"  availabilityFactor: {default['availabilityFactor']}\n"  # current name, default value
        "  numProcessors: 1\n"                           # old name of nTasks, default value
        "  nCycles: 3\n"
    )

cs = caseSettings.Settings(src)
cs.writeToYamlFile(dst, style="medium", fromFile=src)
text = open(dst).read()

expected = ["cycleLength", "availabilityFactor", "nTasks", "nCycles"]
missing = [n for n in expected if f"\n  {n}:" not in text]
print("medium-style output:\n" + text)
print("expected keys kept :", expected)
print("missing            :", missing)
if missing:
    print("FAIL: settings given by the user under an accepted old name were dropped by the medium writer")
    sys.exit(1)
print("PASS")
