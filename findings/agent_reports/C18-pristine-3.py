"""C18, pristine defect 3: with the DEFAULT setting inputHeightsConsideredHot: True, a custom
isotopics `density` on a solid library material gives the component a hot density (and mass)
that is (1 + dL/L) too high.

The docs say the density "should be specified at the input temperature for the component".  A
solid that has density rho_in at Tinput has rho_in / (1 + dL/L)**3 at Thot, whatever the meaning
of the block heights.  That is what ARMI gives a library-density component in both height modes,
and what it gives a custom-density component under cold heights.  Under hot heights,
ComponentBlueprint._setComponentCustomDensity uses (1 + dL/L)**2 instead, so restating the
library density of HT9 at Tinput as a custom density makes the component 0.7 % denser/heavier
than the same component without the `density` entry."""
import sys, os

sys.path.insert(0, os.getcwd())
from armi import configure

configure(permissive=True)
import armi

assert os.path.abspath(armi.__file__).startswith(os.getcwd()), armi.__file__
from armi import runLog, settings
from armi.materials import HT9
from armi.reactor import blueprints

runLog.setVerbosity("error")

TIN, THOT = 25.0, 600.0
RHO_IN = HT9().density(Tc=TIN)  # the library density of HT9 at the input temperature

BP = """
nuclide flags:
    FE: {burn: false, xs: true}
    C: {burn: false, xs: true}
    CR: {burn: false, xs: true}
    MN: {burn: false, xs: true}
    MO: {burn: false, xs: true}
    NI: {burn: false, xs: true}
    SI: {burn: false, xs: true}
    V: {burn: false, xs: true}
    W: {burn: false, xs: true}
custom isotopics:
    iron at library density:
        input format: mass fractions
        density: %r
        FE: 1.0
blocks:
    reflector: &block_r
        duct:
            shape: Hexagon
            material: HT9
            ISO
            Tinput: %r
            Thot: %r
            ip: 0.0
            mult: 1.0
            op: 5.0
assemblies:
    refl a:
        specifier: IC
        blocks: [*block_r, *block_r, *block_r]
        height: [10, 10, 10]
        axial mesh points: [1, 1, 1]
        xs types: [A, A, A]
""" % (RHO_IN, TIN, THOT)


def main():
    dLL = HT9().linearExpansionFactor(Tc=THOT, T0=TIN)
    want = RHO_IN / (1.0 + dLL) ** 3
    print("HT9 density at Tinput %.6f g/cc, dL/L(%g->%g C) = %.6f" % (RHO_IN, TIN, THOT, dLL))
    print("expected component density at Thot in every case: %.6f g/cc" % want)
    bad = []
    for hot in (False, True):
        for iso in ("", "isotopics: iron at library density"):
            cs = settings.Settings().modified(newSettings={"inputHeightsConsideredHot": hot})
            bp = blueprints.Blueprints.load(BP.replace("ISO", iso))
            a = bp.constructAssem(cs, name="refl a")
            c = a[0][0]
            got = c.density()
            ok = abs(got - want) < 1e-6 * want
            print(
                "   inputHeightsConsideredHot=%-5s %-22s density %.6f g/cc, block-0 mass %.4f g%s"
                % (hot, "custom density" if iso else "library density", got, c.getMass(), "" if ok else "   <-- WRONG (ratio %.6f)" % (got / want))
            )
            if not ok:
                bad.append((hot, bool(iso)))
    if bad:
        print("DEFECT SHOWN for (inputHeightsConsideredHot, customDensity) =", bad)
        return 1
    print("no defect observed")
    return 0


if __name__ == "__main__":
    sys.exit(main())
