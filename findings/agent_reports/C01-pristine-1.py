"""Pristine C01 defect 1: Composite.add (and Assembly.add / ExcoreStructure.add built on it) does not take the
object out of its previous parent, so after p1.add(x); p2.add(x) the object is listed by two parents."""
import sys, os

sys.path.insert(0, os.getcwd())
from armi import configure

configure(permissive=True)
import armi

assert armi.__file__.startswith(os.getcwd()), armi.__file__
import copy, pickle
from armi import settings, tests, runLog
from armi.reactor import assemblies, blocks, grids, composites
from armi.reactor.components import Hexagon, Circle
from armi.materials import uZr

runLog.setVerbosity("error")


def mkBlock(typ="fuel"):
    b = blocks.HexBlock("TestBlock")
    b.setType(typ)
    b.add(Hexagon("duct", uZr.UZr(), Tinput=600, Thot=600, op=16.0, ip=15.0, mult=1))
    b.add(Circle("fuel", uZr.UZr(), Tinput=600, Thot=600, od=0.5, id=0.0, mult=7))
    b.add(Circle("clad", uZr.UZr(), Tinput=600, Thot=600, od=0.6, id=0.5, mult=7))
    return b


def mkAssem(n=2, num=None):
    a = assemblies.HexAssembly("fuel", assemNum=num)
    a.spatialGrid = grids.AxialGrid.fromNCells(n)
    for _ in range(n):
        a.add(mkBlock())
    return a


bad = []


def check(ok, expected, observed):
    print(("ok      " if ok else "DEFECT  ") + f"expected: {expected}; observed: {observed}")
    if not ok:
        bad.append(observed)


def finish():
    print("DEFECT PRESENT" if bad else "no defect observed")
    sys.exit(1 if bad else 0)

p1, p2, x = composites.Composite("p1"), composites.Composite("p2"), composites.Composite("x")
p1.add(x)
p2.add(x)
listers = [p.name for p in (p1, p2) if any(c is x for c in p._children)]
check(len(listers) == 1, "x listed by exactly one parent after p1.add(x); p2.add(x)", f"listed by {listers}, x.parent={x.parent.name}")

a1, a2 = mkAssem(2, 1), mkAssem(2, 2)
b = a1[0]
a2.add(b)  # move a block to another assembly
inA1 = any(c is b for c in a1._children)
inA2 = any(c is b for c in a2._children)
check(not (inA1 and inA2), "block listed by one assembly after a2.add(a1[0])", f"in a1: {inA1}, in a2: {inA2}, b.parent is a2: {b.parent is a2}")
check(all(c.parent is a1 for c in a1._children), "every child of a1 has parent a1", [c.parent.getName() for c in a1._children])
finish()
