"""
PRISTINE defect (C05): Database.getHistories / getHistory does not run a parameter's Serializer.
For the `flags` parameter (FlagSerializer) the history of past time nodes comes back as the raw
uint8 byte rows that are stored in the HDF5 file, not as Flags; the entry for the current time node
(taken from memory) is a Flags object, so one history mixes both.  Flag-order differences between
writer and reader are therefore not handled on this path at all.

Run: cd <armi tree> && /venv/bin/python /tmp/seedout4/C05-pristine-2.py   (exit 1 = defect shown)
"""
import sys, os

sys.path.insert(0, os.getcwd())
HERE = os.getcwd()
from armi import configure

configure(permissive=True)
import armi

assert armi.__file__.startswith(os.getcwd())
import contextlib, io, shutil, tempfile
from armi.bookkeeping.db.database import Database
from armi.reactor.flags import Flags
from armi.reactor.tests.test_reactors import loadTestReactor
from armi.tests import TEST_ROOT

with contextlib.redirect_stdout(io.StringIO()):
    o, r = loadTestReactor(
        TEST_ROOT, inputFileName="smallestTestReactor/armiRunSmallest.yaml"
    )
b = r.core[0][0]
d = tempfile.mkdtemp()
db = Database(os.path.join(d, "h.h5"), "w")
with contextlib.redirect_stdout(io.StringIO()):
    db.open()
    for cycle in range(2):
        r.p.cycle, r.p.timeNode = cycle, 0
        db.writeToDB(r)
    r.p.cycle = 2
    hist = db.getHistory(b, ["flags"])["flags"]
    db.close(True)
shutil.rmtree(d, ignore_errors=True)
shutil.rmtree(os.path.join(HERE, "logs"), ignore_errors=True)
print("written at every time node:", repr(b.p.flags))
bad = False
for ts, val in hist.items():
    ok = isinstance(val, Flags) and val == b.p.flags
    print("history", ts, "->", repr(val), "" if ok else "   <-- not the Flags that was written")
    bad |= not ok
if bad:
    print("DEFECT: serializer-backed parameter is returned undecoded by getHistories")
    sys.exit(1)
print("no defect")
