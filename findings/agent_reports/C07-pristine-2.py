"""Pristine defect: a grid mixing unit steps (x, y) with bounds (z) cannot be rebuilt
from its own reduce() arguments.

Such a grid must be constructed with 2x2 unit steps (see
test_positionsMixedDefinition); reduce() re-inflates them to
((a, b), (c, d), 0) - a ragged sequence that numpy refuses in __init__.
"""
import sys, os

sys.path.insert(0, os.getcwd())
from armi import configure

configure(permissive=True)
import armi

assert armi.__file__.startswith(os.getcwd()), armi.__file__
import numpy as np
from armi.reactor import grids

grid = grids.CartesianGrid(
    unitSteps=((1.26, 0.0), (0.0, 1.26)),
    bounds=(None, None, [0.0, 20.0, 60.0, 90.0]),
    unitStepLimits=((-2, 2), (-2, 2), (0, 1)),
)
print("original getCoordinates((1, 1, 1)) =", grid.getCoordinates((1, 1, 1)))
params = grid.reduce()
print("reduce().unitSteps =", params.unitSteps)
print("expected: type(grid)(*grid.reduce()) gives the same coordinates for every index")
try:
    clone = type(grid)(*params)
    same = np.allclose(clone.getCoordinates((1, 1, 1)), grid.getCoordinates((1, 1, 1)))
    print("observed: rebuilt; same coordinates:", same)
    sys.exit(0 if same else 1)
except Exception as e:
    print("observed: rebuilding raises", repr(e))
    sys.exit(1)
