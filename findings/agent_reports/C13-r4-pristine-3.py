"""C13 pristine defect 3: the circular-ring location table is not rebuilt by the conversion.

With circular ring mode on, Core.getAssembliesInRing uses Core.circularRingList, a table of location
labels built once from the third core.  After growing to full core the stale table still only knows
the third-core locations, so the ring holds as many assemblies as before instead of three times.
"""
import sys, os

sys.path.insert(0, os.getcwd())
from armi import configure

configure(permissive=True)
import armi

assert armi.__file__.startswith(os.getcwd()), armi.__file__
import shutil
import numpy as np
from armi import runLog
from armi.reactor import grids, zones
from armi.reactor.converters import geometryConverters
from armi.reactor.tests.test_reactors import TEST_ROOT, loadTestReactor, reduceTestReactorRings

runLog.setVerbosity("error")


def finish(rc):
    shutil.rmtree(os.path.join(os.getcwd(), "logs"), ignore_errors=True)
    sys.exit(rc)


o, r = loadTestReactor(TEST_ROOT)
reduceTestReactorRings(r, o.cs, 3)
core = r.core
core._circularRingMode = True
nThird = len(core.getAssembliesInRing(2))
changer = geometryConverters.ThirdCoreHexToFullCoreChanger(o.cs)
changer.convert(r)
nFull = len(core.getAssembliesInRing(2))
nFullHex = len(core.getAssembliesInRing(2, overrideCircularRingMode=True))
print("ring 2 in third core:", nThird, "assemblies")
print("expected in full core:", 3 * nThird, "(hex-ring lookup gives", nFullHex, ")")
print("observed in full core (circular ring mode):", nFull)
if nFull != 3 * nThird:
    print("DEFECT: ring lookup after the conversion still resolves against the third-core table")
    finish(1)
print("no defect observed")
finish(0)
