"""Pristine defect (C03): a Square keeps hidden copies of its widths that do not follow links or updates.

Square.__init__ stores lengthOuter=widthOuter and lengthInner=widthInner, but Square.DIMENSION_NAMES
(taken from the constructor signature) only lists widthOuter/widthInner.  resolveLinkedDims therefore
never resolves the link string stored in lengthInner/lengthOuter: the thermally expanding dimension
"lengthInner" of a Square whose widthInner is linked is the raw string 'inner.widthOuter' (getDimension
raises TypeError), and after setDimension("widthOuter", x) lengthOuter still has the old value.
"a dimension linked to another component always equals that component's current dimension" and
"every thermally expanding dimension equals cold value * factor" fail for these two Square dimensions.
"""
import sys, os

sys.path.insert(0, os.getcwd())
from armi import configure

configure(permissive=True)
import armi

assert armi.__file__.startswith(os.getcwd()), armi.__file__
from armi import runLog

runLog.setVerbosity("error")
from armi.reactor import blocks
from armi.reactor.components import Square

b = blocks.CartesianBlock("b", height=10.0)
inner = Square("inner", "HT9", 25.0, 500.0, widthOuter=2.0, mult=1)
outer = Square("outer", "HT9", 25.0, 450.0, widthOuter=3.0, widthInner="inner.widthOuter", mult=1)
b.add(inner)
b.add(outer)
outer.resolveLinkedDims({"inner": inner})

bad = False
print("outer.p.widthInner  =", repr(outer.p.widthInner))
print("outer.p.lengthInner =", repr(outer.p.lengthInner), " (in THERMAL_EXPANSION_DIMS:", "lengthInner" in outer.THERMAL_EXPANSION_DIMS, ")")
try:
    val = outer.getDimension("lengthInner")
    print("outer.getDimension('lengthInner') =", val, " expected", inner.getDimension("widthOuter"))
    bad |= abs(val - inner.getDimension("widthOuter")) > 1e-12
except Exception as ee:
    print("outer.getDimension('lengthInner') raised {}: {}".format(type(ee).__name__, ee))
    bad = True

inner.setDimension("widthOuter", 2.5)
lo, wo = inner.getDimension("lengthOuter"), inner.getDimension("widthOuter")
print("after inner.setDimension('widthOuter', 2.5): hot widthOuter = {:.6f}, hot lengthOuter = {:.6f}".format(wo, lo))
bad |= abs(lo - wo) > 1e-12
if bad:
    print("DEFECT: Square.lengthInner/lengthOuter do not follow the link / the width they mirror")
    sys.exit(1)
print("no defect observed")
