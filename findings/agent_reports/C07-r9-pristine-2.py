"""Labels of cells with a negative index (any Cartesian cell left of / below the centre) cannot be mapped back."""
import sys, os
sys.path.insert(0, os.getcwd())
from armi import configure
configure(permissive=True)
from armi.reactor import grids

g = grids.CartesianGrid.fromRectangle(1.0, 1.0)
idx = (-1, 2, 0)
label = g.getLabel(idx)
try:
    back = grids.locatorLabelToIndices(label)
except Exception as e:
    back = "%s: %s" % (type(e).__name__, e)
print("indices", idx, "label", repr(label), "expected back", idx, "observed", back)
sys.exit(0 if back == idx else 1)
