"""Pristine defect 2: a refused Core.add leaves the assembly inside the core.

Core.add appends the assembly to the core's children BEFORE it checks that the location is free, so
after the refusal the core has one child more than locations, the assembly's parent is the core, and it
is in none of the lookups.  The refusal itself surfaces as a KeyError (the message formats
childrenByLocator[a.spatialLocator] with the assembly's OWN locator rather than the requested one)
instead of the documented ValueError.
"""
import sys, os; sys.path.insert(0, os.getcwd())
from armi import configure; configure(permissive=True)
import armi
assert armi.__file__.startswith(os.getcwd()), armi.__file__
from armi.testing import loadTestReactor
from armi.tests import TEST_ROOT
from armi.physics.fuelCycle import fuelHandlers

o, r = loadTestReactor(TEST_ROOT)
core = r.core
n = len(core)
target = core.getAssemblyWithStringLocation("003-002").spatialLocator
fresh = core.createAssemblyOfType("igniter fuel")
raised = None
try:
    core.add(fresh, target)
except Exception as e:
    raised = e
print("expected: ValueError, core unchanged ({} assemblies), fresh assembly not a child".format(n))
print("observed: raised {!r}; len(core) = {}; fresh in core: {}; fresh.parent = {}; len(childrenByLocator) = {}; in assembliesByName: {}".format(
    raised, len(core), fresh in core, fresh.parent, len(core.childrenByLocator), fresh.getName() in core.assembliesByName))
bad = (not isinstance(raised, ValueError)) or len(core) != n or fresh in core
print("DEFECT" if bad else "no defect")
sys.exit(1 if bad else 0)
