"""C04 pristine 1: a free-coordinate child of a block that has a pin grid is loaded as an IndexLocation."""
import sys, os

sys.path.insert(0, os.getcwd())
from armi import configure

configure(permissive=True)

import shutil
import tempfile

import armi

assert armi.__file__.startswith(os.getcwd()), armi.__file__

from armi import runLog
from armi.bookkeeping.db import Database
from armi.reactor import grids
from armi.testing import loadTestReactor, reduceTestReactorRings
from armi.tests import TEST_ROOT


def build():
    o, r = loadTestReactor(TEST_ROOT)
    runLog.setVerbosity("error")
    reduceTestReactorRings(r, o.cs, 2)
    return o, r


def roundTrip(o, r, tmp, tag="rt"):
    """Returns (loadedReactor, None) or (None, 'what failed')."""
    db = Database(os.path.join(tmp, tag + ".h5"), "w")
    db.open()
    try:
        try:
            db.writeToDB(r)
        except Exception as e:
            return None, "writeToDB raised {}: {}".format(type(e).__name__, str(e)[:150])
        try:
            return db.load(0, 0, cs=o.cs, bp=r.blueprints), None
        except Exception as e:
            return None, "load raised {}: {}".format(type(e).__name__, str(e)[:150])
    finally:
        db.h5db.close()
        db.h5db = None


def report(problems):
    if problems:
        print("DEFECT SHOWN on unchanged armi ({} observations)".format(len(problems)))
        for p in problems:
            print("  ", p)
        return 1
    print("no defect observed")
    return 0


def main():
    o, r = build()
    b = r.core[1][1]
    assert b.spatialGrid is not None
    duct = [c for c in b if c.name == "duct"][0]
    cool = [c for c in b if c.name == "coolant"][0]
    # a free coordinate inside the block (e.g. an off-centre duct)
    duct.spatialLocator = grids.CoordinateLocation(0.25, -0.5, 0.0, b.spatialGrid)
    tmp = tempfile.mkdtemp(prefix="c04p1")
    try:
        r2, err = roundTrip(o, r, tmp)
    finally:
        shutil.rmtree(tmp, ignore_errors=True)
    if err:
        return report([err])
    b2 = r2.core[1][1]
    problems = []
    for c in (duct, cool):
        c2 = [x for x in b2 if x.name == c.name][0]
        l1, l2 = c.spatialLocator, c2.spatialLocator
        if type(l1) is not type(l2):
            problems.append(
                "{}: expected locator type {}, observed {}".format(
                    c.name, type(l1).__name__, type(l2).__name__
                )
            )
        x1 = [float(v) for v in l1.getLocalCoordinates()]
        x2 = [float(v) for v in l2.getLocalCoordinates()]
        if x1 != x2:
            problems.append(
                "{}: expected local coordinates {}, observed {}".format(c.name, x1, x2)
            )
    return report(problems)


if __name__ == "__main__":
    sys.exit(main())
