"""C07 pristine 4: global cell base/top of a location three grids deep (pin in block in assembly) add the ancestors cell BASE/TOP instead of their centre, so the pin cell is shifted by half an assembly pitch and (base+top)/2 is not the pin centre; a CoordinateLocation inside a nested grid ignores its parents altogether."""
import sys, os
sys.path.insert(0, os.getcwd())
from armi import configure
configure(permissive=True)
import armi
assert armi.__file__.startswith(os.getcwd()), armi.__file__
import math
import numpy as np
from armi.reactor import grids
bad = []

from armi.reactor.composites import Composite
reactor, core, assem, block = (Composite(n) for n in ("reactor", "core", "assem", "block"))
reactor.add(core); core.add(assem); assem.add(block)
core.spatialGrid = grids.CartesianGrid.fromRectangle(10.0, 10.0, armiObject=core)
assem.spatialLocator = core.spatialGrid[2, 3, 0]
assem.spatialGrid = grids.AxialGrid.fromNCells(5, armiObject=assem)
block.spatialLocator = assem.spatialGrid[0, 0, 3]
block.spatialGrid = grids.CartesianGrid.fromRectangle(1.0, 1.0, armiObject=block)
pin = block.spatialGrid[1, -2, 0]
centre = pin.getGlobalCoordinates()
base, top = pin.getGlobalCellBase(), pin.getGlobalCellTop()
expBase = np.array([centre[0] - 0.5, centre[1] - 0.5, 3.0])
expTop = np.array([centre[0] + 0.5, centre[1] + 0.5, 4.0])
if not np.allclose(base, expBase):
    bad.append(f"pin centre {centre}: expected global cell base {expBase}, observed {base}")
if not np.allclose(top, expTop):
    bad.append(f"pin centre {centre}: expected global cell top {expTop}, observed {top}")
free = grids.CoordinateLocation(0.25, 0.5, 0.1, block.spatialGrid)
if not np.allclose(free.getGlobalCellBase(), free.getGlobalCoordinates()):
    bad.append(f"CoordinateLocation in block: global coordinates {free.getGlobalCoordinates()} but global cell base {free.getGlobalCellBase()} (parents ignored)")

if bad:
    print("DEFECT")
    for b in bad[:10]:
        print("  ", b)
    sys.exit(1)
print("no defect observed")
sys.exit(0)

