"""C09 pristine defect 3: the ISOTXS / GAMISO file label (HNAME of the file identification record)
is not round-tripped, and WRITING a library silently rewrites the label in the caller's container.

IsotxsIO._fileID calls _updateFileLabel() after rwString in BOTH directions.  On write the label
held by the library goes into the file, then the library's metadata is overwritten with "ISOTXS";
on read whatever label the file holds is replaced by "ISOTXS".  (For GAMISO the intended
_FILE_LABEL = "GAMISO" is declared on _GamisoNuclideIO, which never uses it, instead of on
_GamisoIO, so GAMISO libraries are relabelled "ISOTXS" too.)  Hence: label written != label read
back, and reading a file whose label is not exactly "ISOTXS" and writing it again does not
reproduce the file byte for byte.
"""
import sys, os

sys.path.insert(0, os.getcwd())
from armi import configure

configure(permissive=True)
import tempfile

import armi
from armi.nuclearDataIO.cccc import gamiso, isotxs

assert armi.__file__.startswith(os.getcwd()), armi.__file__
FIX = os.path.join(os.getcwd(), "armi", "nuclearDataIO", "tests", "fixtures")

bad = []
with tempfile.TemporaryDirectory() as tmp:
    for kind, mod, fixture, attr, label in (
        ("ISOTXS", isotxs, "ISOAA", "isotxsMetadata", "ISOTXS MCC3 V2"),
        ("GAMISO", gamiso, "AA.gamiso", "gamisoMetadata", "GAMISO"),
    ):
        lib = mod.readBinary(os.path.join(FIX, fixture))
        getattr(lib, attr)["label"] = label
        first = os.path.join(tmp, kind + ".1")
        mod.writeBinary(lib, first)
        inFile = open(first, "rb").read()[4:28].decode().rstrip()
        afterWrite = getattr(lib, attr)["label"]
        back = mod.readBinary(first)
        readBack = getattr(back, attr)["label"]
        second = os.path.join(tmp, kind + ".2")
        mod.writeBinary(back, second)
        same = open(first, "rb").read() == open(second, "rb").read()
        print(
            "{}: label given {!r}; in file {!r}; container after write {!r}; read back {!r}; rewrite identical: {}".format(
                kind, label, inFile, afterWrite, readBack, same
            )
        )
        if afterWrite != label:
            bad.append("{}: writing changed the container label to {!r}".format(kind, afterWrite))
        if readBack != label:
            bad.append("{}: read back {!r} instead of {!r}".format(kind, readBack, label))
        if not same:
            bad.append("{}: writing what was read does not reproduce the file".format(kind))

print("expected: label read back equals label written; container untouched by writing; rewrite byte-identical")
if bad:
    print("observed DEFECT:")
    for b in bad:
        print("  " + b)
    sys.exit(1)
print("observed: ok")
sys.exit(0)
