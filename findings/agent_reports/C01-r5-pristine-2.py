"""C01 pristine defect 2: Operator.detach() followed by Operator.reattach(r).

detach() sets .parent = None on every child of the reactor (core, spent fuel pool) but leaves them
in the reactor's child list; reattach() does not restore the pointers.  After the round trip the
reactor lists children that have no parent; core.r (ancestor query) returns None.
"""
import sys, os

sys.path.insert(0, os.getcwd())
import atexit, shutil

if not os.path.isdir("logs"):
    atexit.register(shutil.rmtree, "logs", True)
from armi import configure

configure(permissive=True)
import armi

assert armi.__file__.startswith(os.getcwd()), armi.__file__
import io, contextlib



def main():
    from armi.testing import loadTestReactor

    with contextlib.redirect_stdout(io.StringIO()):
        o, r = loadTestReactor()
    print("before:", [(c.name, c.parent is r) for c in r])
    o.detach()
    o.reattach(r, o.cs)
    state = [(c.name, c.parent) for c in r]
    print("expected after detach()+reattach(r): every child of r has parent r; r.core.r is r")
    print("observed:", state, "; r.core.r =", r.core.r)
    if any(c.parent is not r for c in r) or r.core.r is not r:
        print("DEFECT: reactor lists children whose parent is None")
        return 1
    print("no defect")
    return 0


if __name__ == "__main__":
    sys.exit(main())
