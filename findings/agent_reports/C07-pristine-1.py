"""Pristine defect: location labels are not invertible for negative indices.

Grid.getLabel formats each index with ``:03d`` and joins with '-', and
grids.locatorLabelToIndices splits on '-'.  Cartesian (and any non-hex) grids have
negative i/j for three quadrants, whose labels ("-01-002-000") cannot be parsed back.
"""
import sys, os

sys.path.insert(0, os.getcwd())
from armi import configure

configure(permissive=True)
import armi

assert armi.__file__.startswith(os.getcwd()), armi.__file__
from armi.reactor import grids

grid = grids.CartesianGrid.fromRectangle(1.0, 1.0, numRings=3)
bad = []
for (i, j, k), _loc in sorted(grid.items()):
    label = grid.getLabel((i, j, k))
    try:
        back = grids.locatorLabelToIndices(label)
    except Exception as e:  # noqa
        back = repr(e)
    if back != (i, j, k):
        bad.append(((i, j, k), label, back))
print(f"expected: locatorLabelToIndices(getLabel(ijk)) == ijk for all {len(grid)} cells")
if bad:
    print(f"observed: {len(bad)} cells do not round-trip, e.g.")
    for b in bad[:4]:
        print("   indices %s -> label %r -> %s" % b)
    sys.exit(1)
print("observed: all round-trip")
