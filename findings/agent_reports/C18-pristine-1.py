"""C18, pristine defect 1: a pin lattice given as an explicit `grid contents` list with
integer-like specifiers is silently ignored.

`latticeIDs: [1]` on a component is documented to accept int-like IDs (GridBlueprint.getLocators
converts them with str()).  When the block's grid is written as a text `lattice map`, the
specifiers read from the text are strings and everything works.  When the SAME lattice is written
as an explicit list (`grid contents: {[0, 0]: 1, ...}`), YAML yields integer specifiers, the test
`spec in ["1", "2"]` never matches, and the components get no lattice positions and keep
mult = 1 - no error, no warning.  The two spellings of one lattice build different reactors."""
import sys, os

sys.path.insert(0, os.getcwd())
from armi import configure

configure(permissive=True)
import armi

assert os.path.abspath(armi.__file__).startswith(os.getcwd()), armi.__file__
from armi import runLog, settings
from armi.reactor import blueprints, grids

runLog.setVerbosity("error")

BP = """
nuclide flags:
    U238: {burn: true, xs: true}
    U235: {burn: true, xs: true}
    ZR: {burn: false, xs: true}
    FE: {burn: false, xs: true}
    NA: {burn: false, xs: true}
    C: {burn: false, xs: true}
    CR: {burn: false, xs: true}
    MN: {burn: false, xs: true}
    MO: {burn: false, xs: true}
    NI: {burn: false, xs: true}
    SI: {burn: false, xs: true}
    V: {burn: false, xs: true}
    W: {burn: false, xs: true}
blocks:
    fuel: &block_fuel
        grid name: pins
        fuel:
            shape: Circle
            material: UZr
            Tinput: 25.0
            Thot: 25.0
            id: 0.0
            od: 0.5
            latticeIDs: [1]
        clad:
            shape: Circle
            material: HT9
            Tinput: 25.0
            Thot: 25.0
            id: 0.5
            od: 0.6
            latticeIDs: [1, 2]
        coolant:
            shape: DerivedShape
            material: Sodium
            Tinput: 25.0
            Thot: 25.0
        duct:
            shape: Hexagon
            material: HT9
            Tinput: 25.0
            Thot: 25.0
            ip: 4.0
            mult: 1.0
            op: 5.0
assemblies:
    fuel a:
        specifier: IC
        blocks: [*block_fuel]
        height: [10]
        axial mesh points: [1]
        xs types: [A]
grids:
    pins:
        geom: hex_corners_up
        symmetry: full
CONTENTS
"""

AS_MAP = """        lattice map: |
            -  2  1
              1  1  1
                1  2
"""
AS_LIST = """        grid contents:
            [-1, 1]: 2
            [0, 1]: 1
            [-1, 0]: 1
            [0, 0]: 1
            [1, 0]: 1
            [0, -1]: 1
            [1, -1]: 2
"""
AS_LIST_QUOTED = AS_LIST.replace(": 1\n", ": '1'\n").replace(": 2\n", ": '2'\n")

# from the text: five positions hold a '1' pin (fuel + clad), two hold a '2' pin (clad only)
WANT = {"fuel": 5, "clad": 7}


def build(contents):
    bp = blueprints.Blueprints.load(BP.replace("CONTENTS", contents))
    a = bp.constructAssem(settings.Settings(), name="fuel a")
    out = {}
    for name in ("fuel", "clad"):
        c = a[0].getComponentByName(name)
        if isinstance(c.spatialLocator, grids.MultiIndexLocation):
            nLoc = len(c.spatialLocator)
        else:
            nLoc = 0  # a plain CoordinateLocation: not placed in the lattice at all
        out[name] = (c.getDimension("mult"), nLoc)
    return out


def main():
    bad = []
    for label, contents in (
        ("text lattice map", AS_MAP),
        ("explicit list, quoted specifiers", AS_LIST_QUOTED),
        ("explicit list, integer specifiers", AS_LIST),
    ):
        got = build(contents)
        print(label)
        for name, n in WANT.items():
            mult, nLoc = got[name]
            ok = mult == n and nLoc == n
            print(
                "   %-5s expected mult %d at %d lattice positions; observed mult %s at %d lattice positions%s"
                % (name, n, n, mult, nLoc, "" if ok else "   <-- WRONG")
            )
            if not ok:
                bad.append((label, name))
    if bad:
        print("DEFECT SHOWN:", bad)
        return 1
    print("no defect observed")
    return 0


if __name__ == "__main__":
    sys.exit(main())
