"""Pristine defect (C10, derived quantities): XSCollection.getTotalScatterMatrix documents that a missing
scatter matrix is skipped with a warning, and does so for elastic and inelastic, but the dict literal evaluates
`self.n2nScatter * 2.0` before the None test, so a collection without an (n,2n) matrix (optional reaction) raises
TypeError instead of returning elastic + inelastic.
"""
import sys, os

sys.path.insert(0, os.getcwd())
from armi import configure

configure(permissive=True)
import numpy as np
from scipy import sparse
import armi
from armi.nuclearDataIO import xsCollections

assert armi.__file__.startswith(os.getcwd()), armi.__file__
cc = xsCollections.XSCollection(parent="no-n2n")
cc.elasticScatter = sparse.csr_matrix(np.array([[1.0, 0.0], [0.5, 2.0]]))
cc.inelasticScatter = sparse.csr_matrix(np.array([[0.0, 0.0], [0.25, 0.0]]))
expected = cc.elasticScatter.toarray() + cc.inelasticScatter.toarray()
try:
    got = cc.getTotalScatterMatrix().toarray()
except Exception as ee:
    print("expected total scatter", expected.tolist(), "observed", type(ee).__name__, ee)
    print("DEFECT: missing n2n matrix is not skipped")
    sys.exit(1)
print("expected", expected.tolist(), "observed", got.tolist())
sys.exit(0 if np.allclose(got, expected) else 1)
