"""
C06 pristine defect 2: after Database.splitDatabase the kept steps are re-based to cycle 0 in
their group names and in Reactor/cycle, but the "cycle" attribute of each copied group keeps the
original cycle number. Database.getHistories keys its result by that attribute, so a history
query on the split database for the steps it lists, e.g. (0,0) and (0,1), comes back keyed by the
old cycle numbers (2,0), (2,1): the listing, the loader and the history disagree about which
step is which.
"""
import sys, os

sys.path.insert(0, os.getcwd())
from armi import configure

configure(permissive=True)
import armi

assert armi.__file__.startswith(os.getcwd()), armi.__file__
import shutil
import tempfile

from armi import context, runLog, settings
from armi.bookkeeping.db.database import Database
from armi.reactor import reactors
from armi.tests import TEST_ROOT


def setup():
    runLog.setVerbosity("error")
    cs = settings.Settings(
        os.path.join(TEST_ROOT, "smallestTestReactor", "armiRunSmallest.yaml")
    )
    cs = cs.modified(newSettings={"verbosity": "error"})
    r = reactors.loadFromCs(cs)
    start = os.getcwd()
    work = tempfile.mkdtemp(prefix="c06work")
    fast = tempfile.mkdtemp(prefix="c06fast")
    os.chdir(work)
    context._FAST_PATH = fast
    db = Database("c06p.h5", "w")
    db.open()
    db.writeInputsToDB(cs)
    return cs, r, db, (start, work, fast)


def cleanup(dirs):
    start, work, fast = dirs
    os.chdir(start)
    shutil.rmtree(work, ignore_errors=True)
    shutil.rmtree(fast, ignore_errors=True)


def keffAt(c, n):
    return 1.0 + 0.01 * c + 0.001 * n


def main():
    cs, r, db, dirs = setup()
    try:
        for c in range(3):
            for n in range(2):
                r.p.cycle, r.p.timeNode = c, n
                r.core.p.keff = keffAt(c, n)
                db.writeToDB(r)
        db.splitDatabase([(2, 0), (2, 1)], "-all")
        listed = list(db.genTimeSteps())
        loaded = {}
        for c, n in listed:
            rr = db.load(c, n, allowMissing=True)
            loaded[(rr.p.cycle, rr.p.timeNode)] = rr.core.p.keff
        # put the live reactor somewhere else so that the "current step" is not confused with these
        r.p.cycle, r.p.timeNode = 9, 0
        hist = dict(db.getHistory(r.core, ["keff"], listed)["keff"])
        hist.pop((9, 0), None)
        db.close(True)
    finally:
        cleanup(dirs)

    expected = {(0, 0): keffAt(2, 0), (0, 1): keffAt(2, 1)}
    print("steps listed by the split database :", listed)
    print("snapshots load as                   :", loaded)
    print("expected keff history               :", expected)
    print("observed keff history               :", hist)
    if hist != expected:
        print("DEFECT SHOWN: history of the split database is keyed by steps it does not list")
        return 1
    print("no defect")
    return 0


if __name__ == "__main__":
    sys.exit(main())
