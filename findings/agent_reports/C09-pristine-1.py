"""C09 pristine defect 1: ASCII integer fields cannot hold ten-digit integers.

IORecord._intFormat is " {:>+10}" (width taken from len(str(2**31-1)) == 10, but the
explicit sign needs an 11th column) while AsciiRecordReader.rwInt always consumes
_intLength == 11 characters.  Any integer with |v| >= 1_000_000_000 (legal 32-bit values,
e.g. DIF3D's LIMTIM=1000000000 in the shipped fixture, or 2**31-1) is written 12 characters
wide, so every following field of the record is read one column off.
Run: cd <armi tree> && python C09-pristine-1.py   (exit 1 when the defect shows)
"""
import sys, os

sys.path.insert(0, os.getcwd())
from armi import configure

configure(permissive=True)
import io
import tempfile

import armi
from armi.nuclearDataIO import cccc
from armi.nuclearDataIO.cccc import dif3d

assert armi.__file__.startswith(os.getcwd()), armi.__file__
bad = []

# bare record
values = [5, 1000000000, 7, 2**31 - 1, -(2**31), 9]
for mode, W, R, S in (
    ("binary", cccc.BinaryRecordWriter, cccc.BinaryRecordReader, io.BytesIO),
    ("ascii", cccc.AsciiRecordWriter, cccc.AsciiRecordReader, io.StringIO),
):
    s = S()
    with W(s) as rec:
        for v in values:
            rec.rwInt(v)
    s.seek(0)
    try:
        with R(s) as rec:
            got = [rec.rwInt(None) for _ in values]
    except Exception as ee:
        got = "{}: {}".format(type(ee).__name__, ee)
    print("{:6s} record: expected {} observed {}".format(mode, values, got))
    if got != values:
        bad.append(mode + " record")

# the shipped DIF3D fixture itself (LIMTIM = 1000000000)
fixture = os.path.join(
    os.getcwd(), "armi", "nuclearDataIO", "cccc", "tests", "fixtures", "simple_hexz.dif3d"
)
with tempfile.TemporaryDirectory() as tmp:
    data = dif3d.Dif3dStream.readBinary(fixture)
    path = os.path.join(tmp, "DIF3D.ascii")
    dif3d.Dif3dStream.writeAscii(data, path)
    try:
        back = dif3d.Dif3dStream.readAscii(path)
        ok = back.twoD == data.twoD
        print("DIF3D ascii: expected twoD equal, observed equal =", ok)
    except Exception as ee:
        ok = False
        print(
            "DIF3D ascii: expected the ASCII file to read back; observed {}: {}".format(
                type(ee).__name__, ee
            )
        )
    if not ok:
        bad.append("DIF3D fixture ascii round trip")

if bad:
    print("DEFECT PRESENT:", bad)
    sys.exit(1)
print("no defect observed")
sys.exit(0)
