import sys, os
sys.path.insert(0, os.getcwd())
from armi import configure
configure(permissive=True)
import armi
assert armi.__file__.startswith(os.getcwd()), armi.__file__
import math
import numpy as np
from armi.reactor import grids


class Obj:
    """Minimal stand-in for an ArmiObject: parent, spatialGrid, spatialLocator."""

    def __init__(self, parent=None):
        self.parent = parent
        self.spatialGrid = None
        self.spatialLocator = None


def nest():
    core = Obj(); assem = Obj(core); block = Obj(assem)
    core.spatialGrid = grids.CartesianGrid.fromRectangle(1.0, 1.0, armiObject=core)
    assem.spatialGrid = grids.AxialGrid.fromNCells(5, armiObject=assem)
    block.spatialGrid = grids.CartesianGrid.fromRectangle(0.1, 0.1, armiObject=block)
    core.spatialLocator = grids.CoordinateLocation(0.0, 0.0, 0.0, None)
    assem.spatialLocator = core.spatialGrid[2, 3, 0]
    block.spatialLocator = assem.spatialGrid[0, 0, 3]
    return core, assem, block


# A pin cell (pitch 0.1) in a block grid nested 3 deep: its global centre is parent centre + local
# centre, but its global base/top are parent BASE/TOP + local base/top, so the "cell" is as big as
# the assembly cell plus the pin cell (1.1 cm wide) instead of 0.1 cm wide around its centre.
core, assem, block = nest()
pin = block.spatialGrid[1, 5, 0]
centre = pin.getGlobalCoordinates()
base = pin.getGlobalCellBase()
top = pin.getGlobalCellTop()
half = np.array((0.05, 0.05, 0.0))
# z extent comes from the enclosing axial cell (k=3 -> 3..4)
expBase = np.array((centre[0] - 0.05, centre[1] - 0.05, 3.0))
expTop = np.array((centre[0] + 0.05, centre[1] + 0.05, 4.0))
print("pin global centre", centre)
print("expected base/top", expBase, expTop)
print("observed base/top", base, top)
if not (np.allclose(base, expBase) and np.allclose(top, expTop)):
    print("DEFECT: global cell base/top of a nested radial cell are not centre -/+ half the local pitch "
          "(observed x-width %.3f, local pitch 0.1)" % (top[0] - base[0]))
    sys.exit(1)
print("no defect")
