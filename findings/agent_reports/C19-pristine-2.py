"""Pristine defect: DUMP1 and DUMP2 share their MC2-3 identifier, so the lookup of DUMP1 by its own
MC2-3 id returns a different nuclide.

mcc-nuclides.yaml gives both DUMP1 and DUMP2 the ENDF/B-VII.0 and VII.1 id "DUMMY";
readMCCNuclideData() stores them in byMcc3Id* without a duplicate check (last one wins).
Expected: byMcc3Id[n.getMcc3Id()] is n for every nuclide that has an MC2-3 id, no id shared.
"""
import sys, os

sys.path.insert(0, os.getcwd())
from armi import configure

configure(permissive=True)
import armi

assert armi.__file__.startswith(os.getcwd()), armi.__file__
from armi.nucDirectory import nuclideBases as nb

bad = []
for label, table, getter in (
    ("byMcc2Id", nb.byMcc2Id, lambda n: n.getMcc2Id()),
    ("byMcc3Id", nb.byMcc3Id, lambda n: n.getMcc3Id()),
    ("byMcc3IdEndfbVII0", nb.byMcc3IdEndfbVII0, lambda n: n.getMcc3IdEndfbVII0()),
    ("byMcc3IdEndfbVII1", nb.byMcc3IdEndfbVII1, lambda n: n.getMcc3IdEndfbVII1()),
):
    owners = {}
    for n in nb.instances:
        ident = getter(n)
        if not ident:
            continue
        owners.setdefault(ident, []).append(n.name)
        if table.get(ident) is not n:
            bad.append("{}[{!r}] is {} but that is the id of {}".format(label, ident, getattr(table.get(ident), "name", None), n.name))
    for ident, names in owners.items():
        if len(names) > 1:
            bad.append("{}: id {!r} shared by {}".format(label, ident, names))
print("expected: each MC2 id maps back to the one nuclide that carries it")
for b in bad:
    print("observed: " + b)
if bad:
    print("DEFECT")
    sys.exit(1)
print("OK")
sys.exit(0)
