"""C01 pristine defect 3: Core.add(a, loc) with an occupied location.

Core.add appends the assembly to the child list (Composite.add) BEFORE it checks whether the
requested location is free.  The call raises ValueError("... already filled ..."), yet the
assembly has become a child of the core: len(core) grew, a.parent is the core, but it has no grid
location, is missing from childrenByLocator / assembliesByName, and a second attempt with a free
location fails with "already been added".
"""
import sys, os

sys.path.insert(0, os.getcwd())
import atexit, shutil

if not os.path.isdir("logs"):
    atexit.register(shutil.rmtree, "logs", True)
from armi import configure

configure(permissive=True)
import armi

assert armi.__file__.startswith(os.getcwd()), armi.__file__
import io, contextlib

from armi.reactor.flags import Flags


def main():
    from armi.testing import loadTestReactor

    with contextlib.redirect_stdout(io.StringIO()):
        o, r = loadTestReactor()
        core = r.core
        occupant = core.getFirstAssembly(Flags.FUEL)
        new = core.createAssemblyOfType(occupant.getType(), cs=o.cs)
    n = len(core)
    raised = None
    try:
        core.add(new, occupant.spatialLocator)
    except ValueError as e:
        raised = e
    print("core.add(new, occupiedLocation) raised:", repr(raised))
    print("expected: a refused add leaves the core unchanged (len {}), new.parent is None".format(n))
    print(
        "observed: len(core) = {}, new in core = {}, new.parent = {}, new.spatialLocator = {} (grid {}), "
        "in assembliesByName = {}, in childrenByLocator.values() = {}".format(
            len(core),
            new in core,
            new.parent,
            new.spatialLocator,
            new.spatialLocator.grid,
            new.getName() in core.assembliesByName,
            any(v is new for v in core.childrenByLocator.values()),
        )
    )
    second = None
    try:
        freeLoc = core.spatialGrid[30, 30, 0]
        core.add(new, freeLoc)
    except Exception as e:
        second = e
    print("retry with a location outside/free raised:", repr(second))
    if raised is not None and (len(core) != n or new.parent is not None):
        print("DEFECT: the refused assembly is a child of the core")
        return 1
    print("no defect")
    return 0


if __name__ == "__main__":
    sys.exit(main())
