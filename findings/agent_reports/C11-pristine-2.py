"""C11 pristine finding 2: peak (ParamLocation.MAX) parameters are reduced with
``max(sourceVal, updatedDestVals[name])`` on a ``defaultdict(float)``, i.e. the running maximum
starts at 0.0 instead of at the first overlapped value.  For a peak quantity whose overlapped source
values are all negative (e.g. an adjoint-flux peak ``fluxAdjPeak`` of a negative adjoint solution)
the destination gets 0.0, which is not one of the overlapped values - "peak quantities take the
largest overlapped value" and "constant profiles stay constant" are violated.

Run: cd <armi tree> && python C11-pristine-2.py   (exit 1 when the defect shows)
"""
import sys, os

sys.path.insert(0, os.getcwd())
from armi import configure

configure(permissive=True)
import shutil

import armi

assert armi.__file__.startswith(os.getcwd()), armi.__file__
from armi import runLog

runLog.setVerbosity("error")
from armi.reactor.converters.uniformMesh import ParamMapper
from armi.reactor.converters.uniformMesh import UniformMeshGeometryConverter as UMC
from armi.reactor.flags import Flags
from armi.reactor.tests.test_reactors import loadTestReactor
from armi.tests import TEST_ROOT

hadLogs = os.path.isdir("logs")
o, r = loadTestReactor(TEST_ROOT)
a = r.core.getFirstAssembly(Flags.FUEL)
for b in a:
    b.p.fluxAdjPeak = -2.5  # constant, negative peak profile
mapper = ParamMapper([], ["fluxAdjPeak"], a[0])
assert mapper.isPeak["fluxAdjPeak"]
u = UMC.makeAssemWithUniformMesh(a, [10.0, 37.0, 60.0, 90.0, 130.0, a.getTotalHeight()], paramMapper=mapper)
got = [b.p.fluxAdjPeak for b in u]
print("source fluxAdjPeak on every block: -2.5")
print("expected on every re-meshed block: -2.5 (largest overlapped value)")
print("observed on re-meshed blocks     :", got)
if not hadLogs and os.path.isdir("logs"):
    shutil.rmtree("logs", ignore_errors=True)
if any(abs(v + 2.5) > 1e-12 for v in got):
    print("DEFECT SHOWN")
    sys.exit(1)
print("no defect observed")
sys.exit(0)
