"""C02 pristine defect 5: Component.density() raises AttributeError for a Fluid-material component whose number
densities are all zero (e.g. a fully voided sodium coolant): the fall-back calls self.material.density.__wrapped__,
but Fluid.__init_subclass__ removes the wrapper, so there is no __wrapped__. setMassFracs/setMassFrac on such a
component fail the same way, so mass = density*volume cannot even be evaluated."""
import sys, os; sys.path.insert(0, os.getcwd())
from armi import configure; configure(permissive=True)
import armi
assert armi.__file__.startswith(os.getcwd()), armi.__file__
from armi import runLog
runLog.setVerbosity("error")
from armi import tests as armitests
from armi.reactor import assemblies, blocks, components, geometry, grids
from armi.reactor.flags import Flags


def mkBlock(height=10.0, intercoolant=True):
    b = blocks.HexBlock("fuel", height=height)
    b.setType("fuel")
    comps = [
        components.Circle("fuel", "UZr", Tinput=25.0, Thot=600, od=0.76, id=0.0, mult=127.0),
        components.Circle("clad", "HT9", Tinput=25.0, Thot=450, od=0.80, id=0.77, mult=127.0),
        components.Hexagon("duct", "HT9", Tinput=25.0, Thot=400, op=16, ip=15.3, mult=1.0),
        components.DerivedShape("coolant", "Sodium", Tinput=25.0, Thot=400),
    ]
    if intercoolant:
        comps.append(components.Hexagon("intercoolant", "Sodium", Tinput=400, Thot=400, op=17.0, ip=16.0, mult=1.0))
    for c in comps:
        b.add(c)
    return b


def mkReactor(nb=3, intercoolant=True):
    """1/3-core hex reactor with a central assembly (cut in 3 by symmetry) and one full assembly."""
    r = armitests.getEmptyHexReactor()
    r.core.spatialGrid = grids.HexGrid.fromPitch(17.0)
    r.core.spatialGrid.symmetry = geometry.SymmetryType(
        geometry.DomainType.THIRD_CORE, geometry.BoundaryType.PERIODIC
    )
    r.core.spatialGrid.geomType = geometry.HEX
    r.core.spatialGrid.armiObject = r.core
    asms = []
    for n, (i, j) in enumerate([(0, 0), (1, 0)]):
        a = assemblies.HexAssembly("fuel", assemNum=n)
        a.spatialGrid = grids.AxialGrid.fromNCells(nb)
        for k in range(nb):
            a.add(mkBlock(height=10.0 + 5 * k, intercoolant=intercoolant))
        a.calculateZCoords()
        a.spatialLocator = r.core.spatialGrid[i, j, 0]
        r.core.add(a)
        asms.append(a)
    return r, asms


def close(a, b, rtol=1e-9):
    return abs(a - b) <= rtol * max(abs(a), abs(b))


problems = []


def finish():
    if problems:
        print("DEFECT SHOWN")
        for p in problems:
            print("  " + p)
        sys.exit(1)
    print("no defect observed")
    sys.exit(0)

b = mkBlock()
cool = b.getComponent(Flags.COOLANT)
cool.changeNDensByFactor(0.0)
for label, fn in (("density()", lambda: cool.density()), ("setMassFrac('NA', 1.0)", lambda: cool.setMassFrac("NA", 1.0))):
    try:
        res = fn()
        print(f"voided coolant {label} -> {res!r}")
    except Exception as e:
        print(f"voided coolant {label} raised {e!r}")
        problems.append(f"voided sodium coolant: {label} raised {e!r}")
finish()
