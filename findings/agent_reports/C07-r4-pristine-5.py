"""C07 pristine 5: ThetaRZGrid.indicesOfBounds only works when the bounds are numpy arrays: with list bounds (as in test_grids) or on a grid rebuilt from reduce() (tuple bounds) it raises TypeError, although coordinates work."""
import sys, os
sys.path.insert(0, os.getcwd())
from armi import configure
configure(permissive=True)
import armi
assert armi.__file__.startswith(os.getcwd()), armi.__file__
import math
import numpy as np
from armi.reactor import grids
bad = []

ref = grids.ThetaRZGrid(bounds=(np.linspace(0, 2 * math.pi, 13), np.array([0, 2, 2.5, 3.0]), np.array([0, 10, 20, 30.0])))
expected = ref.indicesOfBounds(2.0, 2.5, math.pi / 6, math.pi / 3)
variants = {
    "list bounds": grids.ThetaRZGrid(bounds=(np.linspace(0, 2 * math.pi, 13), [0, 2, 2.5, 3], [0, 10, 20, 30])),
    "rebuilt from reduce()": grids.ThetaRZGrid(*ref.reduce()),
}
for name, g in variants.items():
    assert np.allclose(g.getCoordinates((1, 1, 1)), ref.getCoordinates((1, 1, 1)))
    try:
        got = g.indicesOfBounds(2.0, 2.5, math.pi / 6, math.pi / 3)
        if got != expected:
            bad.append(f"{name}: expected {expected}, observed {got}")
    except Exception as e:
        bad.append(f"{name}: expected indicesOfBounds -> {expected}, observed {e!r}")

if bad:
    print("DEFECT")
    for b in bad[:10]:
        print("  ", b)
    sys.exit(1)
print("no defect observed")
sys.exit(0)

