# copyParamsFrom copies the serial number too: two live objects end up sharing p.serialNum
import sys, os; sys.path.insert(0, os.getcwd())
from armi import configure; configure(permissive=True)
from armi.reactor import blocks
b1 = blocks.HexBlock("one"); b2 = blocks.HexBlock("two")
b1.p.power = 3.0
s1, s2 = b1.p.serialNum, b2.p.serialNum
b2.copyParamsFrom(b1)
print("expected: distinct serial numbers after copyParamsFrom; before:", s1, s2)
print("observed:", b1.p.serialNum, b2.p.serialNum)
sys.exit(1 if b1.p.serialNum == b2.p.serialNum else 0)
