"""C13 pristine defects 4: further input classes for which the unchanged code breaks the property.

(a) One-ring core (only the centre assembly): convert() triples the centre parameters and sets
    full-core symmetry but adds no assembly, and restorePreviousGeometry() only acts
    `if bool(self._newAssembliesAdded)`, so restore is a no-op: symmetry stays 'full', params stay x3.
(b) A volume-integrated parameter holding a nested python list (e.g. the 2-D mgFluxSK stored as list
    of lists) on the centre assembly: _scaleBlockVolIntegratedParams does operator.mul(innerList, 3),
    which REPEATS the inner list three times instead of scaling it (and restore then raises
    TypeError on list / int).
(c) The rotated copies are not parameter-identical copies of their source: Core.add/Assembly.moveTo
    stamp chargeTime/chargeCycle with the current time/cycle, bump numMoves and zero daysSinceLastMove.
Run: cd <armi tree> && /venv/bin/python /tmp/seedout3/C13-pristine-4.py   (exit 1 = defect shown)
"""
import sys, os, shutil
sys.path.insert(0, os.getcwd())
from armi import configure
configure(permissive=True)
import armi
assert armi.__file__.startswith(os.getcwd())
from armi.testing import loadTestReactor, reduceTestReactorRings
from armi.reactor.converters.geometryConverters import ThirdCoreHexToFullCoreChanger

rc = 0
# (a) -------------------------------------------------------------------------------------
o, r = loadTestReactor()
reduceTestReactorRings(r, o.cs, 2)
core = r.core
for a in list(core):
    if a.getLocation() != "001-001":
        core.removeAssembly(a, discharge=False)
for b in core.iterBlocks():
    b.p.power = 10.0
sym0 = str(core.symmetry)
ch = ThirdCoreHexToFullCoreChanger(o.cs)
ch.convert(r)
ch.restorePreviousGeometry(r)
pw = sorted({b.p.power for b in core.iterBlocks()})
print(f"(a) expected after convert+restore: symmetry '{sym0}', block power [10.0]")
print(f"    observed: symmetry '{core.symmetry}', block power {pw}")
if str(core.symmetry) != sym0 or pw != [10.0]:
    rc = 1

# (b) -------------------------------------------------------------------------------------
o, r = loadTestReactor()
reduceTestReactorRings(r, o.cs, 2)
core = r.core
cb = core.getAssemblyWithStringLocation("001-001")[1]
cb.p.mgFluxSK = [[1.0, 2.0], [3.0, 4.0]]
ch = ThirdCoreHexToFullCoreChanger(o.cs)
ch.convert(r)
print("(b) expected centre mgFluxSK after convert: [[3.0, 6.0], [9.0, 12.0]]")
print(f"    observed: {cb.p.mgFluxSK}")
if cb.p.mgFluxSK != [[3.0, 6.0], [9.0, 12.0]]:
    rc = 1
try:
    ch.restorePreviousGeometry(r)
    print(f"    after restore: {cb.p.mgFluxSK} (expected [[1.0, 2.0], [3.0, 4.0]])")
except Exception as e:
    print(f"    restore raised {type(e).__name__}: {e}")
    rc = 1

# (c) -------------------------------------------------------------------------------------
o, r = loadTestReactor()
reduceTestReactorRings(r, o.cs, 2)
core = r.core
r.p.time, r.p.cycle = 123.0, 2
src = core.getAssemblyWithStringLocation("002-001")
src.p.numMoves, src.p.daysSinceLastMove = 5, 44.0
ch = ThirdCoreHexToFullCoreChanger(o.cs)
ch.convert(r)
names = ("chargeTime", "chargeCycle", "numMoves", "daysSinceLastMove")
for loc in ("002-003", "002-005"):
    cp = core.getAssemblyWithStringLocation(loc)
    diffs = {n: (src.p[n], cp.p[n]) for n in names if src.p[n] != cp.p[n]}
    print(f"(c) copy at {loc} of source at 002-001: (source, copy) parameter differences {diffs}")
    if diffs:
        rc = 1
shutil.rmtree(os.path.join(os.getcwd(), "logs"), ignore_errors=True)
sys.exit(rc)
