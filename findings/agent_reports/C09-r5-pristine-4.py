"""C09 pristine defect 4: a GAMISO file whose file-ID label says "GAMISO" is re-written with the label "ISOTXS".

IsotxsIO._updateFileLabel normalises the label to the stream's _FILE_LABEL when reading. The GAMISO value
(_FILE_LABEL = "GAMISO") is defined on _GamisoNuclideIO, where nothing looks at it, instead of on _GamisoIO,
so the GAMISO stream inherits "ISOTXS": a file labelled GAMISO is silently relabelled ISOTXS and writing what
was read does not reproduce the file. (The shipped fixture is labelled ISOTXS, so it round-trips.)
"""
import sys, os

sys.path.insert(0, os.getcwd())
from armi import configure

configure(permissive=True)
import tempfile

import armi
from armi import runLog
from armi.nuclearDataIO.cccc import gamiso
from armi.nuclearDataIO.tests import test_xsLibraries

assert armi.__file__.startswith(os.getcwd()), armi.__file__
runLog.setVerbosity("error")

with tempfile.TemporaryDirectory() as tmp:
    raw = bytearray(open(test_xsLibraries.GAMISO_AA, "rb").read())
    assert raw[4:10] == b"ISOTXS"
    raw[4:10] = b"GAMISO"
    p1, p2 = os.path.join(tmp, "GAMISO"), os.path.join(tmp, "GAMISO.again")
    open(p1, "wb").write(raw)
    lib = gamiso.readBinary(p1)
    gamiso.writeBinary(lib, p2)
    out = open(p2, "rb").read()
    print("label in file read    :", bytes(raw[4:28]))
    print("label in metadata     :", repr(lib.gamisoMetadata["label"]))
    print("label in file written :", out[4:28])
    if out != bytes(raw):
        print("DEFECT: GAMISO file labelled 'GAMISO' is not reproduced byte for byte (label becomes 'ISOTXS')")
        sys.exit(1)
print("no defect observed")
sys.exit(0)
