"""C10 pristine defect 4: energy-deposition constants are not additive over nuclides when a nuclide without
PMATRX heating data (neutronHeating is None, e.g. the dummy nuclides added by
pmatrx.addDummyNuclidesToLibrary) sorts FIRST in the composition: computeMacroscopicGroupConstants sizes
its accumulator from the first nuclide and multiplies by None -> TypeError. The same nuclide anywhere
else in the sorted order is treated as a zero contribution."""
import sys, os

sys.path.insert(0, os.getcwd())
from armi import configure

configure(permissive=True)
import armi

assert armi.__file__.startswith(os.getcwd()), armi.__file__
import numpy as np
from scipy import sparse
from armi.nucDirectory import nuclideBases
from armi.nuclearDataIO import xsLibraries, xsNuclides, xsCollections
from armi.utils import properties


def mkIso(labels, ng=3, seed=0, fileName="ISOAA"):
    """Synthetic ISOTXS-like (neutron only) library."""
    rng = np.random.RandomState(seed)
    lib = xsLibraries.IsotxsLibrary()
    properties.unlockImmutableProperties(lib)
    lib.neutronEnergyUpperBounds = np.array([1e7, 1e5, 1e2][:ng])
    lib.neutronVelocity = np.array([1e9, 1e7, 1e5][:ng])
    properties.lockImmutableProperties(lib)
    lib.isotxsMetadata["numGroups"] = ng
    lib.isotxsMetadata.fileNames.append(fileName)
    for lab in labels:
        n = xsNuclides.XSNuclide(lib, lab)
        n.isotxsMetadata["nuclideId"] = lab[:-2]
        n.isotxsMetadata["efiss"] = 3.0e-11
        n.isotxsMetadata["ecapt"] = 1.0e-12
        n._base = nuclideBases.byLabel[lab[:-2]]
        m = n.micros
        for k in ["nGamma", "fission", "neutronsPerFission", "nalph", "np", "n2n", "nd", "nt", "chi"]:
            setattr(m, k, rng.rand(ng))
        m.total = rng.rand(ng, 1)
        m.transport = rng.rand(ng, 1) + 1
        for k in ["elasticScatter", "inelasticScatter", "n2nScatter"]:
            setattr(m, k, sparse.csr_matrix(np.tril(rng.rand(ng, ng))))
        lib[lab] = n
    return lib


def mkGam(labels, ngam=2, seed=10):
    """Synthetic GAMISO-like (gamma only) library."""
    rng = np.random.RandomState(seed)
    lib = xsLibraries.IsotxsLibrary()
    properties.unlockImmutableProperties(lib)
    lib.gammaEnergyUpperBounds = np.array([1e7, 1e5, 1e2][:ngam])
    properties.lockImmutableProperties(lib)
    lib.gamisoMetadata["numGroups"] = ngam
    lib.gamisoMetadata.fileNames.append("AA.gamiso")
    for lab in labels:
        n = xsNuclides.XSNuclide(lib, lab)
        n._base = nuclideBases.byLabel[lab[:-2]]
        n.gamisoMetadata["nuclideId"] = lab[:-2]
        n.gammaXS.nGamma = rng.rand(ngam)
        lib[lab] = n
    return lib


lib = mkIso(["AL27AA", "U235AA", "ZR90AA"])
lib["U235AA"].neutronHeating = np.array([1.0, 2.0, 3.0])  # only U235 has heating data
ref = xsCollections.computeNeutronEnergyDepositionConstants({"U235": 0.1}, lib, "AA")
print("U235 alone              ->", ref)
bad = False
for comp in ({"U235": 0.1, "ZR90": 0.2}, {"AL27": 0.2, "U235": 0.1}):
    try:
        got = xsCollections.computeNeutronEnergyDepositionConstants(comp, lib, "AA")
        print("{} -> {}".format(comp, got))
        bad |= not np.allclose(got, ref)
    except Exception as ee:
        print("{} -> raised {}: {}".format(comp, type(ee).__name__, ee))
        bad = True
print("expected: both compositions give the U235-alone value (nuclides without heating data contribute zero)")
if bad:
    print("DEFECT: result depends on whether the data-less nuclide sorts before or after the others")
    sys.exit(1)
print("no defect observed")
sys.exit(0)
