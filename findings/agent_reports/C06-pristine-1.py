"""
C06 pristine defect 1: a labelled snapshot (the "EOL" state of a completed run, the "error"
state of an aborted one) pollutes the listing and the histories of the database.

Database.genTimeSteps / genTimeStepGroups match every group cXXnYY<label>, so the step that
carries a label is listed twice, and Database.getHistory/getHistories visit the labelled group
after the plain one and overwrite the value of step (c, n) with the value of the labelled
(later) state. Expected: each written snapshot listed once; the history value at (c, n) is the
value the object had when node (c, n) was written.
"""
import sys, os

sys.path.insert(0, os.getcwd())
from armi import configure

configure(permissive=True)
import armi

assert armi.__file__.startswith(os.getcwd()), armi.__file__
import shutil
import tempfile

from armi import context, runLog, settings
from armi.bookkeeping.db.database import Database
from armi.reactor import reactors
from armi.tests import TEST_ROOT


def setup():
    runLog.setVerbosity("error")
    cs = settings.Settings(
        os.path.join(TEST_ROOT, "smallestTestReactor", "armiRunSmallest.yaml")
    )
    cs = cs.modified(newSettings={"verbosity": "error"})
    r = reactors.loadFromCs(cs)
    start = os.getcwd()
    work = tempfile.mkdtemp(prefix="c06work")
    fast = tempfile.mkdtemp(prefix="c06fast")
    os.chdir(work)
    context._FAST_PATH = fast
    db = Database("c06p.h5", "w")
    db.open()
    db.writeInputsToDB(cs)
    return cs, r, db, (start, work, fast)


def cleanup(dirs):
    start, work, fast = dirs
    os.chdir(start)
    shutil.rmtree(work, ignore_errors=True)
    shutil.rmtree(fast, ignore_errors=True)


def keffAt(c, n):
    return 1.0 + 0.01 * c + 0.001 * n


def main():
    cs, r, db, dirs = setup()
    try:
        steps = [(c, n) for c in range(2) for n in range(2)]
        for c, n in steps:
            r.p.cycle, r.p.timeNode = c, n
            r.core.p.keff = keffAt(c, n)
            db.writeToDB(r)
        # end of life: the state has moved on since the last node was written
        r.core.p.keff = 0.5
        db.writeToDB(r, "EOL")

        listed = list(db.genTimeSteps())
        # full history (timeSteps=None), as the history tracker and DatabaseInterface.getHistory ask for
        hist = dict(db.getHistory(r.core, ["keff"])["keff"])
        snap = db.load(1, 1, allowMissing=True).core.p.keff
        db.close(True)
    finally:
        cleanup(dirs)

    bad = []
    print("expected listing :", steps)
    print("observed listing :", listed)
    if listed != steps:
        bad.append("listing")
    print("expected keff history at (1,1):", keffAt(1, 1), "(snapshot c01n01 loads keff=%s)" % snap)
    print("observed keff history at (1,1):", hist[(1, 1)])
    if abs(hist[(1, 1)] - keffAt(1, 1)) > 1e-12:
        bad.append("history")
    if bad:
        print("DEFECT SHOWN:", ", ".join(bad))
        return 1
    print("no defect")
    return 0


if __name__ == "__main__":
    sys.exit(main())
