"""C17 pristine defect 1: the `versions` setting never survives a write/read cycle at its default,
and writing in `full` style mutates the Settings object being written."""
import sys, os, io

sys.path.insert(0, os.getcwd())
from armi import configure

configure(permissive=True)
import armi

assert armi.__file__.startswith(os.getcwd()), armi.__file__
from armi import settings

bad = []
for style in ("short", "medium", "full"):
    cs = settings.Settings()
    assert cs["versions"] == {}
    buf = io.StringIO()
    cs.writeToYamlStream(buf, style=style)
    if cs["versions"] != {}:
        bad.append(
            f"style={style}: writing changed the ORIGINAL cs['versions'] from {{}} to {cs['versions']!r} "
            f"(offDefault={cs.getSetting('versions').offDefault})"
        )
    new = settings.Settings()
    new.loadFromString(buf.getvalue())
    if new["versions"] != {}:
        bad.append(
            f"style={style}: expected versions to stay at default {{}} after write/read, observed {new['versions']!r}"
        )

# off-default value: the writer adds a key to the user's dict in place
cs = settings.Settings()
cs["versions"] = {"myApp": "1.2"}
cs.writeToYamlStream(io.StringIO(), style="short")
if cs["versions"] != {"myApp": "1.2"}:
    bad.append(f"short write changed cs['versions'] from {{'myApp': '1.2'}} to {cs['versions']!r}")

if bad:
    print("DEFECT")
    for b in bad:
        print("  " + b)
    sys.exit(1)
print("no defect observed")
