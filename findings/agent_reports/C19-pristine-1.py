"""Pristine defect: Sodium density is not a finite real number at the top of its own stated range.

Sodium.propertyValidTemperature["density"] = ((97.85, 2230.55), "C"); 2230.55 C is the critical
temperature 2503.7 K. In floating point (2230.55 + 273.15) / 2503.7 is 1 + 2e-16, so the term
(1 - T/Tcrit) ** 0.5 takes the square root of a tiny NEGATIVE number and Python returns a complex.
Expected: finite positive float density for every T in the stated range (end points included).
"""
import sys, os, math

sys.path.insert(0, os.getcwd())
from armi import configure

configure(permissive=True)
import armi

assert armi.__file__.startswith(os.getcwd()), armi.__file__
from armi.materials.sodium import Sodium

na = Sodium()
(lo, hi), unit = na.propertyValidTemperature["density"]
bad = []
for Tc in (lo, 0.5 * (lo + hi), hi):
    for meth in ("density", "pseudoDensity"):
        rho = getattr(na, meth)(Tc=Tc)
        ok = isinstance(rho, float) and math.isfinite(rho) and rho > 0.0
        print("Sodium.{}(Tc={}) = {!r}  {}".format(meth, Tc, rho, "" if ok else "<-- not a finite positive float"))
        if not ok:
            bad.append((meth, Tc, rho))
print("expected: finite positive float at every temperature of the stated range [{}, {}] {}".format(lo, hi, unit))
if bad:
    print("DEFECT: {}".format(bad))
    sys.exit(1)
print("OK")
sys.exit(0)
