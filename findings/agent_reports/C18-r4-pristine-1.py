"""Pristine defect: a custom isotopic vector that names an element AND one of its isotopes loses the isotope entry.

`mix` gives mass fractions U235 0.2, U238 0.3, ZR 0.3, ZR90 0.2 (sum 1.0) and density 10 g/cc.  When ZR is expanded to
its natural isotopes, densityTools.expandElementalMassFracsToNuclides does `massFracs.update(expanded)`, which
overwrites the ZR90 entry that was already there instead of adding to it: 0.2 of the mass disappears.
"""
import sys, os
sys.path.insert(0, os.getcwd())
from armi import configure
configure(permissive=True)
import armi
assert armi.__file__.startswith(os.getcwd()), armi.__file__
from armi import settings, runLog
from armi.reactor import blueprints, reactors
runLog.setVerbosity("error")

BP = r"""
nuclide flags:
    U235: {burn: false, xs: true}
    U238: {burn: false, xs: true}
    ZR: {burn: false, xs: true}
custom isotopics:
    mix:
        input format: mass fractions
        density: 10.0
        U235: 0.2
        U238: 0.3
        ZR: 0.3
        ZR90: 0.2
blocks:
    fuel: &block_fuel
        fuel:
            shape: Hexagon
            material: Custom
            isotopics: mix
            Tinput: 600.0
            Thot: 600.0
            ip: 0.0
            mult: 1
            op: 10.0
assemblies:
    fuel a:
        specifier: IC
        blocks: [*block_fuel]
        height: [1.0]
        axial mesh points: [1]
        xs types: [A]
"""
bp = blueprints.Blueprints.load(BP)
bp._prepConstruction(settings.Settings())
c = bp.assemblies["fuel a"][0][0]
tot = c.getMass()
got = {"density": c.density(), "ZR": c.getMass("ZR") / tot, "U235": c.getMass("U235") / tot, "U238": c.getMass("U238") / tot}
want = {"density": 10.0, "ZR": 0.5, "U235": 0.2, "U238": 0.3}
bad = False
for k in want:
    print(f"{k:8}: expected {want[k]:.6f}  observed {got[k]:.6f}")
    bad |= abs(want[k] - got[k]) > 1e-6 * max(1.0, want[k])
if bad:
    print("DEFECT: the component does not have the composition/density the custom isotopics describe")
    sys.exit(1)
print("no defect observed")
