#!/bin/bash
# tools/confirm_seed.sh <seed-dir> <worktree>
# Confirms independently: patch applies to a clean worktree at /repo's HEAD, pinned suite still passes (881/881),
# demo exits 1 on the changed tree and 0 on the pristine tree. Writes <seed-dir>/confirm.json.
S=$1; WT=$2
TOOLS=$(cd "$(dirname "$0")"; pwd)
cd "$WT" || exit 9
git checkout -q -- . ; git clean -fdq -e logs 2>/dev/null
res_apply=0; git apply "$S/patch.diff" 2>/tmp/apply.$$.err || res_apply=1
if [ $res_apply -ne 0 ]; then echo "{\"applies\": false, \"err\": \"$(head -c 200 /tmp/apply.$$.err | tr '\n"' '  ')\"}" > "$S/confirm.json"; rm -f /tmp/apply.$$.err; exit 1; fi
rm -f /tmp/apply.$$.err
J=$(mktemp /tmp/junit.XXXXXX.xml)
/venv/bin/python -m pytest -q -p no:cacheprovider --timeout=900 --continue-on-collection-errors --junitxml=$J >/dev/null 2>&1
SUITE=$(/venv/bin/python $TOOLS/compare_baseline.py $J | head -1); rm -f $J
timeout 600 /venv/bin/python "$S/demo.py" > "$S/demo.changed.out" 2>&1; RC_CH=$?
git checkout -q -- . ; git clean -fdq -e logs 2>/dev/null
timeout 600 /venv/bin/python "$S/demo.py" > "$S/demo.pristine.out" 2>&1; RC_PR=$?
python3 - "$S" "$SUITE" $RC_CH $RC_PR <<'PY'
import json,sys
s,suite,ch,pr=sys.argv[1],sys.argv[2],int(sys.argv[3]),int(sys.argv[4])
json.dump({"applies":True,"suite":suite,"demo_exit_changed":ch,"demo_exit_pristine":pr,"confirmed": ("missing 0" in suite and ch==1 and pr==0)},open(s+"/confirm.json","w"),indent=1)
print(s.split('/')[-1],suite,'changed',ch,'pristine',pr)
PY
