#!/venv/bin/python
"""Run every implemented property check against every seeded change (in memory; /repo untouched).
Writes seeded/RESULTS.json and prints the matrix.  usage: tools/run_seeded.py [--own-only] [--only=<regex over seed ids>]  (with --only the result goes to RESULTS.partial.json)"""
import contextlib, glob, io, json, os, sys
from concurrent.futures import ProcessPoolExecutor
HERE = os.path.dirname(os.path.dirname(os.path.abspath(__file__)))
sys.path.insert(0, HERE)


def one(args):
    sid, props = args
    from armiverif.main import run_property
    from armiverif.overlay import overlay_from_patch
    try:
        ov = overlay_from_patch(os.path.join(HERE, "seeded", sid, "patch.diff"))
    except Exception as e:  # the tree moved under the patch: report, do not crash the matrix
        return sid, {p: {"exit": 2, "violations": [], "errors": [f"STALE PATCH: {str(e)[:80]}"]} for p in props}
    out = {}
    import signal

    class _Timeout(Exception):
        pass

    def _alarm(*_a):
        raise _Timeout()
    signal.signal(signal.SIGALRM, _alarm)
    for p in props:
        buf = io.StringIO()
        signal.alarm(300)
        try:
            with contextlib.redirect_stdout(buf):
                code, chk = run_property(p, "/repo", overlay=ov, write=False, quiet=True)
        except _Timeout:
            out[p] = {"exit": 3, "violations": [], "errors": ["TIMEOUT after 300 s: the check does not terminate on this tree"]}
            continue
        finally:
            signal.alarm(0)
        hits = [f"{r.id}:{i.key[:70]}" for r in chk.rules for i in r.instances if i.status == "violation"]
        out[p] = {"exit": code, "violations": hits[:5], "errors": [e[:100] for r in chk.rules for e in r.errors][:2]}
    return sid, out


if __name__ == "__main__":
    own = "--own-only" in sys.argv
    seeds = sorted(d for d in os.listdir(os.path.join(HERE, "seeded")) if os.path.isdir(os.path.join(HERE, "seeded", d)))
    props = sorted(os.path.basename(p)[:-3].upper() for p in glob.glob(os.path.join(HERE, "armiverif/props/c[0-9][0-9].py")))
    import re
    only = next((a.split("=", 1)[1] for a in sys.argv if a.startswith("--only=")), None)
    if only:
        seeds = [s for s in seeds if re.search(only, s)]
    jobs = [(s, [s[:3]] if own else props) for s in seeds]
    res = {}
    with ProcessPoolExecutor(16) as ex:
        for sid, out in ex.map(one, jobs):
            res[sid] = out
    json.dump(res, open(os.path.join(HERE, "seeded", "RESULTS.partial.json" if only else "RESULTS.json"), "w"), indent=1)
    det = 0
    for sid in seeds:
        by = [p for p, v in res[sid].items() if v["exit"] == 1]
        errs = [p for p, v in res[sid].items() if v["exit"] == 2]
        ownhit = res[sid].get(sid[:3], {}).get("exit") == 1
        det += bool(by)
        first = (res[sid][by[0]]["violations"] or [""])[0] if by else ""
        print(f"{sid}  detected_by={by} own={'yes' if ownhit else 'NO'} errors={errs}  {first[:80]}")
    print(f"detected {det}/{len(seeds)}")
