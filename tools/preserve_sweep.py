#!/venv/bin/python
"""Behaviour-preserving sweep only (the part 4/4b of the thorough self-test, without reverted fixes, seeds and mutants).

usage: tools/preserve_sweep.py C07 [C08 ...] [--jobs N]
For each property: the AST round trip and the rewrites of armiverif/preserve.py are applied (in memory) to every file the
property's rules consulted on the clean tree; every variant must leave the check at exit 0.  Prints one line per variant that does
not, exit 1 if any.  /repo is not touched."""
import ast
import contextlib
import io
import os
import sys
from concurrent.futures import ProcessPoolExecutor

HERE = os.path.dirname(os.path.dirname(os.path.abspath(__file__)))
sys.path.insert(0, HERE)
ROOT = os.environ.get("ARMIVERIF_ROOT", "/repo")


def _run(args):
    prop, name, ov = args
    from armiverif.main import run_property
    buf = io.StringIO()
    try:
        with contextlib.redirect_stdout(buf):
            code, chk = run_property(prop, ROOT, overlay=ov, write=False, quiet=True)
    except Exception as e:
        return prop, name, 2, [], [f"{type(e).__name__}: {e}"]
    hits = [f"{r.id}:{i.key[:90]}" for r in chk.rules for i in r.instances if i.status == "violation"]
    errs = [e[:160] for r in chk.rules for e in r.errors]
    return prop, name, code, hits, errs


def variants(prop):
    from armiverif import preserve
    from armiverif.main import run_property
    buf = io.StringIO()
    with contextlib.redirect_stdout(buf):
        code, chk = run_property(prop, ROOT, write=False, quiet=True)
    if code:
        print(f"{prop}: clean tree exit {code} - fix that first")
        return None
    files = sorted({i.file for r in chk.rules for i in r.instances if i.file.endswith(".py")})
    srcs = {rel: open(os.path.join(ROOT, rel)).read() for rel in files if os.path.exists(os.path.join(ROOT, rel))}
    out = [(prop, "ast-round-trip", {rel: ast.unparse(ast.parse(s)) for rel, s in srcs.items()})]
    for tname, tf in preserve.ALL.items():
        ov = {}
        for rel, s in srcs.items():
            try:
                o = tf(s)
            except Exception:
                o = None
            if o:
                ov[rel] = o
        if ov:
            out.append((prop, tname, ov))
    return out


if __name__ == "__main__":
    props = [a for a in sys.argv[1:] if a.startswith("C")]
    nj = int(next((a.split("=")[1] for a in sys.argv if a.startswith("--jobs=")), "16"))
    jobs = []
    bad = 0
    for p in props:
        v = variants(p)
        if v is None:
            bad += 1
            continue
        jobs += v
    with ProcessPoolExecutor(nj) as ex:
        for prop, name, code, hits, errs in ex.map(_run, jobs):
            if code:
                bad += 1
                print(f"ALARM {prop} {name} exit={code} {hits[:4]} {errs[:2]}")
    print(f"{len(jobs)} variants, {bad} not silent")
    sys.exit(1 if bad else 0)
