#!/venv/bin/python
"""Freeze laws/locals.json: for every function of armi (non-test code) the local variable names in order of first
binding, taken from /repo's current tree. armiverif/alpha.py uses it to undo pure renamings of locals before the rules
run. Regenerate only together with a review of the rules (the names in the rules refer to THIS table)."""
import ast, json, os, sys
HERE = os.path.dirname(os.path.dirname(os.path.abspath(__file__)))
sys.path.insert(0, HERE)
from armiverif import alpha
from armiverif.canon import canonicalise
out = {}
root = "/repo"
for dp, dn, fn in os.walk(os.path.join(root, "armi")):
    if "/tests" in dp:
        continue
    for f in fn:
        if f.endswith(".py"):
            p = os.path.join(dp, f)
            rel = os.path.relpath(p, root)
            try:
                tree = canonicalise(ast.parse(open(p).read()))
            except SyntaxError:
                continue
            for key, node in alpha.functions_with_keys(tree, rel):
                b = alpha.binders(node)
                if b:
                    out[key] = b
json.dump(out, open(os.path.join(HERE, "laws", "locals.json"), "w"), indent=0, sort_keys=True)
print(len(out), "functions with locals")
