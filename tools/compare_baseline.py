import json,sys,xml.etree.ElementTree as ET
stable=set(json.load(open('/root/.vp/BASELINE.json'))['stable_pass'])
ok=set()
for tc in ET.parse(sys.argv[1]).getroot().iter('testcase'):
    if not any(c.tag in('failure','error','skipped') for c in tc):
        ok.add(tc.get('classname')+'::'+tc.get('name'))
missing=sorted(stable-ok)
print('stable',len(stable),'passed',len(stable&ok),'missing',len(missing))
for m in missing[:20]: print('  NOTPASS',m)
