#!/venv/bin/python
"""Run property checks against /repo + a patch, in memory (the tree is not touched).

usage: tools/run_patch.py [-R] <patch> [C01 C02 ...]     (default: all implemented properties)
Prints one line per property: id exit-code and the violated rule instances.
"""
import glob
import io
import os
import sys
import contextlib

sys.path.insert(0, os.path.dirname(os.path.dirname(os.path.abspath(__file__))))
from armiverif.main import run_property  # noqa: E402
from armiverif.overlay import overlay_from_patch  # noqa: E402


def implemented():
    here = os.path.dirname(os.path.dirname(os.path.abspath(__file__)))
    return sorted(os.path.basename(p)[:-3].upper() for p in glob.glob(os.path.join(here, "armiverif/props/c[0-9][0-9].py")))


def run(patch, reverse, props, root="/repo", verbose=True):
    ov = overlay_from_patch(patch, reverse, root)
    res = {}
    for pid in props:
        buf = io.StringIO()
        with contextlib.redirect_stdout(buf):
            code, chk = run_property(pid, root, overlay=ov, write=False, quiet=True)
        hits = [(r.id, i.key, i.msg) for r in chk.rules for i in r.instances if i.status == "violation"]
        errs = [(r.id, e) for r in chk.rules for e in r.errors]
        res[pid] = (code, hits, errs)
        if verbose and code:
            print(f"  {pid} exit={code}")
            for rid, key, msg in hits[:6]:
                print(f"     VIOL {rid} {key[:100]} :: {msg[:140]}")
            for rid, e in errs[:4]:
                print(f"     ERR  {rid} {e[:160]}")
    return res


if __name__ == "__main__":
    args = sys.argv[1:]
    rev = "-R" in args
    args = [a for a in args if a != "-R"]
    patch = args[0]
    props = args[1:] or implemented()
    res = run(patch, rev, props)
    det = [p for p, (c, h, e) in res.items() if c == 1]
    print(f"{os.path.basename(os.path.dirname(patch)) or patch}: detected_by={det} errors={[p for p,(c,h,e) in res.items() if c==2]}")
