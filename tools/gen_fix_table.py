#!/usr/bin/env python3
"""Regenerate the rows F54.. of the table of repaired defects in DESIGN.md (section 8.3) from known_findings.json,
and the count in the sentence above it.  Rows up to F52 are hand-written and kept."""
import json, re, os
HERE = os.path.dirname(os.path.dirname(os.path.abspath(__file__)))
d = json.load(open(os.path.join(HERE, "known_findings.json")))
fx = sorted(d["fixed"], key=lambda e: int(e["id"][1:]))
p = os.path.join(HERE, "DESIGN.md")
s = open(p).read()
b, e = s.index("<!-- FIXTABLE:BEGIN"), s.index("<!-- FIXTABLE:END -->")
lines = s[b:e].splitlines()
keep = [l for l in lines if not (l.startswith("| F") and int(re.match(r"\| F(\d+)", l).group(1)) >= 54)]
rows = []
for x in fx:
    if int(x["id"][1:]) < 54:
        continue
    what = x["entry"].split(x["commit"], 1)[1].strip()
    what = re.sub(r"\s*\(agent reports? [^)]*\)\s*$", "", what)
    what = re.sub(r";\s*agent reports? \S+(, \S+)*$", "", what)
    rows.append(f"| {x['id']} | {x['property']} {x['rule']} | {x['commit']} | {what} |")
s = s[:b] + "\n".join(keep + rows) + "\n" + s[e:]
words = {65: "Sixty-five"}
n = len(fx)
s = re.sub(r"^\S+ were repaired in `/repo` by minimal unguarded `fix:` commits", f"{n} were repaired in `/repo` by minimal unguarded `fix:` commits", s, flags=re.M)
s = re.sub(r"owning rule must report in the thorough tier \(it does, for all \d+\)", f"owning rule must report in the thorough tier (it does, for all {n})", s)
open(p, "w").write(s)
print(n, "fixed entries; rows F54..", fx[-1]["id"])
