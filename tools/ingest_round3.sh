#!/bin/bash
# tools/ingest_round2.sh <Cxx>  - confirm /tmp/seedout3/<Cxx>-{1,2,3} in worktree /tmp/wt/<Cxx> and store confirmed ones as seeded/<Cxx>-{7,8,9}
P=$1; HERE=$(cd $(dirname $0)/..; pwd)
for n in 1 2 3; do
  S=/tmp/seedout3/$P-$n; [ -f $S/patch.diff ] || continue
  bash $HERE/tools/confirm_seed.sh $S /tmp/wt/$P || continue
  D=$HERE/seeded/$P-$((n+6))
  /venv/bin/python - $S $D <<'PY'
import json,sys,os,shutil
s,d=sys.argv[1:3]
c=json.load(open(s+'/confirm.json'))
if not c.get('confirmed'): print('NOT CONFIRMED',s,c); sys.exit(0)
os.makedirs(d,exist_ok=True)
shutil.copy(s+'/patch.diff',d); shutil.copy(s+'/demo.py',d)
m=json.load(open(s+'/meta.json'))
m['round']=3
m['origin']="written by an independent round-3 sub-agent that saw only the property text and a scratch worktree (nothing from /verif)"
m['confirmed_by_me']={"how":"tools/confirm_seed.sh in a scratch worktree at /repo HEAD: git apply; pinned 881-test suite; demo on changed tree; git checkout; demo on pristine tree", **{k:c[k] for k in ('suite','demo_exit_changed','demo_exit_pristine','confirmed')}}
json.dump(m,open(d+'/meta.json','w'),indent=1)
print('stored',d)
PY
done
