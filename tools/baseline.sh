#!/bin/bash
# Run the pinned baseline in a given tree (default /repo) and compare with BASELINE.json stable_pass.
# usage: tools/baseline.sh [tree] ; prints number of stable tests that did not pass.
TREE=${1:-/repo}
OUT=$(mktemp /tmp/junit.XXXXXX.xml)
cd "$TREE" && /venv/bin/python -m pytest -q -p no:cacheprovider --timeout=900 --continue-on-collection-errors --junitxml=$OUT >/dev/null 2>&1
/venv/bin/python - "$OUT" <<'PY'
import json,sys,xml.etree.ElementTree as ET
stable=set(json.load(open('/root/.vp/BASELINE.json'))['stable_pass'])
ok=set()
for tc in ET.parse(sys.argv[1]).getroot().iter('testcase'):
    if not any(c.tag in('failure','error','skipped') for c in tc):
        ok.add(tc.get('classname')+'::'+tc.get('name'))
missing=sorted(stable-ok)
print('stable',len(stable),'passed',len(stable&ok),'missing',len(missing))
for m in missing[:20]: print('  NOTPASS',m)
sys.exit(1 if missing else 0)
PY
rc=$?; rm -f $OUT; exit $rc
