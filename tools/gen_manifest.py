#!/usr/bin/env python3
"""Regenerate /verif/MANIFEST.json from the table below + the property modules present.
A property is claimed iff armiverif/props/<id>.py exists and CLAIMS has an entry for it."""
import json
import os
import subprocess

HERE = os.path.dirname(os.path.dirname(os.path.abspath(__file__)))

CLAIMS = {}  # id -> dict(text, note, technique, design_ref)


def claim(pid, text, note, technique, ref):
    CLAIMS[pid] = dict(text=text, note=note, technique=technique, ref=ref)


COMMON_NOTE = ("Trusted base: CPython's ast parser, the armiverif engines and the frozen rule tables (allow-lists, law tables). "
               "Callee resolution is by name and class hierarchy (no type checker on this image). Decides the listed structural "
               "necessary conditions for every path/input; numerical behaviour and histories are not decided.")

claim("C09",
      "Static conformance analysis (partial, exact): reader/writer agreement of every rw* primitive (struct format, byte counter, ASCII width), "
      "count-payload-count framing of close(), read-what-you-write dataflow at all 176 rw* call sites, call arity/type literals, satisfiability of "
      "record-selecting integer guards, duplicate-free key tables, mode/record-class table. These are necessary conditions of the round trip that hold "
      "for all header values; byte-level equality and float precision are not decided.",
      COMMON_NOTE, "ast sibling-agreement + dataflow + interval satisfiability", "DESIGN.md section 3 C09")

claim("C04",
      "Static conformance analysis (partial, exact) of the writer/reader sibling pairs of the database layout: dataset names written vs read and the field "
      "each feeds, exactly-one append per object to each of the 9 parallel layout arrays on every path, tuple/zip orders between _createLayout/_initComps/_compose, "
      "location codes and data-row counts between _packLocationsV3/_unpackLocationsV2, GridParameters/constructor/reduce() argument order and sources, "
      "linked-dimension format vs regex. Equality of stored values is not decided.",
      COMMON_NOTE, "ast sibling agreement + all-paths event counting", "DESIGN.md section 3 C04")
claim("C05",
      "Static conformance analysis (partial, exact) of pack/unpack siblings: attrs key sets, which unpack branch decodes each pack exit, the None-sentinel "
      "table vs the reader's dtype dispatch (with numpy's subtype order), exhaustive type dispatch ending in raise, jagged offset step = values appended, "
      "flag byte order / order-sensitive fast path / remap dictionary, serializer name+version protocol, and every data-dependent cast on the write path being compared with its source. Value-level round trip is not decided.",
      COMMON_NOTE, "ast sibling agreement + decision-tree simulation + all-paths event counting", "DESIGN.md section 3 C05")

claim("C01",
      "Static conformance analysis (partial, exact): frozen owners of Composite._children and .parent (who-may-write over the whole tree), all-paths pairing of "
      "parent/list/locator effects inside add/insert/remove/removeAll/setChildren, every structural override below Composite reaching the base primitive "
      "exactly once with the same object, pickle/deepcopy protocol, traversal methods with exact generation guards, no __eq__/__hash__ in the hierarchy. "
      "The global invariant over arbitrary edit histories is not decided; add()/insert() accepting a second parent is a recorded known finding.",
      COMMON_NOTE, "ast ownership (who-may-write) + all-paths must-pass-through + override discipline", "DESIGN.md section 3 C01")

claim("C15",
      "Static conformance analysis (partial, exact) of the operator schedule: loop shapes of _mainOperate/_cycleLoop/_timeNodeLoop (BOL once, BOC before nodes, one node "
      "per burn step plus exactly one final node, EOC, EOL on every exit incl. halt), the hook call in _interactAll executing exactly once per interface on every path "
      "(short-circuit aware), state strings and hook arguments of the six interactAllX, interface selection and EOL order, tight-coupling loop and the per-node DB write, "
      "node numbering helpers sharing getNodesPerCycle and being inverse affine forms (polynomial normal form). Equality with a reference schedule for every configuration "
      "is not decided.",
      COMMON_NOTE, "all-paths event counting (short-circuit aware) + path conditions + sibling agreement + polynomial normal forms", "DESIGN.md section 3 C15")

claim("C14",
      "Static conformance analysis (partial, exact): frozen owners of Core.childrenByLocator/assembliesByName/blocksByName over the whole tree; Core.add and "
      "Core.removeAssembly performing each table update exactly once on every normal path (removed assembly pooled xor purged); swapAssemblies' saved-locator idiom and "
      "order; Assembly.moveTo re-keying; cross pairing of stationary blocks; dischargeSwap order. Core.add registering before its refusal tests is a recorded known finding. "
      "Inventory equality over shuffle histories is not decided.",
      COMMON_NOTE, "ast ownership (who-may-write) + all-paths event counting + ordering", "DESIGN.md section 3 C14")

claim("C16",
      "Static conformance analysis (partial, exact): StateRetainer enter/exit symmetry over one deep traversal; every backUp/restoreBackup pair in the tree checked to push/pop a "
      "stack with matching tuple order (or to nest the pickled state); keep-set captured before and re-applied after the roll-back; owners of GLOBAL_SERIAL_NUM and fresh serials "
      "after state load; read-only test dominating the store and the frozen bypass list; no in-place mutation of grid state that backUp saved by reference; frozen list of in-place "
      "mutations of parameter containers (three of which change values on a read-only reactor: recorded known finding). Exact restoration of values is not decided.",
      COMMON_NOTE, "sibling agreement (push/pop) + dominance + ownership + aliasing lint", "DESIGN.md section 3 C16")

claim("C17",
      "Static conformance analysis (partial, exact): schema call dominating the store in Setting.setValue and frozen writers of Setting._value; dataflow of the renamed "
      "setting name into the membership test and assignment; modified() returning its deep-copied duplicate on every path; writer skip filters per style, dump(), preserved "
      "versions mapping, same root key; flag-list codec; sibling serialisers of cross-section options omitting exactly None. YAML fidelity per value is not decided.",
      COMMON_NOTE, "dominance + ownership + def-use dataflow + sibling agreement", "DESIGN.md section 3 C17")

claim("C06",
      "Static conformance analysis (partial, exact): who writes the successfulCompletion attribute and who can close with a true value (whole-tree who-may-call); the failure chain "
      "Case.run -> Operator.__exit__ -> interactAllError -> DatabaseInterface.interactError -> Database.close with unconditional calls and the flag/flush/close/move sequence on every path; "
      "group-name format vs regex and every h5db key through getH5GroupName; overwrite refusal dominating create_dataset; lock-step collection of data indices and objects in getHistories; "
      "merge/split copying; the two cooperating per-node write sites; unresolved names (star-import aware) in safeMove/safeCopy and the database modules. File contents after a fault at an "
      "arbitrary instruction and HDF5 durability are not decided.",
      COMMON_NOTE, "who-may-call/ownership + dominance + path conditions + format/regex agreement + name resolution", "DESIGN.md section 3 C06")

claim("C03",
      "Static analysis with a proof-style clause: each of the 11 two-dimensional shapes' area formulas is typed in the free abelian group generated by the linear expansion factor "
      "(getDimension(d): L if d in THERMAL_EXPANSION_DIMS else 1) and shown to have degree exactly 2 for all dimension values; linearExpansionFactor's exact rational normal form "
      "gives 1+f = phi(T)/phi(T0) (path independence) and every solid material's density reduction is (1+f)^-2 of the same f. Plus forwarding of Tc/cold, dimension tables, order in "
      "getDimension/setDimension (links first and unconverted), the all-paths sequence of setTemperature, and signature / getTk-getTc normalisation of every linearExpansionPercent. "
      "Values of correlations and finiteness over temperature ranges are not decided.",
      COMMON_NOTE, "unit/degree typing (abstract interpretation) + exact rational normal forms + dominance/ordering", "DESIGN.md section 3 C03")

claim("C02",
      "Static analysis (partial, exact): 24 accounting/conversion functions typed in the free abelian group of units (cm, g, mol, barn, atom) with a role generator for volume "
      "fractions - returns and the arguments handed to the number-density setters must have the unit the law states, for all runtime values; symmetry-factor placement compared "
      "between the sibling sites; setters delegating to one implementation; setMassFracs counting every assigned fraction exactly once per iteration; cache invalidation on geometry "
      "change. Numerical read-back equalities are not decided.",
      COMMON_NOTE, "dimension/role typing (abstract interpretation) + sibling agreement + all-paths counting", "DESIGN.md section 3 C02")

claim("C20",
      "Static analysis (partial, exact): every weighted mean of the block-collection classes typed with a role generator for the weights (result of degree 0 in the weights and with the "
      "unit of the averaged quantity, for all values); identical weights in the sibling density averages; aggregation loops over candidate blocks only; exactly one unconditional "
      "append per block to the group keyed by its micro suffix; environment-group skip condition and injective encoding (polynomial normal form); label codec field width over the folded "
      "alphabet (non-bijective for lowercase labels: recorded known finding); representative-block builders mutate only fresh copies. Numerical convexity and the median choice are not decided.",
      COMMON_NOTE, "role typing (abstract interpretation) + sibling agreement + all-paths counting + constant folding", "DESIGN.md section 3 C20")

claim("C10",
      "Static analysis (partial, exact): purity of metadata/collection merges and conflict raising; direct stores into the target library only after every step that can refuse "
      "(the remaining non-atomicity of the nuclide loop is a recorded known finding); write-once properties for group structures; merge-or-insert of nuclides; symmetric fix-ups; "
      "macroscopic sums typed with role generators (density, micro datum, multiplier): linear in each and additive over ONE composition; derived quantities equal to their defining "
      "sums in dependency order. Merge-order independence of values is not decided.",
      COMMON_NOTE, "effect ordering + purity + role typing (abstract interpretation) + table agreement", "DESIGN.md section 3 C10")

claim("C11",
      "Static analysis (partial, exact): the overlap-mapping functions typed with role generators for overlap/destination/source heights (densities x overlap/destination; "
      "volume-integrated parameters x overlap/source; others x overlap/destination; peaks max; only None skipped); height-change density ratios; classification from parameter "
      "definitions; getBlocksBetweenElevations' overlap formula and loud sum check; contiguous one-block-per-cell construction of the new mesh; the mesh filter's complete-scan / "
      "return-only-when-clean shape and anchor handling; exact rational forms of resampleStepwise's partial-bin fractions. Numerical conservation is not decided.",
      COMMON_NOTE, "role typing (abstract interpretation) + path conditions + loop-shape rules + exact rational normal forms", "DESIGN.md section 3 C11")

claim("C12",
      "Static analysis (partial, exact): axiallyExpandAssembly typed with a role generator for the growth fraction (height x growth^+1, density factor growth^-1 on the same component); "
      "path conditions of every zbottom/ztop/height store (bottom on the lower block's top, top only from the target component and never for the dummy block); the block-height check "
      "placed after the update; mesh from tops into the grid bounds; component stacking cases; cold-diameter consistency of the linkage test; reference temperature refreshed on every "
      "path of updateComponentTemp. Mass numbers and numerical restoration are not decided.",
      COMMON_NOTE, "role typing (abstract interpretation) + path conditions + statement ordering + all-paths counting", "DESIGN.md section 3 C12")

claim("C07",
      "Static analysis with proof-style clauses (exact algebra, no enumeration of inputs): hex unit steps extracted as matrices over Q(sqrt3)[pitch]; the six listed neighbours are one pitch "
      "away and successive +60 degree rotations, for both orientations; pitch property and degree-1 homogeneity in the pitch; affine coordinate formulas and nesting; ring-count polynomial "
      "identities; the six edges of indicesToRingPos and of its inverse composed as affine maps give the identity, ring = hex distance + 1 by vertex evaluation; the region guards evaluated in "
      "the sign domain on all 13 faces of the arrangement {i=0, j=0, i+j=0} select the decoder's edge (exhaustive because the guards are homogeneous); label codec (sign/separator collision for "
      "Cartesian labels: recorded known finding). Floating-point exactness of numRingsToHoldNumCells and Cartesian ring numbering are not decided.",
      COMMON_NOTE, "exact normal forms over Q(sqrt3) + affine map composition + sign-domain abstract interpretation", "DESIGN.md section 3 C07")

claim("C08",
      "Static analysis with proof-style clauses (exact algebra): the third-core images and the six index rotations extracted as integer matrices M with U.M = R(120n or 60k).U over Q(sqrt3) for both "
      "orientations, group structure, period 6; every leaf of the Cartesian quarter-core equivalents compared with the exact images of the (possibly half-offset) cell centre under 90-degree "
      "rotations / axis reflections with the leaf's equality guards substituted; HexBlock.rotate's helpers sharing angle, direction (R.x, pivot by -steps) and step count; symmetry-line guards selecting "
      "the 0/60/120-degree rays; parity adjustments of isInFirstThird. Counting orbit members in the domain is not decided.",
      COMMON_NOTE, "exact normal forms over Q(sqrt3) + linear-map extraction + decision-tree substitution", "DESIGN.md section 3 C08")

claim("C13",
      "Static analysis (partial, exact): per-iteration all-paths counting in ThirdCoreHexToFullCoreChanger.convert (one deep-copied, unique, rotated, recorded assembly per image, placed at "
      "the image's cell); exact agreement (Q(sqrt3) algebra) between the order in which the grid lists the third-core images and the n x 120-degree rotation convert applies to the n-th; restore "
      "removing exactly the recorded assemblies with discharge=False and Core.removeAssembly pooling only on discharge; edge assemblies added iff recorded; caches of the remaining boundary "
      "assemblies cleared; scale up/down inverse by 3 under one centre condition with the list computed after the geometry changes. Numerical x3 totals and bit-exact restoration are not decided.",
      COMMON_NOTE, "all-paths event counting + path conditions + exact lattice algebra + ordering", "DESIGN.md section 3 C13")

claim("C18",
      "Explicitly minimal: C18 relates an input document to an object graph and is not statically decidable as a whole. Claimed clauses, decided exactly: every AsciiMap class reads and writes "
      "through one (column, line) -> (i, j) map with one line order, and the writer refuses blank interior rows / empty maps; every blueprint attribute indexed per block is among the length-checked "
      "lists and the check dominates construction; lattice centring uses each axis' own size; the custom isotopic vector is copied into each material; component kwargs forward all attributes "
      "but a frozen skip set. Faithfulness of the model to the text is not decided.",
      COMMON_NOTE, "sibling agreement (reader/writer) + dominance + aliasing lint", "DESIGN.md section 3 C18")

claim("C19",
      "Static analysis and exhaustive data lints: nuclides.dat / elements.dat / burn-chain.yaml / mcc-nuclides.yaml parsed as data (no third-party YAML) and checked completely (unique (Z,A,S), "
      "N=A-Z, symbols per element, natural abundances per element summing to 1 or 0, every burn-chain key and product a derivable or registered name, branch in [0,1], MC2 ids unique per library - "
      "the shared DUMMY id of DUMP1/DUMP2 is a recorded known finding); the index dictionaries written only inside nuclideBases with each checked store dominated by its duplicate test; identifier "
      "formats embedding A, Z(3 digits) and the state number; every default material composition that folds (numerically, or symbolically with table abundances substituted) sums to one. "
      "Uniqueness of derived labels and finiteness of density/expansion over temperature ranges are not decided.",
      COMMON_NOTE, "exhaustive data lint + ownership/dominance + format parsing + constant/symbolic folding", "DESIGN.md section 3 C19")

NA_REASON = {}


def _rules_sentence(pid):
    """the rule ids and one-line texts actually armed, taken from the last evidence file of the property"""
    p = os.path.join(HERE, "evidence", pid + ".json")
    if not os.path.exists(p):
        return ""
    try:
        rules = json.load(open(p))["coverage"]["rules"]
    except Exception:
        return ""
    return " Structural clauses decided by the rules armed on this tree: " + "; ".join(f"{r['rule']} {r['text']}" for r in rules) + "."


def main():
    props = [json.loads(l) for l in open(os.path.join(HERE, "properties.jsonl"))]
    fixes = subprocess.run(["git", "-C", "/repo", "log", "--format=%H %s", "--grep=^fix:"], capture_output=True, text=True).stdout.strip().splitlines()
    man = {
        "version": 1,
        "setup_cmd": "true",
        "hooks": {
            "guard": "ARMI_VERIF",
            "enable": "no hooks: the checks only parse /repo's source (ast); nothing in /repo is instrumented, imported or executed",
            "baseline_off_cmd": "cd /repo && /venv/bin/python -m pytest -ra -q -p no:cacheprovider --timeout=900 --continue-on-collection-errors",
            "source_commits": [l.split()[0] for l in fixes],
            "add_only": True,
        },
        "engines": [
            {"name": "E0 program index", "path": "armiverif/index.py", "kind_free_text": "ast index: modules, classes, C3 MRO, constants folding, overlay", "serves_properties": sorted(CLAIMS)},
            {"name": "E1 flow", "path": "armiverif/flow.py", "kind_free_text": "syntax-directed forward dataflow (event counting on all paths), path conditions", "serves_properties": sorted(CLAIMS)},
            {"name": "E4 units", "path": "armiverif/units.py", "kind_free_text": "dimension/role typing of formulas (abstract interpretation in a free abelian group)", "serves_properties": ["C02", "C03", "C10", "C11", "C12", "C20"]},
            {"name": "E5 exprnf", "path": "armiverif/exprnf.py", "kind_free_text": "exact normal forms: polynomials over Q(sqrt3), affine index maps", "serves_properties": ["C03", "C07", "C08", "C15"]},
            {"name": "E8 selftest", "path": "armiverif/selftest.py", "kind_free_text": "checker self-test on in-memory breaking/preserving variants and on the reverted fix: commits", "serves_properties": sorted(CLAIMS)},
        ],
        "checks": [],
        "notes": "Static analysis only (stdlib ast; nothing in /repo is imported or run). Verdicts: exit 0 holds, exit 1 + VIOLATION lines, exit 2 + ANALYSIS-ERROR (anchor moved / outside the analysable fragment). See DESIGN.md.",
        "not_applicable": [],
    }
    man["engines"] = [e for e in man["engines"] if os.path.exists(os.path.join(HERE, e["path"]))]
    for p in props:
        pid = p["id"]
        if pid in CLAIMS and os.path.exists(os.path.join(HERE, "armiverif/props", pid.lower() + ".py")):
            c = CLAIMS[pid]
            man["checks"].append({
                "property_id": pid,
                "quick_cmd": f"./check {pid}",
                "thorough_cmd": f"./check {pid} --thorough",
                "evidence_file": f"/verif/evidence/{pid}.json",
                "replay_cmd_template": f"./check {pid} --replay {{path}}",
                "engine": "armiverif",
                "level_claimed": {"category": "other", "text": c["text"] + _rules_sentence(pid), "design_ref": c["ref"] + "; rules as armed: DESIGN.md 8.A"},
                "level_note": c["note"],
                "technique": "static analysis: " + c["technique"],
            })
        else:
            man["not_applicable"].append({"property_id": pid, "reason": NA_REASON.get(pid, "check under construction in this round (DESIGN.md section 3); not claimed until its checker is committed")})
    json.dump(man, open(os.path.join(HERE, "MANIFEST.json"), "w"), indent=1)
    print("claimed", [c["property_id"] for c in man["checks"]], "n/a", len(man["not_applicable"]))


if __name__ == "__main__":
    main()
