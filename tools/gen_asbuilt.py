#!/venv/bin/python
"""Regenerate the machine-written tables of DESIGN.md section 8 (between the AUTOGEN markers) from
evidence/*.json, seeded/*/meta.json, seeded/RESULTS.json and known_findings.json."""
import json, os, re, glob
HERE = os.path.dirname(os.path.dirname(os.path.abspath(__file__)))
out = []
out.append("#### 8.A Rules as armed (from the last evidence run)\n")
out.append("| prop | rule | what is decided | instances | floor | undecided | known |")
out.append("|---|---|---|---|---|---|---|")
for p in sorted(glob.glob(os.path.join(HERE, "evidence", "C??.json"))):
    e = json.load(open(p))
    for r in e["coverage"]["rules"]:
        out.append(f"| {e['property_id']} | {r['rule']} | {r['text'].replace('|', '/')} | {r['instances']} | {r['floor']} | {r['undecided']} | {r['known_findings']} |")
out.append("")
out.append("#### 8.B Seeded changes and the rules that report them\n")
out.append("Each row is one change written by an independent sub-agent (property text + scratch worktree only), confirmed by me (applies, 881/881 pinned tests pass, demo fails on the changed tree and passes on the pristine one). `own` = rules of the targeted property that fire; `others` = other properties' checks that also fire.\n")
out.append("| seed | round | change (agent's summary) | own-property rules | other checks firing |")
out.append("|---|---|---|---|---|")
res = json.load(open(os.path.join(HERE, "seeded", "RESULTS.json")))
n = own = anyd = 0
for sid in sorted(res):
    mp = os.path.join(HERE, "seeded", sid, "meta.json")
    meta = json.load(open(mp)) if os.path.exists(mp) else {}
    prop = sid[:3]
    o = res[sid].get(prop, {})
    ownr = sorted({h.split(":", 1)[0] for h in o.get("violations", [])}) if o.get("exit") == 1 else []
    others = sorted(q for q, v in res[sid].items() if q != prop and v["exit"] == 1)
    n += 1; own += bool(ownr); anyd += bool(ownr or others)
    summ = (meta.get("summary") or "")[:170].replace("|", "/").replace("\n", " ")
    missed = "neutralised by a later fix (property holds again)" if meta.get("neutralised_at_head") else "**missed**"
    out.append(f"| {sid} | {meta.get('round', 1)} | {summ} | {', '.join(ownr) or missed} | {', '.join(others)} |")
out.append("")
out.append(f"Totals: {n} seeded changes, {own} reported by the targeted property's check, {anyd} by at least one check.\n")
text = "\n".join(out)
dp = os.path.join(HERE, "DESIGN.md")
d = open(dp).read()
b, e_ = "<!-- AUTOGEN:BEGIN -->", "<!-- AUTOGEN:END -->"
if b in d:
    d = d[: d.index(b) + len(b)] + "\n" + text + "\n" + d[d.index(e_):]
    open(dp, "w").write(d)
    print("DESIGN.md tables regenerated:", n, "seeds")
else:
    print(text)
