#!/venv/bin/python
"""Freeze seeded/EXPECT.json from seeded/RESULTS.json: for every seeded change, the properties whose
check reports it and the rule ids that fire. The thorough tier (armiverif/selftest.py) requires these
detections to persist."""
import json, os
HERE = os.path.dirname(os.path.dirname(os.path.abspath(__file__)))
res = json.load(open(os.path.join(HERE, "seeded", "RESULTS.json")))
exp = {}
for sid, out in sorted(res.items()):
    e = {}
    for p, v in out.items():
        if v["exit"] == 1:
            e[p] = sorted({h.split(":", 1)[0] for h in v["violations"]})
    exp[sid] = e
json.dump(exp, open(os.path.join(HERE, "seeded", "EXPECT.json"), "w"), indent=1, sort_keys=True)
print(len(exp), "seeds;", sum(1 for e in exp.values() if not e), "undetected")
