#!/venv/bin/python
"""tools/record_fix.py <Fid> <prop> <rule> <commit> <what failed ...>  - write findings/reverts/<commit>.patch (the commit as a
patch; applied with -R it is a regression seed) and append a `fixed` entry to known_findings.json."""
import json, os, subprocess, sys
HERE = os.path.dirname(os.path.dirname(os.path.abspath(__file__)))
fid, prop, rule, commit = sys.argv[1:5]
what = " ".join(sys.argv[5:])
short = subprocess.run(["git", "-C", "/repo", "rev-parse", "--short", commit], capture_output=True, text=True).stdout.strip()
diff = subprocess.run(["git", "-C", "/repo", "diff", f"{short}~1", short], capture_output=True, text=True).stdout
open(os.path.join(HERE, "findings", "reverts", short + ".patch"), "w").write(diff)
p = os.path.join(HERE, "known_findings.json")
k = json.load(open(p))
k["fixed"] = [f for f in k["fixed"] if f.get("commit") != short]
k["fixed"].append({"id": fid, "property": prop, "rule": rule, "commit": short, "entry": f"fixed: property={prop} {short} {what}",
                   "regression_patch": f"findings/reverts/{short}.patch (apply with -R)"})
json.dump(k, open(p, "w"), indent=1)
print("recorded", fid, short)
