#!/bin/bash
# tools/ingest_seeds.sh <Cxx> <srcdir> <round> <offset>
# confirm <srcdir>/<Cxx>-{1,2,3} in worktree /tmp/wt/<Cxx> (must be at /repo HEAD) and store confirmed ones as seeded/<Cxx>-{offset+1..offset+3}
P=$1; SRC=$2; ROUND=$3; OFF=$4; HERE=$(cd $(dirname $0)/..; pwd)
for n in 1 2 3; do
  S=$SRC/$P-$n; [ -f $S/patch.diff ] || continue
  bash $HERE/tools/confirm_seed.sh $S /tmp/wt/$P || continue
  D=$HERE/seeded/$P-$((n+OFF))
  /venv/bin/python - $S $D $ROUND <<'PY'
import json,sys,os,shutil
s,d,rnd=sys.argv[1:4]
c=json.load(open(s+'/confirm.json'))
if not c.get('confirmed'): print('NOT CONFIRMED',s,c); sys.exit(0)
os.makedirs(d,exist_ok=True)
shutil.copy(s+'/patch.diff',d); shutil.copy(s+'/demo.py',d)
m=json.load(open(s+'/meta.json'))
m['round']=int(rnd)
m['origin']=f"written by an independent round-{rnd} sub-agent that saw only the property text and a scratch worktree (nothing from /verif)"
m['confirmed_by_me']={"how":"tools/confirm_seed.sh in a scratch worktree at /repo HEAD: git apply; pinned 881-test suite; demo on changed tree; git checkout; demo on pristine tree", **{k:c[k] for k in ('suite','demo_exit_changed','demo_exit_pristine','confirmed')}}
json.dump(m,open(d+'/meta.json','w'),indent=1)
json.dump(c,open(d+'/confirm.json','w'),indent=1)
print('stored',d)
PY
done
