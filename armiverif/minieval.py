"""Exhaustive evaluation of small integer/character codecs extracted from the tree (E6).

Not a Python interpreter: a closed fragment - integer/str/bool constants, names, + - * // %, comparisons, and/or/not,
ord/chr/int/len/str methods islower/isupper/upper/lower, if/elif/else, assignment to names and to `self.<attr>`,
raise, return - evaluated over a FINITE domain given by the rule (e.g. group numbers 0..52). Anything else raises
AnalysisError (exit 2), so a construct we do not model is never mistaken for a verdict. Calls with side effects that the
codec does not depend on (logging, bookkeeping of `assigned` flags) are skipped when listed by the rule."""
from __future__ import annotations

import ast

from .index import AnalysisError, dotted, norm


class Raised(Exception):
    pass


class _Return(Exception):
    def __init__(self, v):
        self.v = v


class _Break(Exception):
    pass


class _Continue(Exception):
    pass


class MiniEval:
    MAX_ITER = 100000

    def __init__(self, consts=None, skip_calls=(), resolver=None, call_hook=None):
        self.consts = dict(consts or {})
        self.skip = tuple(skip_calls)
        self.resolver = resolver  # callable(ast.Name) -> constant or raises AnalysisError
        self.call_hook = call_hook  # callable(call node, evaluated positional args) -> value, or None when not handled

    def run(self, fnode, args):
        """args: {param: value}; returns (return value, {self attr: value})"""
        env = dict(self.consts)
        env.update(args)
        self.attrs = {}
        try:
            self._block(fnode.body, env)
        except _Return as r_:
            return r_.v, self.attrs
        return None, self.attrs

    def _block(self, stmts, env):
        for s in stmts:
            self._stmt(s, env)

    def _stmt(self, s, env):
        if isinstance(s, ast.Expr):
            if isinstance(s.value, ast.Constant):
                return
            if isinstance(s.value, ast.Call) and self.skip and (dotted(s.value.func) or "").startswith(self.skip):
                return
            if isinstance(s.value, ast.Call) and self.call_hook is not None and not s.value.keywords:
                try:
                    a_ = [self._ev(x, env) for x in s.value.args]
                except AnalysisError:
                    a_ = None
                if self.call_hook(s.value, a_) is not None:
                    return
            if isinstance(s.value, ast.Call) and isinstance(s.value.func, ast.Attribute) and s.value.func.attr in ("append", "remove", "extend", "pop", "insert", "sort", "reverse", "clear"):
                self._ev(s.value, env)
                return
            raise AnalysisError(f"minieval: expression statement `{norm(s)[:60]}` outside the fragment")
        if isinstance(s, ast.Assign) and len(s.targets) == 1:
            t = s.targets[0]
            if isinstance(t, ast.Name):
                try:
                    env[t.id] = self._ev(s.value, env)
                except AnalysisError:
                    env[t.id] = _OPAQUE
                return
            if isinstance(t, ast.Attribute) and isinstance(t.value, ast.Name) and t.value.id == "self":
                self.attrs[t.attr] = self._ev(s.value, env)
                if f"self.{t.attr}" in env:
                    env[f"self.{t.attr}"] = self.attrs[t.attr]
                return
            if isinstance(t, (ast.Tuple, ast.List)):
                self._unpack(t, self._ev(s.value, env), env)
                return
            if isinstance(t, ast.Subscript) and not isinstance(t.slice, ast.Slice):
                base, i = self._ev(t.value, env), self._ev(t.slice, env)
                if isinstance(base, list) and isinstance(i, int) and not isinstance(i, bool) and -len(base) <= i < len(base):
                    base[i] = self._ev(s.value, env)
                    return
                if isinstance(base, dict):
                    base[i] = self._ev(s.value, env)
                    return
            if isinstance(t, ast.Attribute):
                base = t.value
                if isinstance(base, ast.Name) and env.get(base.id) is _OPAQUE:
                    return  # bookkeeping on an opaque object (e.g. paramDef.assigned = ...)
            raise AnalysisError(f"minieval: assignment target `{norm(t)}` outside the fragment")
        if isinstance(s, ast.If):
            if self._truth(self._ev(s.test, env)):
                self._block(s.body, env)
            else:
                self._block(s.orelse, env)
            return
        if isinstance(s, ast.AugAssign) and isinstance(s.target, ast.Name):
            cur = env.get(s.target.id)
            v = self._ev(s.value, env)
            ops = {ast.Add: lambda: cur + v, ast.Sub: lambda: cur - v, ast.Mult: lambda: cur * v, ast.FloorDiv: lambda: cur // v, ast.Mod: lambda: cur % v}
            if type(s.op) not in ops or cur is _OPAQUE or cur is None:
                raise AnalysisError(f"minieval: `{norm(s)[:60]}` outside the fragment")
            env[s.target.id] = ops[type(s.op)]()
            return
        if isinstance(s, ast.For) and isinstance(s.target, ast.Name) and isinstance(s.iter, ast.Call) and dotted(s.iter.func) in ("range", "itertools.count") and not s.orelse:
            a = [self._ev(x, env) for x in s.iter.args]
            it = range(*a) if dotted(s.iter.func) == "range" else None
            i, n = (a[0] if a else 0), 0
            while True:
                if it is not None:
                    if n >= len(it):
                        break
                    env[s.target.id] = it[n]
                else:
                    env[s.target.id] = i + n * (a[1] if len(a) > 1 else 1)
                n += 1
                if n > self.MAX_ITER:
                    raise AnalysisError("minieval: loop does not terminate within the iteration bound")
                try:
                    self._block(s.body, env)
                except _Break:
                    break
                except _Continue:
                    continue
            return
        if isinstance(s, ast.For) and not s.orelse:
            seq = self._iterable(s.iter, env)
            n = 0
            for item in list(seq):
                n += 1
                if n > self.MAX_ITER:
                    raise AnalysisError("minieval: loop does not terminate within the iteration bound")
                self._unpack(s.target, item, env)
                try:
                    self._block(s.body, env)
                except _Break:
                    break
                except _Continue:
                    continue
            return
        if isinstance(s, ast.Continue):
            raise _Continue()
        if isinstance(s, ast.While) and not s.orelse:
            n = 0
            while self._truth(self._ev(s.test, env)):
                n += 1
                if n > self.MAX_ITER:
                    raise AnalysisError("minieval: loop does not terminate within the iteration bound")
                try:
                    self._block(s.body, env)
                except _Break:
                    break
                except _Continue:
                    continue
            return
        if isinstance(s, ast.Break):
            raise _Break()
        if isinstance(s, ast.Raise):
            raise Raised(norm(s)[:80])
        if isinstance(s, ast.Return):
            raise _Return(self._ev(s.value, env) if s.value is not None else None)
        if isinstance(s, ast.Pass):
            return
        raise AnalysisError(f"minieval: statement `{norm(s)[:60]}` outside the fragment")

    def _unpack(self, t, v, env):
        if isinstance(t, ast.Name):
            env[t.id] = v
            return
        if isinstance(t, (ast.Tuple, ast.List)) and isinstance(v, (list, tuple)):
            v = list(v)
            star = [i for i, e in enumerate(t.elts) if isinstance(e, ast.Starred)]
            if not star and len(v) == len(t.elts):
                for e, x in zip(t.elts, v):
                    self._unpack(e, x, env)
                return
            if len(star) == 1 and len(v) >= len(t.elts) - 1:
                k = star[0]
                tail = len(t.elts) - k - 1
                for e, x in zip(t.elts[:k], v[:k]):
                    self._unpack(e, x, env)
                self._unpack(t.elts[k].value, v[k:len(v) - tail], env)
                for e, x in zip(t.elts[k + 1:], v[len(v) - tail:]):
                    self._unpack(e, x, env)
                return
            raise Raised(f"ValueError: cannot unpack {len(v)} values into `{norm(t)}`")
        raise AnalysisError(f"minieval: unpacking into `{norm(t)[:40]}` outside the fragment")

    def _iterable(self, e, env):
        if isinstance(e, ast.Call) and not e.keywords:
            d = dotted(e.func)
            if d == "enumerate" and len(e.args) == 1:
                return [(i, x) for i, x in enumerate(self._iterable(e.args[0], env))]
            if d == "zip" and e.args:
                return [tuple(x) for x in zip(*[self._iterable(a, env) for a in e.args])]
        v = self._ev(e, env)
        if isinstance(v, (list, tuple, str)):
            return list(v)
        if isinstance(v, (set, frozenset)):
            return sorted(v)
        if isinstance(v, dict):
            return list(v)
        raise AnalysisError(f"minieval: iteration over `{norm(e)[:40]}` outside the fragment")

    def _comp(self, e, env):
        if len(e.generators) != 1 or e.generators[0].is_async:
            raise AnalysisError(f"minieval: comprehension `{norm(e)[:40]}` outside the fragment")
        g = e.generators[0]
        out = []
        inner = dict(env)
        for item in self._iterable(g.iter, env):
            self._unpack(g.target, item, inner)
            if all(self._truth(self._ev(c, inner)) for c in g.ifs):
                out.append(self._ev(e.elt, inner))
        return out

    @staticmethod
    def _truth(v):
        if v is _OPAQUE:
            raise AnalysisError("minieval: truth value of an opaque expression")
        return bool(v)

    def _ev(self, e, env):
        if isinstance(e, ast.Constant):
            return e.value
        if isinstance(e, ast.Name):
            if e.id in env:
                if env[e.id] is _OPAQUE:
                    raise AnalysisError(f"minieval: `{e.id}` is opaque")
                return env[e.id]
            if self.resolver is not None:
                v = self.resolver(e)
                if isinstance(v, (int, float, str, bool)):
                    return v
            raise AnalysisError(f"minieval: unknown name `{e.id}`")
        if isinstance(e, ast.Attribute) and norm(e) in env:
            v = env[norm(e)]
            if v is _OPAQUE:
                raise AnalysisError(f"minieval: `{norm(e)}` is opaque")
            return v
        if isinstance(e, (ast.ListComp, ast.GeneratorExp)):
            return self._comp(e, env)
        if isinstance(e, ast.Tuple):
            return tuple(self._ev(x, env) for x in e.elts)
        if isinstance(e, ast.List):
            return [self._ev(x, env) for x in e.elts]
        if isinstance(e, ast.Subscript):
            v = self._ev(e.value, env)
            if isinstance(v, (list, tuple, str)):
                if isinstance(e.slice, ast.Slice):
                    lo = self._ev(e.slice.lower, env) if e.slice.lower is not None else None
                    hi = self._ev(e.slice.upper, env) if e.slice.upper is not None else None
                    st = self._ev(e.slice.step, env) if e.slice.step is not None else None
                    if all(x is None or (isinstance(x, int) and not isinstance(x, bool)) for x in (lo, hi, st)):
                        return list(v[lo:hi:st]) if not isinstance(v, str) else v[lo:hi:st]
                else:
                    i = self._ev(e.slice, env)
                    if isinstance(i, int) and not isinstance(i, bool) and -len(v) <= i < len(v):
                        return v[i]
            raise AnalysisError(f"minieval: subscript `{norm(e)[:60]}` outside the fragment")
        if isinstance(e, ast.IfExp):
            return self._ev(e.body, env) if self._truth(self._ev(e.test, env)) else self._ev(e.orelse, env)
        if isinstance(e, ast.BinOp):
            a, b = self._ev(e.left, env), self._ev(e.right, env)
            ops = {ast.Add: lambda: a + b, ast.Sub: lambda: a - b, ast.Mult: lambda: a * b, ast.FloorDiv: lambda: a // b, ast.Mod: lambda: a % b}
            if type(e.op) in ops:
                return ops[type(e.op)]()
            bits = {ast.BitAnd: lambda: a & b, ast.BitOr: lambda: a | b, ast.BitXor: lambda: a ^ b}
            if type(e.op) in bits and all(isinstance(x, int) for x in (a, b)):
                return bits[type(e.op)]()
            if isinstance(e.op, ast.Div) and all(isinstance(x, (int, float)) and not isinstance(x, bool) for x in (a, b)) and b != 0:
                return a / b
        if isinstance(e, ast.UnaryOp):
            v = self._ev(e.operand, env)
            if isinstance(e.op, ast.Not):
                return not v
            if isinstance(e.op, ast.USub):
                return -v
        if isinstance(e, ast.BoolOp):
            res = None
            for v in e.values:
                res = self._ev(v, env)
                if isinstance(e.op, ast.And) and not res:
                    return res
                if isinstance(e.op, ast.Or) and res:
                    return res
            return res
        if isinstance(e, ast.Compare):
            left = self._ev(e.left, env)
            for op, c in zip(e.ops, e.comparators):
                right = self._ev(c, env)
                if isinstance(op, (ast.In, ast.NotIn)) and isinstance(right, (list, tuple, str)):
                    hit = left in right
                    if hit != isinstance(op, ast.In):
                        return False
                    left = right
                    continue
                if isinstance(op, (ast.Is, ast.IsNot)) and (right is None or left is None or isinstance(right, bool)):
                    if (left is right) != isinstance(op, ast.Is):
                        return False
                    left = right
                    continue
                t = {ast.Lt: left < right if _cmp(left, right) else None, ast.LtE: left <= right if _cmp(left, right) else None,
                     ast.Gt: left > right if _cmp(left, right) else None, ast.GtE: left >= right if _cmp(left, right) else None,
                     ast.Eq: left == right, ast.NotEq: left != right}.get(type(op), "x")
                if t == "x" or t is None:
                    raise AnalysisError(f"minieval: comparison `{norm(e)}` outside the fragment")
                if not t:
                    return False
                left = right
            return True
        if isinstance(e, ast.Call) and self.call_hook is not None:
            hv = self.call_hook(e, [self._ev(x, env) for x in e.args] if not e.keywords else None)
            if hv is not None:
                return hv
        if isinstance(e, ast.Call):
            d = dotted(e.func)
            if d in ("ord", "chr", "int", "len", "str", "abs", "bool") and len(e.args) == 1 and not e.keywords:
                try:
                    return {"ord": ord, "chr": chr, "int": int, "len": len, "str": str, "abs": abs, "bool": bool}[d](self._ev(e.args[0], env))
                except (ValueError, TypeError) as ex:
                    raise Raised(f"{type(ex).__name__}: {ex}")
            if d in ("math.sqrt", "math.ceil", "math.floor", "np.sqrt", "np.ceil", "np.floor") and len(e.args) == 1 and not e.keywords:
                import math
                v = self._ev(e.args[0], env)
                if isinstance(v, (int, float)) and not isinstance(v, bool):
                    try:
                        return {"sqrt": math.sqrt, "ceil": math.ceil, "floor": math.floor}[d.split(".")[1]](v)
                    except ValueError as ex:
                        raise Raised(f"ValueError: {ex}")
            if d == "round" and 1 <= len(e.args) <= 2 and not e.keywords:
                a = [self._ev(x, env) for x in e.args]
                if all(isinstance(x, (int, float)) and not isinstance(x, bool) for x in a):
                    return round(*a)
            if d == "float" and len(e.args) == 1 and not e.keywords:
                v = self._ev(e.args[0], env)
                if isinstance(v, (int, float, str)) and not isinstance(v, bool):
                    return float(v)
            if d in ("max", "min", "sum") and len(e.args) == 1 and not e.keywords:
                v = self._iterable(e.args[0], env)
                if v and all(isinstance(x, (int, float)) and not isinstance(x, bool) for x in v):
                    return {"max": max, "min": min, "sum": sum}[d](v)
                if d == "sum" and not v:
                    return 0
            if isinstance(e.func, ast.Attribute) and e.func.attr == "split" and len(e.args) <= 1 and not e.keywords:
                v = self._ev(e.func.value, env)
                a = [self._ev(x, env) for x in e.args]
                if isinstance(v, str) and all(isinstance(x, str) for x in a):
                    return v.split(*a)
            if isinstance(e.func, ast.Attribute) and e.func.attr in ("append", "remove", "extend", "pop", "insert", "sort", "reverse", "clear") and not e.keywords:
                v = self._ev(e.func.value, env)
                if isinstance(v, list):
                    a = [self._ev(x, env) for x in e.args]
                    try:
                        return getattr(v, e.func.attr)(*a)
                    except (ValueError, IndexError) as ex:
                        raise Raised(f"{type(ex).__name__}: {ex}")
            if d in ("list", "tuple", "reversed", "sorted") and len(e.args) == 1 and not e.keywords:
                v = self._ev(e.args[0], env)
                if isinstance(v, (list, tuple)):
                    v = list(v)
                    return {"list": v, "tuple": tuple(v), "reversed": v[::-1], "sorted": sorted(v)}[d]
            if d in ("max", "min") and len(e.args) >= 2 and not e.keywords:
                a = [self._ev(x, env) for x in e.args]
                if all(isinstance(x, (int, float)) and not isinstance(x, bool) for x in a):
                    return max(a) if d == "max" else min(a)
            if isinstance(e.func, ast.Attribute) and e.func.attr in ("toarray", "flatten", "tolist", "copy", "getA1") and not e.args and not e.keywords:
                v = self._ev(e.func.value, env)
                if isinstance(v, (list, tuple)):
                    return list(v)
            if d == "range" and 1 <= len(e.args) <= 3 and not e.keywords:
                a = [self._ev(x, env) for x in e.args]
                if all(isinstance(x, int) and not isinstance(x, bool) for x in a):
                    return list(range(*a))
            if d == "isinstance" and len(e.args) == 2:
                v = self._ev(e.args[0], env)
                names = [norm(x) for x in (e.args[1].elts if isinstance(e.args[1], ast.Tuple) else [e.args[1]])]
                tm = {"int": int, "float": float, "str": str, "bool": bool}
                if all(n in tm for n in names):
                    return isinstance(v, tuple(tm[n] for n in names)) and not (isinstance(v, bool) and "bool" not in names and "int" not in names)
            if isinstance(e.func, ast.Attribute) and e.func.attr in ("islower", "isupper", "upper", "lower", "isalpha", "isdigit") and not e.args:
                v = self._ev(e.func.value, env)
                if isinstance(v, str):
                    return getattr(v, e.func.attr)()
        raise AnalysisError(f"minieval: expression `{norm(e)[:60]}` outside the fragment")


def _cmp(a, b):
    return isinstance(a, (int, float)) and isinstance(b, (int, float)) or (isinstance(a, str) and isinstance(b, str))


class _Opaque:
    def __repr__(self):
        return "<opaque>"


_OPAQUE = _Opaque()
