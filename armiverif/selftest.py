"""E8 - self-test of the checker (thorough tier). Filled in per property; see selftest variants."""


def run(prop, root, chk):
    return 0
