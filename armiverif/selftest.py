"""E8 - self-test of the checker (thorough tier).

For one property it analyses, entirely in memory (overlay on /repo's current tree, nothing is
written to /repo), four families of variants:

1. reverted fixes   - each `fix:` commit recorded for the property, applied in reverse: the rule
                      that found the defect must fire again;
2. seeded changes   - /verif/seeded/<id>/patch.diff written by independent sub-agents: the rules
                      recorded in seeded/EXPECT.json must fire;
3. sentinel edits   - selftest/variants.json: small hand-written breaking edits (must fire, naming
                      the expected rule) and behaviour-preserving edits (must stay silent);
4. whole-file reformatting of every file the property's rules consulted (ast round trip: strips
   comments, re-wraps every expression) - must stay silent;
5. generic mutants  - statement deletion / operator / argument swaps inside the functions the
                      rules anchored on; the share that is detected is reported (informational:
                      many generic mutants do not violate the property).

A self-test failure means the CHECKER is broken (exit 2), never that armi is wrong.
"""
from __future__ import annotations

import ast
import contextlib
import copy
import io
import json
import os
import random
import time
from concurrent.futures import ProcessPoolExecutor

HERE = os.path.dirname(os.path.dirname(os.path.abspath(__file__)))


def _run(prop, root, overlay):
    from .main import run_property

    buf = io.StringIO()
    with contextlib.redirect_stdout(buf):
        code, chk = run_property(prop, root, overlay=overlay, write=False, quiet=True)
    hits = sorted({r.id for r in chk.rules for i in r.instances if i.status == "violation"})
    errs = [e for r in chk.rules for e in r.errors]
    return code, hits, errs


def _job(args):
    prop, root, kind, name, overlay, expect = args
    try:
        code, hits, errs = _run(prop, root, overlay)
    except Exception as e:  # pragma: no cover
        return kind, name, 2, [], [f"{type(e).__name__}: {e}"], expect
    return kind, name, code, hits, errs, expect


def _files_of(chk):
    return sorted({i.file for r in chk.rules for i in r.instances if i.file.endswith(".py")})


def _anchored_functions(chk):
    out = {}
    for r in chk.rules:
        for i in r.instances:
            if i.file.endswith(".py") and i.qual and i.qual != "<module>":
                out.setdefault(i.file, set()).add(i.qual)
    return out


class _Mutator(ast.NodeTransformer):
    """applies the k-th applicable mutation inside the selected functions"""

    def __init__(self, quals, k=None):
        self.quals, self.k, self.n = quals, k, 0
        self.stack = []
        self.done = None

    def _in(self):
        return ".".join(self.stack) in self.quals or (len(self.stack) >= 1 and self.stack[-1] in {q.split(".")[-1] for q in self.quals} and ".".join(self.stack[-2:]) in self.quals)

    def visit_ClassDef(self, n):
        self.stack.append(n.name)
        self.generic_visit(n)
        self.stack.pop()
        return n

    def visit_FunctionDef(self, n):
        self.stack.append(n.name)
        if self._in():
            n.body = self._body(n.body)
        self.generic_visit(n)
        self.stack.pop()
        return n

    def _hit(self, what, node):
        i = self.n
        self.n += 1
        if self.k is not None and i == self.k:
            self.done = (what, getattr(node, "lineno", 0))
            return True
        return False

    def _body(self, body):
        out = []
        for s in body:
            if isinstance(s, (ast.Expr, ast.Assign, ast.AugAssign)) and not (isinstance(s, ast.Expr) and isinstance(s.value, ast.Constant)) and len(body) > 1:
                if self._hit("delete-statement", s):
                    continue
            for f in ("body", "orelse", "finalbody"):
                if isinstance(getattr(s, f, None), list) and getattr(s, f) and isinstance(getattr(s, f)[0], ast.stmt):
                    setattr(s, f, self._body(getattr(s, f)) or [ast.Pass()])
            out.append(s)
        return out

    def visit_Compare(self, n):
        self.generic_visit(n)
        if self.stack and self._in() and len(n.ops) == 1:
            sw = {ast.Lt: ast.LtE, ast.LtE: ast.Lt, ast.Gt: ast.GtE, ast.GtE: ast.Gt, ast.Eq: ast.NotEq, ast.NotEq: ast.Eq, ast.Is: ast.IsNot, ast.IsNot: ast.Is, ast.In: ast.NotIn, ast.NotIn: ast.In}
            t = sw.get(type(n.ops[0]))
            if t is not None and self._hit("flip-comparison", n):
                n.ops = [t()]
        return n

    def visit_BinOp(self, n):
        self.generic_visit(n)
        if self.stack and self._in():
            sw = {ast.Add: ast.Sub, ast.Sub: ast.Add, ast.Mult: ast.Div, ast.Div: ast.Mult}
            t = sw.get(type(n.op))
            if t is not None and self._hit("swap-arithmetic", n):
                n.op = t()
        return n

    def visit_BoolOp(self, n):
        self.generic_visit(n)
        if self.stack and self._in() and self._hit("and<->or", n):
            n.op = ast.Or() if isinstance(n.op, ast.And) else ast.And()
        return n

    def visit_Call(self, n):
        self.generic_visit(n)
        if self.stack and self._in() and len(n.args) >= 2 and not any(isinstance(a, ast.Starred) for a in n.args) and ast.dump(n.args[0]) != ast.dump(n.args[1]):
            if self._hit("swap-first-two-arguments", n):
                n.args[0], n.args[1] = n.args[1], n.args[0]
        return n


def _count_mutants(src, quals):
    m = _Mutator(quals, None)
    m.visit(ast.parse(src))
    return m.n


def _mutant(src, quals, k):
    m = _Mutator(quals, k)
    tree = m.visit(ast.parse(src))
    ast.fix_missing_locations(tree)
    return ast.unparse(tree), m.done


def run(prop, root, base_chk, budget_mutants=None):
    from .overlay import overlay_from_patch

    t0 = time.time()
    jobs = []
    # 1 reverted fixes
    kf = json.load(open(os.path.join(HERE, "known_findings.json")))
    for fx in kf.get("fixed", []):
        if fx.get("property") == prop:
            pf = os.path.join(HERE, "findings", "reverts", fx["commit"] + ".patch")
            if os.path.exists(pf):
                try:
                    ov = overlay_from_patch(pf, reverse=True, root=root)
                except Exception as e:
                    jobs.append((prop, root, "revert", fx["commit"], None, {"skip": str(e)[:80]}))
                    continue
                jobs.append((prop, root, "revert", f"{fx['id']}@{fx['commit']}", ov, {"rules": [fx["rule"]]}))
    # 2 seeded changes
    ep = os.path.join(HERE, "seeded", "EXPECT.json")
    expect = json.load(open(ep)) if os.path.exists(ep) else {}
    for sid, ex in sorted(expect.items()):
        if prop in ex:
            pf = os.path.join(HERE, "seeded", sid, "patch.diff")
            try:
                ov = overlay_from_patch(pf, root=root)
            except Exception as e:
                jobs.append((prop, root, "seed", sid, None, {"skip": str(e)[:80]}))
                continue
            jobs.append((prop, root, "seed", sid, ov, {"rules": ex[prop]}))
    # 3 sentinel edits
    vp = os.path.join(HERE, "selftest", "variants.json")
    variants = json.load(open(vp)) if os.path.exists(vp) else []
    for v in variants:
        if v["property"] != prop:
            continue
        rel = v["file"]
        p = os.path.join(root, rel)
        if not os.path.exists(p):
            jobs.append((prop, root, "sentinel", v["name"], None, {"skip": "file missing"}))
            continue
        src = open(p).read()
        if src.count(v["old"]) != 1:
            jobs.append((prop, root, "sentinel", v["name"], None, {"skip": "anchor text not found exactly once (tree changed)"}))
            continue
        jobs.append((prop, root, "sentinel" if v.get("expect") else "preserving", v["name"], {rel: src.replace(v["old"], v["new"], 1)}, {"rules": [v["expect"]] if v.get("expect") else []}))
    # 4 reformat every consulted file
    files = _files_of(base_chk)
    ov = {}
    for rel in files:
        p = os.path.join(root, rel)
        if os.path.exists(p):
            try:
                ov[rel] = ast.unparse(ast.parse(open(p).read()))
            except SyntaxError:
                pass
    if ov:
        jobs.append((prop, root, "preserving", f"reformat {len(ov)} consulted files (ast round trip)", ov, {"rules": []}))
    # 4b behaviour-preserving rewrites of every consulted file (armiverif/preserve.py): must stay silent
    from . import preserve
    for tname, tf in preserve.ALL.items():
        ovt = {}
        for rel in files:
            p = os.path.join(root, rel)
            if os.path.exists(p):
                try:
                    out = tf(open(p).read())
                except Exception:
                    out = None
                if out:
                    ovt[rel] = out
        if ovt:
            jobs.append((prop, root, "preserving", f"{tname} in {len(ovt)} consulted files", ovt, {"rules": []}))
    # 5 generic mutants
    anchored = _anchored_functions(base_chk)
    rng = random.Random(int(os.environ.get("VERIF_SEED", "0") or 0))
    budget = budget_mutants if budget_mutants is not None else int(os.environ.get("ARMIVERIF_MUTANTS", "160"))
    cand = []
    for rel, quals in sorted(anchored.items()):
        p = os.path.join(root, rel)
        if not os.path.exists(p):
            continue
        src = open(p).read()
        try:
            n = _count_mutants(src, quals)
        except SyntaxError:
            continue
        cand += [(rel, k) for k in range(n)]
    rng.shuffle(cand)
    srcs = {}
    for rel, k in cand[:budget]:
        src = srcs.setdefault(rel, open(os.path.join(root, rel)).read())
        try:
            msrc, what = _mutant(src, anchored[rel], k)
            compile(msrc, rel, "exec")
        except Exception:
            continue
        jobs.append((prop, root, "mutant", f"{rel}:{what[1]}:{what[0]}", {rel: msrc}, {"rules": None}))
    results = []
    runnable = [j for j in jobs if j[4] is not None]
    with ProcessPoolExecutor(min(16, max(1, len(runnable)))) as ex:
        for res in ex.map(_job, runnable, chunksize=4):
            results.append(res)
    skipped = [(j[2], j[3], j[5]["skip"]) for j in jobs if j[4] is None]
    failures = []
    stats = {"revert": [0, 0], "seed": [0, 0], "sentinel": [0, 0], "preserving": [0, 0], "mutant": [0, 0]}
    survivors = []
    samples = []
    for kind, name, code, hits, errs, exp in results:
        stats[kind][1] += 1
        if kind in ("revert", "seed", "sentinel"):
            ok = code == 1 and (not exp["rules"] or bool(set(exp["rules"]) & set(hits)))
            stats[kind][0] += ok
            if not ok:
                failures.append(f"{kind} `{name}`: expected a violation of {exp['rules']}, got exit {code} rules {hits} {errs[:1]}")
        elif kind == "preserving":
            ok = code == 0
            stats[kind][0] += ok
            if not ok:
                failures.append(f"behaviour-preserving variant `{name}` made the check report exit {code}: rules {hits} {errs[:1]}")
        else:
            det = code == 1
            stats[kind][0] += det
            if not det:
                survivors.append(name + (" (analysis error)" if code == 2 else ""))
        if len(samples) < 12:
            samples.append({"kind": kind, "variant": name[:120], "exit": code, "rules_fired": hits[:4]})
    wall = time.time() - t0
    print(f"[{prop}] self-test: " + ", ".join(f"{k} {v[0]}/{v[1]}" for k, v in stats.items()) + f", skipped {len(skipped)}, {wall:.1f}s")
    for f in failures:
        print(f"ANALYSIS-ERROR property={prop} self-test: {f}")
    # merge into the evidence file written by the quick part
    evp = os.path.join(HERE, "evidence", f"{prop}.json")
    try:
        ev = json.load(open(evp))
        ev["tier"] = "thorough"
        cov = ev["coverage"]
        cov["selftest"] = {
            "reverted_fixes_detected": stats["revert"], "seeded_changes_detected": stats["seed"], "sentinel_edits_detected": stats["sentinel"],
            "behaviour_preserving_variants_silent": stats["preserving"], "generic_mutants_detected": stats["mutant"], "skipped": skipped[:10],
            "generic_mutant_survivors_sample": survivors[:25], "failures": failures, "samples": samples,
            "note": "generic mutants are NOT all property violations; their detection rate is informational. Reverted fixes, seeded changes and sentinel edits must all be detected; preserving variants must all be silent.",
        }
        cov["evaluations"] = cov.get("evaluations", 0) + len(results)
        ev["wall_s"] = round(ev.get("wall_s", 0) + wall, 3)
        json.dump(ev, open(evp, "w"), indent=1, default=str)
    except Exception as e:  # pragma: no cover
        print(f"ANALYSIS-ERROR property={prop} self-test could not update evidence: {e}")
        return 2
    return 2 if failures else 0
