"""Behaviour-preserving source transformations used by the self-test (E8) to look for rules that would raise an
alarm on a harmless edit. Each takes module source text and returns new text (or None when nothing applies).

T_pass      insert `pass` after the docstring of every function
T_const     swap the operands of  x + c / x * c / x == c / x != c  where c is a numeric constant (and the reverse)
T_ifnot     `if c: A else: B`  ->  `if not c: B else: A`   (plain if/else only, not elif chains)
T_rettmp    `return e`  ->  `_vp_ret = e; return _vp_ret`
T_kwargs    reverse the order of keyword arguments whose values are names / constants
T_rename    rename local variables of every function (assigned names and loop targets; not parameters, globals, nonlocals;
            not in functions using locals()/vars()/eval/exec; nested scopes reading the name are renamed consistently)
"""
from __future__ import annotations

import ast
import symtable


def _docstring_offset(body):
    return 1 if body and isinstance(body[0], ast.Expr) and isinstance(body[0].value, ast.Constant) and isinstance(body[0].value.value, str) else 0


class _Pass(ast.NodeTransformer):
    def visit_FunctionDef(self, n):
        self.generic_visit(n)
        k = _docstring_offset(n.body)
        n.body.insert(k, ast.Pass())
        return n
    visit_AsyncFunctionDef = visit_FunctionDef


class _Const(ast.NodeTransformer):
    def __init__(self):
        self.n = 0

    @staticmethod
    def _num(x):
        return isinstance(x, ast.Constant) and isinstance(x.value, (int, float)) and not isinstance(x.value, bool)

    def visit_BinOp(self, n):
        self.generic_visit(n)
        if isinstance(n.op, (ast.Add, ast.Mult)) and (self._num(n.left) != self._num(n.right)):
            n.left, n.right = n.right, n.left
            self.n += 1
        return n

    def visit_Compare(self, n):
        self.generic_visit(n)
        if len(n.ops) == 1 and isinstance(n.ops[0], (ast.Eq, ast.NotEq)) and (self._num(n.left) != self._num(n.comparators[0])):
            n.left, n.comparators[0] = n.comparators[0], n.left
            self.n += 1
        return n


class _IfNot(ast.NodeTransformer):
    def __init__(self):
        self.n = 0

    def visit_If(self, n):
        self.generic_visit(n)
        if n.orelse and not (len(n.orelse) == 1 and isinstance(n.orelse[0], ast.If)):
            t = n.test
            n.test = t.operand if isinstance(t, ast.UnaryOp) and isinstance(t.op, ast.Not) else ast.UnaryOp(op=ast.Not(), operand=t)
            n.body, n.orelse = n.orelse, n.body
            self.n += 1
        return n


class _RetTmp(ast.NodeTransformer):
    def __init__(self):
        self.n = 0

    def _block(self, body):
        out = []
        for s in body:
            if isinstance(s, ast.Return) and s.value is not None and not isinstance(s.value, (ast.Name, ast.Constant)):
                out.append(ast.Assign(targets=[ast.Name(id="_vp_ret", ctx=ast.Store())], value=s.value))
                out.append(ast.Return(value=ast.Name(id="_vp_ret", ctx=ast.Load())))
                self.n += 1
            else:
                out.append(s)
        return out

    def generic_visit(self, node):
        super().generic_visit(node)
        for f in ("body", "orelse", "finalbody"):
            b = getattr(node, f, None)
            if isinstance(b, list) and b and isinstance(b[0], ast.stmt):
                setattr(node, f, self._block(b))
        if isinstance(node, ast.Try):
            for h in node.handlers:
                h.body = self._block(h.body)
        return node


class _Kwargs(ast.NodeTransformer):
    def __init__(self):
        self.n = 0

    def visit_Call(self, n):
        self.generic_visit(n)
        if len(n.keywords) >= 2 and all(k.arg is not None and isinstance(k.value, (ast.Name, ast.Constant, ast.Attribute)) for k in n.keywords):
            n.keywords = list(reversed(n.keywords))
            self.n += 1
        return n


def _apply(src, tr):
    tree = ast.parse(src)
    t = tr()
    tree = t.visit(tree)
    ast.fix_missing_locations(tree)
    if getattr(t, "n", 1) == 0:
        return None
    return ast.unparse(tree)


def T_pass(src):
    return _apply(src, _Pass)


def T_const(src):
    return _apply(src, _Const)


def T_ifnot(src):
    return _apply(src, _IfNot)


def T_rettmp(src):
    return _apply(src, _RetTmp)


def T_kwargs(src):
    return _apply(src, _Kwargs)


def T_rename(src, suffix="_vp"):
    tree = ast.parse(src)
    try:
        top = symtable.symtable(src, "<m>", "exec")
    except SyntaxError:
        return None
    count = 0

    def tables(tab, out):
        for ch in tab.get_children():
            out.append(ch)
            tables(ch, out)
        return out
    by_line = {}
    for tb in tables(top, []):
        if tb.get_type() == "function":
            by_line.setdefault((tb.get_name(), tb.get_lineno()), tb)

    def rename_in(fn):
        nonlocal count
        tb = by_line.get((fn.name, fn.lineno))
        if tb is None:
            return
        # names used dynamically -> skip the whole function
        for n in ast.walk(fn):
            if isinstance(n, ast.Call) and isinstance(n.func, ast.Name) and n.func.id in ("locals", "vars", "eval", "exec", "globals"):
                return
        params = set(tb.get_parameters())
        cands = set()
        for s in tb.get_symbols():
            if s.is_local() and s.is_assigned() and not s.is_parameter() and not s.is_global() and not s.is_nonlocal() and not s.is_imported() and s.get_name() not in params:
                if not s.get_name().startswith("__"):
                    cands.add(s.get_name())
        # names bound by def/class statements inside stay (they are referenced by attribute elsewhere? no, but keep it simple)
        for n in ast.walk(fn):
            if n is not fn and isinstance(n, (ast.FunctionDef, ast.AsyncFunctionDef, ast.ClassDef)):
                cands.discard(n.name)
            elif isinstance(n, ast.ExceptHandler) and n.name:
                cands.discard(n.name)  # bound by the handler clause, not by a Name node
            elif isinstance(n, (ast.Import, ast.ImportFrom)):
                for al in n.names:
                    cands.discard((al.asname or al.name).split(".")[0])
        if not cands:
            return
        # nested scopes that REBIND the same name (own local) must not be touched: collect per nested function its own locals
        def walk(node, shadow):
            nonlocal count
            for ch in ast.iter_child_nodes(node):
                sh = shadow
                if isinstance(ch, (ast.FunctionDef, ast.AsyncFunctionDef, ast.Lambda)) and ch is not fn:
                    own = set()
                    a = ch.args
                    for x in a.posonlyargs + a.args + a.kwonlyargs + ([a.vararg] if a.vararg else []) + ([a.kwarg] if a.kwarg else []):
                        own.add(x.arg)
                    if not isinstance(ch, ast.Lambda):
                        nl = {nm for s_ in ast.walk(ch) if isinstance(s_, ast.Nonlocal) for nm in s_.names}
                        for s_ in ast.walk(ch):
                            if isinstance(s_, ast.Name) and isinstance(s_.ctx, ast.Store) and s_.id not in nl:
                                own.add(s_.id)
                    sh = shadow | own
                if isinstance(ch, (ast.ListComp, ast.SetComp, ast.DictComp, ast.GeneratorExp)):
                    pass  # comprehension targets are locals of the comprehension scope; symtable does not list them in fn -> not in cands
                if isinstance(ch, ast.Name) and ch.id in cands and ch.id not in sh:
                    ch.id = ch.id + suffix
                    count += 1
                walk(ch, sh)
        # comprehension iteration variables shadow too
        comp_targets = set()
        for n in ast.walk(fn):
            if isinstance(n, ast.comprehension):
                for t in ast.walk(n.target):
                    if isinstance(t, ast.Name):
                        comp_targets.add(t.id)
        cands -= comp_targets
        walk(fn, frozenset())

    for n in ast.walk(tree):
        if isinstance(n, (ast.FunctionDef, ast.AsyncFunctionDef)):
            rename_in(n)
    if not count:
        return None
    ast.fix_missing_locations(tree)
    out = ast.unparse(tree)
    try:
        compile(out, "<renamed>", "exec")
    except SyntaxError:
        return None
    return out


class _NoopLocal(ast.NodeTransformer):
    def visit_FunctionDef(self, n):
        self.generic_visit(n)
        k = _docstring_offset(n.body)
        n.body.insert(k, ast.Assign(targets=[ast.Name(id="_vp_unused", ctx=ast.Store())], value=ast.Constant(value=None)))
        return n
    visit_AsyncFunctionDef = visit_FunctionDef


class _Docstring(ast.NodeTransformer):
    def __init__(self):
        self.n = 0

    def visit_FunctionDef(self, n):
        self.generic_visit(n)
        if _docstring_offset(n.body) == 0:
            n.body.insert(0, ast.Expr(value=ast.Constant(value="Documented by the self-test.")))
            self.n += 1
        return n
    visit_AsyncFunctionDef = visit_FunctionDef


class _Mirror(ast.NodeTransformer):
    """a < b  ->  b > a   for simple (name / attribute / constant / subscript) operands"""

    def __init__(self):
        self.n = 0

    @staticmethod
    def _simple(x):
        return isinstance(x, (ast.Name, ast.Attribute, ast.Constant, ast.Subscript))

    def visit_Compare(self, n):
        self.generic_visit(n)
        m = {ast.Lt: ast.Gt, ast.Gt: ast.Lt, ast.LtE: ast.GtE, ast.GtE: ast.LtE}
        if len(n.ops) == 1 and type(n.ops[0]) in m and self._simple(n.left) and self._simple(n.comparators[0]):
            n.left, n.comparators[0] = n.comparators[0], n.left
            n.ops = [m[type(n.ops[0])]()]
            self.n += 1
        return n


def T_nooplocal(src):
    return _apply(src, _NoopLocal)


def T_docstring(src):
    return _apply(src, _Docstring)


def T_mirror(src):
    return _apply(src, _Mirror)


class _Log(ast.NodeTransformer):
    def __init__(self):
        self.n = 0

    def visit_FunctionDef(self, n):
        self.generic_visit(n)
        k = _docstring_offset(n.body)
        n.body.insert(k, ast.Expr(value=ast.Call(func=ast.Attribute(value=ast.Name(id="runLog", ctx=ast.Load()), attr="debug", ctx=ast.Load()), args=[ast.Constant(value="self-test")], keywords=[])))
        self.n += 1
        return n
    visit_AsyncFunctionDef = visit_FunctionDef


def T_log(src):
    """insert `runLog.debug(...)` at the start of every function of a module that imports runLog"""
    if "import runLog" not in src and "runLog," not in src and ", runLog" not in src:
        return None
    return _apply(src, _Log)


class _AugExpand(ast.NodeTransformer):
    """x += e  ->  x = x + e   for plain local names and numeric-looking right sides (never for attributes/subscripts: in-place
    operators on arrays are not the same thing as rebinding)"""
    def visit_AugAssign(self, node):
        self.generic_visit(node)
        if isinstance(node.target, ast.Name) and isinstance(node.op, (ast.Add, ast.Sub)) and isinstance(node.value, (ast.Constant,)) and isinstance(node.value.value, int):
            return ast.copy_location(ast.Assign(targets=[ast.Name(id=node.target.id, ctx=ast.Store())], value=ast.BinOp(left=ast.Name(id=node.target.id, ctx=ast.Load()), op=node.op, right=node.value)), node)
        return node


class _ElifNest(ast.NodeTransformer):
    """if a: A elif b: B else: C  ->  if a: A else: (if b: B else: C)  - the same tree in Python's AST, so this re-parses a differently LAID-OUT
    source: it guards rules against depending on line numbers within chains.  Implemented by inserting a `pass` before the nested if."""
    def visit_If(self, node):
        self.generic_visit(node)
        if len(node.orelse) == 1 and isinstance(node.orelse[0], ast.If):
            node.orelse = [ast.Pass(), node.orelse[0]]
        return node


class _TupleList(ast.NodeTransformer):
    """x in (a, b)  <->  x in [a, b]"""
    def visit_Compare(self, node):
        self.generic_visit(node)
        if len(node.ops) == 1 and isinstance(node.ops[0], (ast.In, ast.NotIn)):
            c = node.comparators[0]
            if isinstance(c, ast.Tuple) and c.elts:
                node.comparators = [ast.List(elts=c.elts, ctx=ast.Load())]
            elif isinstance(c, ast.List) and c.elts:
                node.comparators = [ast.Tuple(elts=c.elts, ctx=ast.Load())]
        return node


def T_augexpand(src):
    return _apply(src, _AugExpand)


def T_elifnest(src):
    return _apply(src, _ElifNest)


def T_tuplelist(src):
    return _apply(src, _TupleList)


class _TernarySplit(ast.NodeTransformer):
    """x = a if c else b   ->   if c: x = a  else: x = b      (single plain-name target)"""
    n = 0

    def visit_Assign(self, node):
        if len(node.targets) == 1 and isinstance(node.targets[0], ast.Name) and isinstance(node.value, ast.IfExp):
            self.n += 1
            t = node.targets[0].id
            mk = lambda v: ast.Assign(targets=[ast.Name(id=t, ctx=ast.Store())], value=v)
            return ast.copy_location(ast.If(test=node.value.test, body=[mk(node.value.body)], orelse=[mk(node.value.orelse)]), node)
        return node


class _ElseAfterExit(ast.NodeTransformer):
    """if c: ...; return/raise/continue/break      ->   if c: ... exit
       rest                                             else: rest
    (an `if` without else whose body always leaves the block swallows the statements that follow it into its else)"""
    n = 0

    def _fix(self, body):
        out = []
        for i, st in enumerate(body):
            if isinstance(st, ast.If) and not st.orelse and st.body and isinstance(st.body[-1], (ast.Return, ast.Raise, ast.Continue, ast.Break)) and i + 1 < len(body) \
                    and not any(isinstance(x, (ast.FunctionDef, ast.ClassDef)) for x in body[i + 1:]):
                st.orelse = self._fix(body[i + 1:])
                self.n += 1
                out.append(st)
                return out
            out.append(st)
        return out

    def generic_visit(self, node):
        super().generic_visit(node)
        for f in ("body", "orelse", "finalbody"):
            b = getattr(node, f, None)
            if isinstance(b, list) and b and isinstance(b[0], ast.stmt) and isinstance(node, (ast.FunctionDef, ast.For, ast.While, ast.With, ast.If)):
                if f == "body" or not (isinstance(node, ast.If) and f == "orelse" and len(b) == 1 and isinstance(b[0], ast.If)):
                    setattr(node, f, self._fix(b))
        return node


class _ArgTemp(ast.NodeTransformer):
    """x = f(g(y))  ->  _vp_arg = g(y); x = f(_vp_arg)    (statement-level assignment, the inner call is the only argument)"""
    n = 0

    def _block(self, body):
        out = []
        for st in body:
            if isinstance(st, ast.Assign) and isinstance(st.value, ast.Call) and len(st.value.args) == 1 and not st.value.keywords and isinstance(st.value.args[0], ast.Call) \
                    and isinstance(st.value.func, (ast.Name, ast.Attribute)) and not any(isinstance(x, (ast.Lambda, ast.GeneratorExp, ast.ListComp, ast.Yield, ast.Await)) for x in ast.walk(st.value)):
                self.n += 1
                tmp = f"_vp_arg{self.n}"
                out.append(ast.copy_location(ast.Assign(targets=[ast.Name(id=tmp, ctx=ast.Store())], value=st.value.args[0]), st))
                st.value.args = [ast.Name(id=tmp, ctx=ast.Load())]
            out.append(st)
        return out

    def generic_visit(self, node):
        super().generic_visit(node)
        if isinstance(node, ast.FunctionDef):
            node.body = self._block(node.body)
        return node


def T_ternary(src):
    return _apply(src, _TernarySplit)


def T_elseafterexit(src):
    return _apply(src, _ElseAfterExit)


def T_argtemp(src):
    return _apply(src, _ArgTemp)


class _SwapIndependent(ast.NodeTransformer):
    """a = e1; b = e2  ->  b = e2; a = e1   for adjacent assignments to two different plain names whose right-hand sides are call-free
    expressions that mention neither target (nothing can observe the order)"""
    n = 0

    @staticmethod
    def _simple(st):
        return (isinstance(st, ast.Assign) and len(st.targets) == 1 and isinstance(st.targets[0], ast.Name)
                and not any(isinstance(x, (ast.Call, ast.Await, ast.Yield, ast.YieldFrom, ast.NamedExpr, ast.Lambda, ast.Subscript)) for x in ast.walk(st.value)))

    def _block(self, body):
        out, i = [], 0
        while i < len(body):
            a = body[i]
            b = body[i + 1] if i + 1 < len(body) else None
            if b is not None and self._simple(a) and self._simple(b):
                ta, tb = a.targets[0].id, b.targets[0].id
                names_a = {x.id for x in ast.walk(a.value) if isinstance(x, ast.Name)}
                names_b = {x.id for x in ast.walk(b.value) if isinstance(x, ast.Name)}
                if ta != tb and ta not in names_b and tb not in names_a:
                    out.extend([b, a])
                    self.n += 1
                    i += 2
                    continue
            out.append(a)
            i += 1
        return out

    def generic_visit(self, node):
        super().generic_visit(node)
        for f in ("body", "orelse", "finalbody"):
            blk = getattr(node, f, None)
            if isinstance(blk, list) and blk and isinstance(blk[0], ast.stmt) and not isinstance(node, (ast.Module, ast.ClassDef)):
                setattr(node, f, self._block(blk))
        return node


def T_swapindependent(src):
    return _apply(src, _SwapIndependent)


class _CondTemp(ast.NodeTransformer):
    """if <compound test>: ...   ->   _vp_c = <compound test>; if _vp_c: ...     (statement-level `if` whose test is a comparison or a
    boolean operation; elif branches are left alone: their tests must stay lazy)"""
    n = 0

    def _block(self, body):
        out = []
        for st in body:
            if isinstance(st, ast.If) and isinstance(st.test, (ast.Compare, ast.BoolOp)) and not any(isinstance(x, (ast.NamedExpr, ast.Yield, ast.Await)) for x in ast.walk(st.test)):
                self.n += 1
                tmp = f"_vp_c{self.n}"
                out.append(ast.copy_location(ast.Assign(targets=[ast.Name(id=tmp, ctx=ast.Store())], value=st.test), st))
                st.test = ast.Name(id=tmp, ctx=ast.Load())
            out.append(st)
        return out

    def generic_visit(self, node):
        super().generic_visit(node)
        for f in ("body", "orelse", "finalbody"):
            blk = getattr(node, f, None)
            if isinstance(blk, list) and blk and isinstance(blk[0], ast.stmt) and not isinstance(node, (ast.Module, ast.ClassDef)):
                if isinstance(node, ast.If) and f == "orelse" and len(blk) == 1 and isinstance(blk[0], ast.If):
                    continue
                setattr(node, f, self._block(blk))
        return node


def T_condtemp(src):
    return _apply(src, _CondTemp)



class _GuardContinue(ast.NodeTransformer):
    """for x in xs:                      for x in xs:
           ...                 ->            ...
           if c: body                        if not c: continue
                                             body
    (the trailing `if` without else of a loop body written as a guard; the early-`continue` style many code bases prefer)"""
    n = 0

    def _loop(self, node):
        self.generic_visit(node)
        b = node.body
        if b and isinstance(b[-1], ast.If) and not b[-1].orelse and len(b[-1].body) >= 1 and not isinstance(b[-1].test, ast.NamedExpr) \
                and not any(isinstance(x, (ast.FunctionDef, ast.ClassDef)) for x in b[-1].body):
            last = b[-1]
            guard = ast.copy_location(ast.If(test=ast.UnaryOp(op=ast.Not(), operand=last.test), body=[ast.copy_location(ast.Continue(), last)], orelse=[]), last)
            node.body = b[:-1] + [guard] + last.body
            self.n += 1
        return node

    visit_For = _loop
    visit_While = _loop


def T_guardcontinue(src):
    return _apply(src, _GuardContinue)



class _EmptyLiteral(ast.NodeTransformer):
    """dict() -> {}, list() -> [], tuple() -> ()   (ruff/flake8-comprehensions C408, the direction a linter rewrites)"""
    n = 0

    def visit_Call(self, n):
        self.generic_visit(n)
        if isinstance(n.func, ast.Name) and not n.args and not n.keywords and n.func.id in ("dict", "list", "tuple"):
            self.n += 1
            return ast.copy_location({"dict": ast.Dict(keys=[], values=[]), "list": ast.List(elts=[], ctx=ast.Load()), "tuple": ast.Tuple(elts=[], ctx=ast.Load())}[n.func.id], n)
        return n


def T_emptyliteral(src):
    return _apply(src, _EmptyLiteral)



class _GuardReturn(ast.NodeTransformer):
    """def f(..):                        def f(..):
           ...                 ->            ...
           if c: body                        if not c: return
                                             body
    (the trailing `if` without else of a function body written as a guard clause; falling off the end and `return` are the same)"""
    n = 0

    def visit_FunctionDef(self, node):
        self.generic_visit(node)
        b = node.body
        is_gen = any(isinstance(x, (ast.Yield, ast.YieldFrom)) for x in ast.walk(node))
        if not is_gen and len(b) >= 2 and isinstance(b[-1], ast.If) and not b[-1].orelse and not isinstance(b[-1].test, ast.NamedExpr) \
                and not any(isinstance(x, (ast.FunctionDef, ast.ClassDef)) for x in b[-1].body):
            last = b[-1]
            guard = ast.copy_location(ast.If(test=ast.UnaryOp(op=ast.Not(), operand=last.test), body=[ast.copy_location(ast.Return(value=None), last)], orelse=[]), last)
            node.body = b[:-1] + [guard] + last.body
            self.n += 1
        return node


def T_guardreturn(src):
    return _apply(src, _GuardReturn)


ALL = {"log-lines": T_log, "unused-local": T_nooplocal, "add-docstrings": T_docstring, "mirror-comparisons": T_mirror, "pass": T_pass, "const-swap": T_const, "if-not": T_ifnot, "return-temp": T_rettmp, "kwargs-order": T_kwargs, "rename-locals": T_rename, "augassign-expanded": T_augexpand, "elif-as-nested-if": T_elifnest, "in-tuple-vs-list": T_tuplelist, "ternary-as-if": T_ternary, "else-after-exit": T_elseafterexit, "argument-temp": T_argtemp, "swap-independent-assignments": T_swapindependent, "condition-temp": T_condtemp, "guard-continue": T_guardcontinue, "empty-literal": T_emptyliteral, "guard-return": T_guardreturn}
