"""C14 - fuel shuffling keeps the core's lookups truthful: ownership of the three lookup tables,
add/remove touching every table on every path, the swap idiom, stationary-block pairing, discharge
order.  Structural necessary conditions only (DESIGN.md section 3, C14)."""
from __future__ import annotations

import ast

from ..astutil import call_attr, iter_calls, iter_stores, propagate, single_assign_env, walk_local
from ..flow import Flow, always_exits, path_conditions
from ..index import AnalysisError, AnchorMissing, dotted, norm
from ..own import check_writers

CORE = "armi.reactor.cores.Core"
FH = "armi.physics.fuelCycle.fuelHandlers.FuelHandler"

TABLE_WRITERS = {
    "childrenByLocator": {
        "Composite.__init__": "empty table", "Composite._genChildByLocationLookupTable": "rebuild from children",
        "Core.add": "registers the added assembly", "Core.removeAssembly": "pops the removed assembly", "Assembly.moveTo": "re-keys the moved assembly",
        "UniformMeshGeometryConverter.convert": "clean-up of the temporary converted reactor",
    },
    "assembliesByName": {
        "Core.__init__": "empty table", "Core.add": "registers", "Core._removeListFromAuxiliaries": "purges", "Core.normalizeInternalBookeeping": "rebuild",
        "Core._getAssembliesByName": "rebuild", "UniformMeshGeometryConverter.convert": "clean-up of the temporary converted reactor",
    },
    "blocksByName": {
        "Core.__init__": "empty table", "Core.add": "registers", "Core._removeListFromAuxiliaries": "purges", "Core.normalizeInternalBookeeping": "rebuild",
        "Core._genBlocksByName": "rebuild", "UniformMeshGeometryConverter.convert": "clean-up of the temporary converted reactor",
    },
}


def r1_tables(idx, r):
    for attr, allowed in TABLE_WRITERS.items():
        check_writers(r, idx, attr, allowed)


def _call(n, name):
    return isinstance(n, ast.Call) and dotted(n.func) == name


def r2_add_remove(idx, r):
    add = idx.method(CORE, "add")
    a = add.params()[1]

    def ev(n):
        out = []
        if _call(n, "composites.Composite.add") or _call(n, "Composite.add") or (_call(n, "super().add")):
            if any(norm(x) == a for x in n.args):
                out.append("base")
        if isinstance(n, ast.Assign) and isinstance(n.targets[0], ast.Subscript) and norm(n.value) == a:
            tb = norm(n.targets[0].value)
            if tb == "self.childrenByLocator":
                out.append("loc")
            if tb == "self.assembliesByName":
                out.append("name")
        if isinstance(n, ast.For) and norm(n.iter) == a and any(isinstance(s, ast.Assign) and norm(s.targets[0]).startswith("self.blocksByName[") and norm(s.value) == norm(n.target) for s in n.body) \
                and not any(isinstance(x, (ast.If, ast.Break, ast.Continue)) for x in walk_local(n)):
            out.append("blocks")
        return out
    fl = Flow(add.node, ev).run()
    exits = fl.normal_exits()
    for fact, what in (("base", "Composite.add(self, a)"), ("loc", "childrenByLocator[...] = a"), ("name", "assembliesByName[name] = a"), ("blocks", "blocksByName[...] = b for every block")):
        bad = [e.line for e in exits if e.state.get(fact, (0, 0)) != (1, 1)]
        r.require(bool(exits) and not bad, f"Core.add:{fact}", add, msg=f"a normal path through Core.add lacks (or repeats) `{what}`")
    # the key under which the assembly is stored is the locator it was moved to
    loc_store = next((s for s in iter_stores(add.node) if s.kind == "subscript" and s.chain == "self.childrenByLocator"), None)
    mv = next((c for c in iter_calls(add.node) if norm(c.func) == f"{a}.moveTo"), None)
    r.require(loc_store is not None and mv is not None and norm(loc_store.node.slice) == norm(mv.args[0]) and mv.lineno < loc_store.stmt.lineno, "Core.add:key-is-new-locator", add,
              msg="the table key must be the locator the assembly was moved to")
    bkey = [s for s in iter_stores(add.node) if s.kind == "subscript" and s.chain == "self.blocksByName"]
    r.require(bool(bkey) and all(norm(s.node.slice) == f"{norm(s.value)}.getName()" for s in bkey), "Core.add:block-key", add, msg="blocks are registered under their current name")
    nkey = [s for s in iter_stores(add.node) if s.kind == "subscript" and s.chain == "self.assembliesByName"]
    env = single_assign_env(add.node)
    r.require(bool(nkey) and all(norm(propagate(s.node.slice, env)) == f"{a}.getName()" for s in nkey), "Core.add:assembly-key", add, msg="the assembly is registered under its current name")

    rm = idx.method(CORE, "removeAssembly")
    a1 = rm.params()[1]

    def ev2(n):
        out = []
        if _call(n, "self.childrenByLocator.pop") and norm(n.args[0]) == f"{a1}.spatialLocator":
            out.append("pop")
        if _call(n, "self.remove") and norm(n.args[0]) == a1:
            out.append("remove")
        if isinstance(n, ast.Call) and call_attr(n) == "add" and "sfp" in norm(n.func) and norm(n.args[0]) == a1:
            out.append("disposed")
        if _call(n, "self._removeListFromAuxiliaries") and norm(n.args[0]) == a1:
            out.append("disposed")
        return out
    fl = Flow(rm.node, ev2).run()
    exits = fl.normal_exits()
    for fact, what in (("pop", "childrenByLocator.pop(a.spatialLocator)"), ("remove", "self.remove(a)"),
                       ("disposed", "either handing the assembly to the spent fuel pool or purging it from assembliesByName/blocksByName")):
        bad = [(e.line, e.state.get(fact, (0, 0))) for e in exits if e.state.get(fact, (0, 0)) != (1, 1)]
        r.require(bool(exits) and not bad, f"Core.removeAssembly:{fact}", rm, msg=f"a normal path through removeAssembly does not perform exactly once: {what} (min,max)={bad}")
    rem = next((c for c in iter_calls(rm.node) if _call(c, "self.remove")), None)
    st = fl.state_before(rem) if rem is not None else None
    r.require(st is not None and st.get("pop", (0, 0))[0] >= 1, "Core.removeAssembly:pop-before-remove", rm, node=rem, msg="the locator key must be popped before remove() replaces the assembly's locator with a detached copy")
    # the assembly leaves the core (parent cleared, locator detached) BEFORE it is handed to the pool: the other way round,
    # remove() clears the parent link and detaches the locator that the pool has just set
    for dnode in [n for n in ast.walk(rm.node) if "disposed" in ev2(n) and isinstance(n, ast.Call) and call_attr(n) == "add"]:
        stb = fl.state_before(dnode) or {}
        r.require(stb.get("remove", (0, 0))[0] >= 1, "Core.removeAssembly:remove-before-pooling", rm, node=dnode,
                  msg="the assembly is added to the spent fuel pool while it is still a child of the core; the later self.remove() then clears its parent and detaches the location "
                      "the pool gave it: the pool lists a child whose parent is None")
    aux = idx.method(CORE, "_removeListFromAuxiliaries")
    p = aux.params()[1]
    dels = [norm(s.node) for s in iter_stores(aux.node) if s.kind == "subscript-del"]
    loop = next((n for n in aux.node.body if isinstance(n, ast.For)), None)
    ok = f"self.assembliesByName[{p}.getName()]" in dels and loop is not None and norm(loop.iter) == p and f"self.blocksByName[{norm(loop.target)}.getName()]" in dels
    r.require(ok, "Core._removeListFromAuxiliaries", aux, msg=f"must delete the assembly's name and every block's name: {dels}")
    # rebuilders cover what they claim
    nb = idx.method(CORE, "normalizeInternalBookeeping")
    loops = [n for n in walk_local(nb.node) if isinstance(n, ast.For)]
    r.require(len(loops) == 2 and norm(loops[0].iter) == "self" and norm(loops[1].iter) == norm(loops[0].target), "Core.normalizeInternalBookeeping", nb, msg="must rebuild both name tables from every assembly and block of the core")
    gl = idx.method("armi.reactor.composites.Composite", "_genChildByLocationLookupTable")
    loop = next((n for n in gl.node.body if isinstance(n, ast.For)), None)
    r.require(loop is not None and norm(loop.iter) == "self" and norm(loop.body[0]) == f"self.childrenByLocator[{norm(loop.target)}.spatialLocator] = {norm(loop.target)}", "Composite._genChildByLocationLookupTable", gl,
              msg="must map every child's locator to that child")
    rg = idx.method(CORE, "regenAssemblyLists")
    calls = {dotted(c.func) for c in iter_calls(rg.node)}
    r.require({"self._getAssembliesByName", "self._genBlocksByName", "self._genChildByLocationLookupTable"} <= calls, "Core.regenAssemblyLists", rg, msg="must regenerate all three tables")


def r3_swap(idx, r):
    f = idx.method(FH, "swapAssemblies")
    a1, a2 = f.params()[1:3]

    def ev(n):
        out = []
        if isinstance(n, ast.Assign) and norm(n.value) == f"{a1}.spatialLocator" and isinstance(n.targets[0], ast.Name):
            out.append("saved")
        if _call(n, "self._transferStationaryBlocks"):
            out.append("transfer")
        if isinstance(n, ast.Call) and call_attr(n) == "moveTo":
            out.append("move")
        return out
    fl = Flow(f.node, ev).run()
    moves = [c for c in iter_calls(f.node) if call_attr(c) == "moveTo"]
    saved = next((s.attr for s in iter_stores(f.node) if isinstance(s.node, ast.Name) and s.value is not None and norm(s.value) == f"{a1}.spatialLocator"), None)
    if len(moves) != 2 or saved is None:
        r.violate("swapAssemblies:shape", f, "expected a saved first locator and two moveTo calls")
    else:
        m1, m2 = sorted(moves, key=lambda c: (c.lineno, c.col_offset))
        ok = norm(m1) == f"{a1}.moveTo({a2}.spatialLocator)" and norm(m2) == f"{a2}.moveTo({saved})"
        r.require(ok, "swapAssemblies:moves", f, node=m2, msg=f"swap must be a1.moveTo(a2.spatialLocator) then a2.moveTo(<saved a1 locator>): `{norm(m1)}`; `{norm(m2)}`")
        s1 = fl.state_before(m1) or {}
        r.require(s1.get("saved", (0, 0))[0] >= 1 and s1.get("transfer", (0, 0)) == (1, 1), "swapAssemblies:order", f, node=m1,
                  msg="the first locator must be saved, and stationary blocks transferred, before the first move")
        same = False
        for k_, e in enumerate(fl.normal_exits()):
            if e.node is not None and e.kind == "return":
                conds = [norm(t) for t, p in path_conditions(f.node, e.node) if p]
                ident = any(c in (f"{a1} is {a2}", f"{a2} is {a1}") for c in conds)
                same = same or (ident and e.state.get("transfer", (0, 0)) == (0, 0))
                r.require(e.state.get("move", (0, 0)) == (0, 0) and e.state.get("transfer", (0, 0)) == (0, 0) and (any("is None" in c for c in conds) or ident), f"swapAssemblies:early-return#{k_}", f, node=e.node,
                          msg="an early return must happen before anything moved or was transferred, and only for missing assemblies or a swap of an assembly with itself")
            else:
                r.require(e.state.get("move", (0, 0)) == (2, 2), "swapAssemblies:both-move", f, msg=f"both assemblies must move on the normal path: {e.state.get('move')}")
    if len(moves) == 2 and saved is not None:
        r.require(same, "swapAssemblies:self-swap-skipped-before-the-transfer", f,
                  msg="swapAssemblies(a, a) (a cascade that lists an assembly twice only warns) reaches _transferStationaryBlocks: the stationary block is removed from the assembly and the insert of "
                      "'the other one' fails, leaving the assembly one block short and the cascade half done")
    tr = next((c for c in iter_calls(f.node) if _call(c, "self._transferStationaryBlocks")), None)
    r.require(tr is not None and [norm(x) for x in tr.args] == [a1, a2], "swapAssemblies:transfer-args", f, node=tr, msg="stationary blocks are exchanged between the two swapped assemblies")
    am = idx.method("armi.reactor.assemblies.Assembly", "moveTo")

    def ev2(n):
        out = []
        if (_call(n, "composites.Composite.moveTo") or _call(n, "super().moveTo")) and norm(n.args[-1]) == "locator":
            out.append("base")
        if isinstance(n, ast.Assign) and norm(n) == "self.parent.childrenByLocator[locator] = self":
            out.append("rekey")
        return out
    fl2 = Flow(am.node, ev2).run()
    for e in fl2.normal_exits():
        r.require(e.state.get("base", (0, 0)) == (1, 1) and e.state.get("rekey", (0, 0)) == (1, 1), f"Assembly.moveTo@{e.kind}", am, msg=f"moveTo must call Composite.moveTo and store itself under the new locator in the parent's table: {e.state}")
    # ... and give up the key of the place it left: the previous locator is remembered BEFORE the base call replaces it, and removed from the
    # parent's table when (and only when) it still maps to this assembly (in a swap the other assembly already took it over)
    base = next((c for c in iter_calls(am.node) if _call(c, "composites.Composite.moveTo") or _call(c, "super().moveTo")), None)
    olds = [s_ for s_ in iter_stores(am.node) if isinstance(s_.node, ast.Name) and s_.value is not None and norm(s_.value) == "self.spatialLocator" and base is not None and s_.stmt.lineno < base.lineno]
    gone = []
    for o in olds:
        for n in walk_local(am.node):
            if isinstance(n, ast.Delete) and any(norm(t) == f"self.parent.childrenByLocator[{o.attr}]" for t in n.targets):
                gone.append((o, n))
            if isinstance(n, ast.Call) and norm(n.func) == "self.parent.childrenByLocator.pop" and n.args and norm(n.args[0]) == o.attr:
                gone.append((o, n))
    r.require(bool(gone), "Assembly.moveTo:vacated-location-unregistered", am,
              msg="moveTo stores the assembly under its new locator but never removes the entry of the location it left: after a move to an EMPTY location the old location still "
                  "answers with the moved assembly and a later add there is refused as 'already filled'")
    for o, n in gone[:1]:
        conds = [norm(t) for t, p in path_conditions(am.node, n) if p]
        r.require(any(" is self" in c and o.attr in c for c in conds) or isinstance(n, ast.Call), "Assembly.moveTo:removes-only-its-own-entry", am, node=n,
                  msg=f"the vacated key is removed under {conds}: it must be removed only while it still maps to this assembly (during a swap the partner already owns it)")
    cm = idx.method("armi.reactor.composites.Composite", "moveTo")
    st = next((s for s in iter_stores(cm.node) if s.chain == "self.spatialLocator"), None)
    guard = next((n for n in cm.node.body if isinstance(n, ast.If) and always_exits(n.body) and any(isinstance(x, ast.Raise) for x in n.body)), None)
    okg = st is not None and guard is not None and guard.lineno < st.stmt.lineno and norm(guard.test) == "locator.grid.armiObject is not self.parent" and norm(st.value) == "locator"
    r.require(okg, "Composite.moveTo:foreign-grid-refused", cm, msg="moveTo must refuse a locator of a grid that does not belong to the parent, before storing it")
    sc = idx.method(FH, "swapCascade")
    call = next((c for c in iter_calls(sc.node) if _call(c, "self.swapAssemblies")), None)
    loop = next((n for n in sc.node.body if isinstance(n, ast.For) and call is not None and any(x is call for x in ast.walk(n))), None)
    env = single_assign_env(sc.node)
    ok = call is not None and loop is not None and norm(propagate(loop.iter, env)) == "range(len(assemList) - 1)" and [norm(x) for x in call.args] == ["assemList[0]", f"assemList[{norm(loop.target)} + 1]"]
    r.require(ok, "swapCascade", sc, node=call, msg="a cascade is swapAssemblies(assemList[0], assemList[k]) for k = 1..n-1 in order")


def r4_stationary(idx, r):
    f = idx.method(FH, "_transferStationaryBlocks")
    p1, p2 = f.params()[1:3]
    lists = {}
    for s in iter_stores(f.node):
        if isinstance(s.node, ast.Name) and isinstance(s.value, ast.ListComp) and isinstance(s.value.elt, ast.List) and len(s.value.elt.elts) == 2:
            lists[s.attr] = norm(s.value.generators[0].iter)
    loop = next((n for n in f.node.body if isinstance(n, ast.For) and isinstance(n.iter, ast.Call) and dotted(n.iter.func) == "zip"), None)
    if loop is None or len(lists) != 2:
        raise AnalysisError("_transferStationaryBlocks: pair loop / block lists not found")
    srcs = [lists.get(norm(x)) for x in loop.iter.args]
    own = {}  # variable -> (assembly it came from, 'block'|'index')
    for tgt, src in zip(loop.target.elts, srcs):
        own[norm(tgt.elts[0])] = (src, "block")
        own[norm(tgt.elts[1])] = (src, "index")
    rem = [c for c in iter_calls(loop) if call_attr(c) == "remove"]
    ins = [c for c in iter_calls(loop) if call_attr(c) == "insert"]
    ok = len(rem) == 2 and len(ins) == 2
    for c in rem:
        ok = ok and own.get(norm(c.args[0])) == (norm(c.func.value), "block")
    r.require(ok, "removes-own-block", f, node=loop, msg="each stationary block must be removed from the assembly it sits in")
    ok2 = len(ins) == 2
    for c in ins:
        recv = norm(c.func.value)
        other = p2 if recv == p1 else p1
        ok2 = ok2 and own.get(norm(c.args[0])) == (recv, "index") and own.get(norm(c.args[1])) == (other, "block")
    r.require(ok2, "inserts-other-block-at-own-index", f, node=ins[0] if ins else loop, msg="each assembly must receive the OTHER assembly's block at its own recorded index")
    if rem and ins:
        r.require(max(c.lineno for c in rem) < min(c.lineno for c in ins), "remove-before-insert", f, node=loop, msg="both blocks are removed before either is inserted")
    fb = Flow(f.node, lambda n: [call_attr(n)] if isinstance(n, ast.Call) and call_attr(n) in ("remove", "insert") else [], body=loop.body).run()
    ends = fb.iteration_ends()
    r.require(bool(ends) and all(s.get("remove") == (2, 2) and s.get("insert") == (2, 2) for s in ends), "pairing-unconditional", f, node=loop, msg="each pair performs exactly two removals and two insertions")
    guard = next((n for n in f.node.body if isinstance(n, ast.If) and always_exits(n.body) and isinstance(n.test, ast.Compare) and isinstance(n.test.ops[0], ast.NotEq)), None)
    okg = guard is not None and guard.lineno < loop.lineno and "[1]" in norm(guard.test)
    r.require(okg, "index-lists-compared-first", f, node=guard, msg="unequal stationary-block positions must be refused before anything is removed")
    r.require(srcs == [p1, p2], "lists-from-both-assemblies", f, node=loop.iter, msg=f"the paired lists must come from the two assemblies: {srcs}")
    # 'with or without blocks designated to stay in place': with an EMPTY list of stationary flags no block is stationary.
    # The selecting filter is evaluated for the empty list: any(... for x in []) is False; X.hasFlags([]) is whatever
    # ArmiObject.hasFlags returns for a falsy spec (read off its first test).
    hf = idx.method("armi.reactor.composites.ArmiObject", "hasFlags")
    empty_val = None
    if hf is not None:
        first = next((n for n in hf.node.body if isinstance(n, ast.If)), None)
        spec = hf.params()[1]
        if first is not None and norm(first.test) == f"not {spec}" and first.body and isinstance(first.body[0], ast.Return):
            rv = norm(first.body[0].value)
            dflt = hf.node.args.defaults[-1].value if hf.node.args.defaults and isinstance(hf.node.args.defaults[-1], ast.Constant) else None
            if rv == "not exact" and dflt is False:
                empty_val = True
            elif rv in ("True", "False"):
                empty_val = rv == "True"
    flag_lists = {s_.attr for s_ in iter_stores(f.node) if isinstance(s_.node, ast.Name) and s_.value is not None and "stationaryBlockFlags" in norm(s_.value)}
    for s_ in iter_stores(f.node):
        if not (isinstance(s_.node, ast.Name) and s_.attr in lists and isinstance(s_.value, ast.ListComp)):
            continue
        for cond in s_.value.generators[0].ifs:
            val = None
            if isinstance(cond, ast.Call) and dotted(cond.func) == "any" and cond.args and isinstance(cond.args[0], ast.GeneratorExp) and norm(cond.args[0].generators[0].iter) in flag_lists:
                val = False
            elif isinstance(cond, ast.Call) and call_attr(cond) == "hasFlags" and cond.args and norm(cond.args[0]) in flag_lists and len(cond.args) + len(cond.keywords) == 1:
                val = empty_val
            if val is None:
                r.undecided(f"empty-flag-list:{s_.attr}", f, f"filter `{norm(cond)[:60]}` not evaluated for an empty flag list", node=cond)
            else:
                r.require(val is False, f"empty-flag-list:{s_.attr}", f, node=cond,
                          msg=f"with no stationary flags configured `{norm(cond)[:60]}` is true for EVERY block (hasFlags of an empty spec matches everything): "
                              "a swap then exchanges all blocks and only the empty assembly shells move")


def r5_discharge(idx, r):
    f = idx.method(FH, "dischargeSwap")
    inc, out = f.params()[1:3]

    def ev(n):
        o = []
        if isinstance(n, ast.Assign) and norm(n.value) == f"{out}.spatialLocator":
            o.append("loc")
        if isinstance(n, ast.Call) and call_attr(n) == "removeAssembly" and norm(n.args[0]) == out:
            o.append("removed")
        if isinstance(n, ast.Call) and call_attr(n) == "add" and "core" in norm(n.func) and norm(n.args[0]) == inc:
            o.append("added")
        if _call(n, "self._transferStationaryBlocks"):
            o.append("transfer")
        return o
    fl = Flow(f.node, ev).run()
    rm = next((c for c in iter_calls(f.node) if call_attr(c) == "removeAssembly"), None)
    ad = next((c for c in iter_calls(f.node) if call_attr(c) == "add" and "core" in norm(c.func)), None)
    if rm is None or ad is None:
        raise AnalysisError("dischargeSwap: removeAssembly / core.add not found")
    s1 = fl.state_before(rm) or {}
    r.require(s1.get("loc", (0, 0))[0] >= 1 and s1.get("transfer", (0, 0)) == (1, 1), "location-captured-before-removal", f, node=rm, msg="the outgoing location must be captured (and stationary blocks exchanged) before the assembly is removed")
    s2 = fl.state_before(ad) or {}
    locname = next((s.attr for s in iter_stores(f.node) if s.value is not None and norm(s.value) == f"{out}.spatialLocator"), None)
    r.require(s2.get("removed", (0, 0)) == (1, 1) and len(ad.args) == 2 and norm(ad.args[1]) == locname, "add-after-remove-at-captured-location", f, node=ad, msg="the incoming assembly is added after the removal, at the captured location")
    for e in fl.normal_exits():
        if e.kind == "fall":
            r.require(e.state.get("added", (0, 0)) == (1, 1) and e.state.get("removed", (0, 0)) == (1, 1), "complete", f, msg=f"a completed discharge swap removes one and adds one: {e.state}")
        else:
            r.require(e.state.get("removed", (0, 0)) == (0, 0), f"early-return@{e.line}", f, node=e.node, msg="early return only before anything changed")
    sfprm = next((c for c in iter_calls(f.node) if call_attr(c) == "remove" and "sfp" in norm(c.func)), None)
    if sfprm is not None:
        conds = [norm(t) for t, p in path_conditions(f.node, sfprm) if p]
        r.require(any(" in " in c and inc in c for c in conds), "sfp-removal-only-when-present", f, node=sfprm, msg=f"incoming is removed from the pool only when it is there: {conds}")
        r.require(sfprm.lineno < ad.lineno, "sfp-removal-before-add", f, node=sfprm, msg="incoming leaves the pool before it enters the core")


def r6_add_checks_first(idx, r):
    add = idx.method(CORE, "add")
    reg = next((c for c in iter_calls(add.node) if _call(c, "composites.Composite.add")), None)
    if reg is None:
        raise AnalysisError("Core.add: base add not found")
    for n in walk_local(add.node):
        if isinstance(n, ast.Raise):
            key = f"Core.add:refusal-after-registration:{norm(n.exc)[:40] if n.exc else 'raise'}"
            r.require(n.lineno < reg.lineno, key, add, node=n, msg="Core.add registers the assembly as a child before this refusal: after the error the core has a child that no lookup table lists")


def r8_chain_direction(idx, r):
    """doRepeatShuffle replays a recorded pattern with two sibling loops of pairwise swaps: one for chains with charge
    and discharge, one for closed loops. Both must move every assembly the same way along its chain. The two swap
    sequences are simulated exactly (as permutations of locations) for chain lengths 2..6 and compared."""
    from ..minieval import MiniEval

    f = idx.method(FH, "doRepeatShuffle")
    if f is None:
        raise AnchorMissing("FuelHandler.doRepeatShuffle")
    loops = []
    for n in walk_local(f.node):
        if isinstance(n, ast.For) and isinstance(n.iter, ast.Call) and dotted(n.iter.func) == "range" and len(n.body) == 1 and isinstance(n.body[0], ast.Expr) \
                and isinstance(n.body[0].value, ast.Call) and call_attr(n.body[0].value) == "swapAssemblies":
            loops.append(n)
    if len(loops) != 2:
        raise AnalysisError(f"doRepeatShuffle: {len(loops)} swap loops found, expected the load-chain and the loop-chain loop")

    def simulate(loop, n):
        ev = MiniEval()
        c = loop.body[0].value
        lst = c.args[0].value.id if isinstance(c.args[0], ast.Subscript) and isinstance(c.args[0].value, ast.Name) else None
        if lst is None or not all(isinstance(a, ast.Subscript) and isinstance(a.value, ast.Name) and a.value.id == lst for a in c.args[:2]):
            raise AnalysisError("doRepeatShuffle: swap arguments are not elements of one list")
        env = {lst: tuple(range(n))}
        rargs = [ev._ev(a, env) for a in loop.iter.args]
        where = list(range(n))  # where[k] = location index of assembly k
        for i in range(*rargs):
            env[loop.target.id] = i
            a, b = (ev._ev(x.slice, env) for x in c.args[:2])
            if not (-n <= a < n and -n <= b < n):
                raise AnalysisError(f"doRepeatShuffle: index {a} or {b} out of range for a chain of {n}")
            a, b = a % n, b % n
            where[a], where[b] = where[b], where[a]
        return where

    bad = None
    for n in range(2, 7):
        w0, w1 = simulate(loops[0], n), simulate(loops[1], n)
        if w0 != w1 and bad is None:
            bad = (n, w0, w1)
    r.require(bad is None, "load-chain=loop-chain", f, node=loops[1],
              msg=(f"for a chain of {bad[0]} the charge/discharge loop sends assembly k to location {bad[1]} but the closed-loop loop sends it to {bad[2]}: "
                   "closed rotations are replayed in the opposite direction of the recorded pattern") if bad else "")


def r9_pool_names_after_renumbering(idx, r):
    """'lookups by assembly and block name find every assembly and block in the core OR THE POOL under its current name':
    Reactor.normalizeNames renumbers the core (whose own routine rebuilds the name tables from the core's children only) and
    then the spent fuel pool; after the pool's assemblies were renamed the tables must be rebuilt by a routine that includes
    the pool (regenAssemblyLists / _getAssembliesByName+_genBlocksByName), on the same path."""
    f = idx.method("armi.reactor.reactors.Reactor", "normalizeNames")
    if f is None:
        raise AnchorMissing("Reactor.normalizeNames")
    ren = [c for c in iter_calls(f.node) if call_attr(c) == "normalizeNames" and "sfp" in norm(c.func).lower()]
    if not ren:
        raise AnchorMissing("Reactor.normalizeNames: renumbering of the spent fuel pool")
    reb = [c for c in iter_calls(f.node) if call_attr(c) in ("regenAssemblyLists", "_getAssembliesByName")]
    fl = Flow(f.node, lambda n: ["pool-renamed"] if n in ren else []).run()
    ok = any((fl.state_before(c) or {}).get("pool-renamed", (0, 0))[0] >= 1 for c in reb)
    r.require(ok, "normalizeNames:tables-include-pool-after-renaming", f, node=ren[0],
              msg="the pool's assemblies are renamed but the core's by-name tables are not rebuilt afterwards (the core's own rebuild covers core children only): "
                  "pool assemblies and their blocks are not found under their current names")
    # and the rebuilders that are used do include the pool
    g = idx.method(CORE, "_getAssembliesByName")
    r.require(g is not None and any(isinstance(c, ast.Call) and call_attr(c) == "getAssemblies" and any(k.arg == "includeSFP" and isinstance(k.value, ast.Constant) and k.value.value is True for k in c.keywords)
                                    for c in ast.walk(g.node)), "_getAssembliesByName:includes-pool", g or f, msg="the assembly-name table must be built over core AND pool assemblies")


def r10_positions(idx, r):
    """(a) Composite.insert places the object at the index it was GIVEN (stationary blocks are re-inserted at their axial index; an index the
    primitive rewrites puts the block somewhere else).  (b) the two name tables are regenerated over the same population: core, BOL
    assemblies and the spent-fuel pool.  (c) the pool hands out a location only after testing it against the locations its assemblies occupy."""
    ins = idx.method("armi.reactor.composites.Composite", "insert")
    ip = ins.params()[1]
    reb = [s_ for s_ in iter_stores(ins.node) if isinstance(s_.node, ast.Name) and s_.attr == ip]
    li = [c for c in iter_calls(ins.node) if norm(c.func) == "self._children.insert"]
    r.require(not reb and len(li) == 1 and norm(li[0].args[0]) == ip, "Composite.insert:at-the-given-index", ins, node=reb[0].stmt if reb else (li[0] if li else None),
              msg=f"Composite.insert changes the index it was given (`{norm(reb[0].stmt) if reb else ''}`): a stationary block re-inserted at the top index of an assembly lands one below the "
                  "top and block order, heights and axial indices are scrambled by every swap")

    def population(call):
        kw = {k.arg: norm(k.value) for k in call.keywords}
        pop = set()
        if kw.get("includeAll") == "True":
            pop |= {"bol", "sfp"}
        if kw.get("includeBolAssems") == "True":
            pop.add("bol")
        if kw.get("includeSFP") == "True":
            pop.add("sfp")
        return pop
    ga = idx.method(CORE, "_getAssembliesByName")
    gb = idx.method(CORE, "_genBlocksByName")
    ca = [c for c in iter_calls(ga.node) if dotted(c.func) == "self.getAssemblies"]
    cb = [c for c in iter_calls(gb.node) if dotted(c.func) in ("self.getBlocks", "self.getAssemblies")]
    if len(ca) != 1 or len(cb) != 1:
        raise AnchorMissing("Core._getAssembliesByName / _genBlocksByName: one getAssemblies / getBlocks call each")
    pa, pb = population(ca[0]), population(cb[0])
    r.require(pa == pb == {"bol", "sfp"}, "name-tables:same-population", gb, node=cb[0],
              msg=f"assembliesByName is regenerated over core+{sorted(pa)} but blocksByName over core+{sorted(pb)}: after a regeneration (normalizeNames, deepcopy, unpickling) "
                  "a pooled assembly is found by name while its blocks are not")
    nl = idx.method("armi.reactor.spentFuelPool.SpentFuelPool", "_getNextLocation")
    env = single_assign_env(nl.node)
    rets = [x for x in walk_local(nl.node) if isinstance(x, ast.Return) and x.value is not None and norm(x.value) != "None"]
    if not rets:
        raise AnchorMissing("SpentFuelPool._getNextLocation: return of a location")
    for x in rets:
        okf = False
        for t, pol in path_conditions(nl.node, x):
            if isinstance(t, ast.Compare) and len(t.ops) == 1 and ((isinstance(t.ops[0], ast.NotIn) and pol) or (isinstance(t.ops[0], ast.In) and not pol)) and norm(t.left) == norm(x.value):
                filled = propagate(t.comparators[0], env)
                if "spatialLocator" in norm(filled) and any(isinstance(g, ast.comprehension) and norm(g.iter) in ("self", "self.getChildren()", "self._children") for g in ast.walk(filled)):
                    okf = True
        r.require(okf, "pool:location-tested-against-occupied", nl, node=x,
                  msg=f"`{norm(x)}` hands out a pool location without testing it against the locations the pool's assemblies occupy: after a stored assembly was re-charged (or with "
                      "explicitly placed assemblies) the next discharge lands in an occupied cell and two assemblies share one location")


def r11_guarded_key(idx, r):
    """Inside the branch that `K in self.childrenByLocator` guards, the table is indexed with that very K: indexing it with another expression
    (the assembly's own, possibly foreign, locator) turns the intended refusal into a KeyError."""
    add = idx.method(CORE, "add")
    n = 0
    for node in walk_local(add.node):
        if isinstance(node, ast.If) and isinstance(node.test, (ast.Compare, ast.BoolOp)):
            for t in ast.walk(node.test):
                if isinstance(t, ast.Compare) and len(t.ops) == 1 and isinstance(t.ops[0], ast.In) and norm(t.comparators[0]) == "self.childrenByLocator":
                    key = norm(t.left)
                    for x in [x for st_ in node.body for x in ast.walk(st_)]:
                        if isinstance(x, ast.Subscript) and norm(x.value) == "self.childrenByLocator" and isinstance(x.ctx, ast.Load):
                            n += 1
                            r.require(norm(x.slice) == key, f"Core.add:guarded-by-{key}:indexed-with-the-tested-key", add, node=x,
                                      msg=f"the branch is entered because `{key} in self.childrenByLocator`, but the table is then read at `{norm(x.slice)}`: when the assembly's own locator "
                                          "differs from the requested one the refusal surfaces as KeyError instead of the documented ValueError")
    if n < 1:
        raise AnchorMissing("Core.add: refusal branch reading self.childrenByLocator[...]")


def r12_placeholder_ids_are_negative(idx, r):
    """Assembly numbers start at 0 (Core.normalizeNames numbers from startIndex=0, makeNameFromAssemNum(0) is A0000): 0 is a real identity.
    The test in Core.add that recognises a PLACEHOLDER id (and hands out a new number and name) must therefore be strictly `< 0`."""
    nn = idx.method(CORE, "normalizeNames")
    d0 = nn.node.args.defaults
    if not (d0 and isinstance(d0[-1], ast.Constant) and d0[-1].value == 0):
        raise AnalysisError("Core.normalizeNames no longer starts numbering at 0: revisit R14.12")
    add = idx.method(CORE, "add")
    tests = [x.test for x in walk_local(add.node) if isinstance(x, ast.If) and isinstance(x.test, ast.Compare) and "assemNum" in norm(x.test.left) and isinstance(x.test.comparators[0], ast.Constant)]
    if not tests:
        raise AnchorMissing("Core.add: placeholder test on assemNum")
    for t in tests:
        r.require(isinstance(t.ops[0], ast.Lt) and t.comparators[0].value == 0, "Core.add:placeholder-means-negative", add, node=t,
                  msg=f"`{norm(t)}` also treats assembly number 0 as a placeholder: A0000 is renumbered and renamed every time it is (re-)added to the core (every shuffle through the pool), so "
                      "lookups by its name and its history break")


def location_table_fresh_rule(idx, r):
    """shared with C13 (R13.10): Core.getLocationContents builds its table for the call; nothing about occupancy is cached on the core"""
    g = idx.method(CORE, "getLocationContents")
    memo = [s_ for s_ in iter_stores(g.node) if s_.chain and s_.chain.startswith("self.")] + [c for c in iter_calls(g.node) if dotted(c.func) in ("self._setCache", "self._getCached")]
    lc = [s_ for s_ in iter_stores(g.node) if s_.attr == "locContents" and isinstance(s_.node, ast.Name) and s_.value is not None]
    fresh = bool(lc) and all(isinstance(s_.value, ast.Call) and dotted(s_.value.func) == "self.makeLocationLookup" for s_ in lc)
    core = idx.cls(CORE)
    for name, m_ in sorted(core.methods.items()):
        fills = [c for c in iter_calls(m_.node) if dotted(c.func) == "self._setCache"] + [s_.stmt for s_ in iter_stores(m_.node) if s_.kind == "subscript" and s_.chain == "self.cached"]
        r.require(not fills, f"Core.{name}:nothing-cached-on-the-core", m_, node=fills[0] if fills else None,
                  msg=f"Core.{name} keeps a result in the composite cache, which Core.add / removeAssembly / moveTo never drop: whatever it derives from the occupied locations is stale after the next shuffle or edge-assembly change")
    r.require(not memo and fresh, "getLocationContents:table-built-for-this-call", g, node=(getattr(memo[0], "stmt", memo[0]) if memo else (lc[0].stmt if lc else None)),
              msg="the location table is remembered on the core between calls: after a swap, a cascade or added/removed edge assemblies the next look-up answers with the assemblies that USED to be there")


def r13_cascade_lookup_numbering(idx, r):
    """(a) swapCascade skips a level whose assembly is None: the entry tested is the entry handed to swapAssemblies in that iteration.
    (b) getLocationContents answers from a table built for THIS call (or handed in by the caller): a table remembered on the core is stale
    after any move that keeps the number of assemblies.  (c) every renumbering in Reactor.normalizeNames is followed by storing the new
    maximum, or the next fresh assembly gets a number that is in use."""
    f = idx.method(FH, "swapCascade")
    loop = next((x for x in walk_local(f.node) if isinstance(x, ast.For) and any(isinstance(c, ast.Call) and call_attr(c) == "swapAssemblies" for c in ast.walk(x))), None)
    if loop is None:
        raise AnchorMissing("swapCascade: loop calling swapAssemblies")
    sw = next(c for c in ast.walk(loop) if isinstance(c, ast.Call) and call_attr(c) == "swapAssemblies")
    guards = [x for x in loop.body if isinstance(x, ast.If) and any(isinstance(y, ast.Continue) for y in x.body)]
    moving = norm(sw.args[1])
    r.require(bool(guards) and all(moving in norm(gd.test) for gd in guards), "swapCascade:guard-tests-the-assembly-swapped-in", f, node=guards[0] if guards else sw,
              msg=f"the level is skipped when `{norm(guards[0].test) if guards else ''}`, but the assembly handed to swapAssemblies is `{moving}`: a None in the cascade makes the NEXT real assembly stay where it is")
    location_table_fresh_rule(idx, r)
    h = idx.method("armi.reactor.reactors.Reactor", "normalizeNames")
    rn = [x for x in walk_local(h.node) if isinstance(x, ast.Assign) and isinstance(x.value, ast.Call) and call_attr(x.value) == "normalizeNames" and isinstance(x.targets[0], ast.Name)]
    if len(rn) < 2:
        raise AnchorMissing("Reactor.normalizeNames: the two renumberings")
    par = h.module.parents()
    for k_, x in enumerate(rn):
        blk = getattr(par[x], "body", None) or []
        seq = blk if x in blk else (getattr(par[x], "orelse", []) or [])
        i0 = seq.index(x) if x in seq else -1
        stored = i0 >= 0 and any(isinstance(y, ast.Assign) and norm(y) == f"self.p.maxAssemNum = {norm(x.targets[0])}" for y in seq[i0 + 1:])
        r.require(stored, f"Reactor.normalizeNames:renumbering{k_}:maximum-stored", h, node=x,
                  msg=f"after `{norm(x)[:60]}` the new maximum assembly number is not stored: the counter stays behind the numbers just handed out, and the next fresh assembly collides with a pool assembly")


def r14_one_number_per_assembly(idx, r):
    """Core.normalizeNames and SpentFuelPool.normalizeNames walk their assemblies with a running number: within one iteration the assembly's
    number, its name and the names of all its blocks are made from the SAME value - the counter advances exactly once, after its last use.
    Advanced earlier, the blocks are named after the next assembly and collide with the next one charged."""
    n = 0
    for cls in (CORE, "armi.reactor.spentFuelPool.SpentFuelPool"):
        f = idx.method(cls, "normalizeNames")
        loops = [x for x in f.node.body if isinstance(x, ast.For)]
        incs = [x for x in walk_local(f.node) if isinstance(x, ast.AugAssign) and isinstance(x.target, ast.Name)]
        if not loops or not incs:
            raise AnchorMissing(f"{cls}.normalizeNames: loop and counter")
        ctr = incs[0].target.id
        loop = loops[0]
        fl = Flow(f.node, lambda nd: ["inc"] if isinstance(nd, ast.AugAssign) and isinstance(nd.target, ast.Name) and nd.target.id == ctr else [], body=loop.body).run()
        cname = cls.rsplit(".", 1)[-1]
        for x in walk_local(loop):
            uses = isinstance(x, ast.Call) and any(isinstance(a, ast.Name) and a.id == ctr for a in x.args) or (isinstance(x, ast.Assign) and isinstance(x.value, ast.Name) and x.value.id == ctr)
            if not uses:
                continue
            n += 1
            st = fl.state_before(x) or {}
            r.require(st.get("inc", (0, 0))[1] == 0, f"{cname}.normalizeNames:{norm(x)[:40]}:uses-the-number-of-this-assembly", f, node=x,
                      msg=f"`{norm(x)[:70]}` can run after the counter was advanced: it takes the number of the NEXT assembly, so the blocks of one assembly carry the names of another")
        ends = fl.iteration_ends()
        r.require(bool(ends) and all(e.get("inc") == (1, 1) for e in ends), f"{cname}.normalizeNames:counter-advances-once-per-assembly", f, node=loop,
                  msg="an iteration ends with the counter advanced zero or several times: numbers are reused or skipped")
    if n < 6:
        raise AnchorMissing("uses of the running number in the two normalizeNames")


def r16_chains_pool_and_registry(idx, r):
    """(a) processMoveList records every chain it finds - load chains and loop chains alike - in `alreadyDone` on every path, so that the
    locations of a chain do not start another chain (a pure in-core loop found once per member is rotated back to where it started).
    (b) whether Core.getAssemblies(includeSFP=True) looks into the pool depends on the request and on the pool existing - not on the
    tracking switch: assemblies that ARE in the pool must stay findable by name after tracking was switched off.  (c) Reactor.add registers an
    ex-core structure under its lower-cased, blank-free name: the name tested and the key stored are one value."""
    f = idx.method(FH, "processMoveList")
    apps = [c for c in iter_calls(f.node) if call_attr(c) == "append" and norm(c.func.value) in ("loadChains", "loopChains") and c.args]
    if len(apps) != 2:
        raise AnchorMissing("processMoveList: loadChains.append / loopChains.append")
    for c in apps:
        chain = norm(c.args[0])
        # the statement list that holds the append: the chain is recorded later in that same list, before anything leaves it
        block = next((b_ for x in ast.walk(f.node) for b_ in (getattr(x, "body", None), getattr(x, "orelse", None)) if isinstance(b_, list) and any(isinstance(st_, ast.Expr) and st_.value is c for st_ in b_)), None)
        ok = False
        if block is not None:
            i0 = next(i for i, st_ in enumerate(block) if isinstance(st_, ast.Expr) and st_.value is c)
            for st_ in block[i0 + 1:]:
                if isinstance(st_, (ast.Continue, ast.Break, ast.Return, ast.Raise)):
                    break
                if isinstance(st_, ast.Expr) and isinstance(st_.value, ast.Call) and norm(st_.value.func) in ("alreadyDone.extend", "alreadyDone.append") and st_.value.args and norm(st_.value.args[0]) == chain:
                    ok = True
                    break
        r.require(ok, f"processMoveList:{norm(c.func.value)}:chain-marked-done", f, node=c,
                  msg=f"a chain appended to {norm(c.func.value)} is not recorded in alreadyDone on every path: each of its locations starts the same chain again, and the repeated shuffle applies it once per member")
    g = idx.method(CORE, "getAssemblies")
    ext = [c for c in iter_calls(g.node) if call_attr(c) == "extend" and "sfp" in norm(c).lower()]
    if len(ext) != 1:
        raise AnchorMissing("Core.getAssemblies: the pool extension")
    conds = [norm(t) for t, _p in path_conditions(g.node, ext[0])]
    r.require(not any("_trackAssems" in c_ or "trackAssems" in c_ for c_ in conds), "getAssemblies:pool-included-whenever-asked", g, node=ext[0],
              msg=f"the pool is only looked into under {conds}: with tracking switched off the assemblies that are still in the pool drop out of the name tables at the next regeneration")
    h = idx.method("armi.reactor.reactors.Reactor", "add")
    sts = [s_ for s_ in iter_stores(h.node) if s_.kind == "subscript" and norm(s_.node.value) == "self.excore"]
    if len(sts) != 1 or not isinstance(sts[0].node.slice, ast.Name):
        raise AnchorMissing("Reactor.add: self.excore[key] = container")
    key = sts[0].node.slice.id
    defs = [x for x in walk_local(h.node) if isinstance(x, ast.Assign) and any(norm(t) == key for t in x.targets)]
    first = defs[0] if defs else None
    r.require(first is not None and ".lower()" in norm(first.value) and '.replace(" ", "")' in norm(first.value).replace("'", '"'), "Reactor.add:structure-registered-under-its-normalised-name", h, node=first,
              msg=f"the registry key is `{norm(first.value) if first is not None else None}`: a pool system named `SFP` is registered under that spelling, `excore.get('sfp')` finds nothing, and discharged assemblies are purged instead of pooled")


def r15_pairing(idx, r):
    from ..pairing import pairing_rule
    pairing_rule(idx, r, ["armi.physics.fuelCycle.fuelHandlers", "armi.reactor.cores", "armi.reactor.spentFuelPool", "armi.reactor.assemblies", "armi.reactor.reactors"], 80)


def r_borrowed_r14_17(idx, r):
    """clause of C01: Assembly.insert reaches the base primitive with the same object (R01.4)"""
    from ..report import Only
    from .c01 import r4_overrides
    r4_overrides(idx, Only(r, ["Assembly.insert"]))


def r18_flag_entries_number_zero_pool_place(idx, r):
    """(a) `stationaryBlockFlags` lists alternatives: Core.processLoading keeps one Flags value per entry (a block is stationary when it has
    ANY of them; folding the entries into one mask demands all at once, and with two entries no block stays).  (b) Core.getAssembly finds
    an assembly by its number, 0 included: the number is compared, never tested for truth.  (c) SpentFuelPool.add keeps the cell an assembly
    already occupies on the pool's own grid (clause of R04.7): a pool rebuilt from a database, or an assembly placed at a chosen cell."""
    from ..astutil import truthiness_uses
    from ..report import Only
    from .c04 import r7_locator_kept_on_add as r7_child_locator
    f = idx.method(CORE, "processLoading")
    apps = [c for c in iter_calls(f.node) if norm(c.func) == "stationaryBlockFlags.append"]
    folds = [x for x in walk_local(f.node) if isinstance(x, ast.AugAssign) and "stationaryBlockFlags" in norm(x.target)]
    if not apps:
        raise AnchorMissing("processLoading: stationaryBlockFlags.append")
    conds = [norm(t) for t, _p in path_conditions(f.node, apps[0])]
    r.require(not conds and not folds and "fromString" in norm(propagate(apps[0].args[0], single_assign_env(f.node))), "processLoading:one-flag-value-per-stationary-entry", f, node=(folds[0] if folds else apps[0]),
              msg="the entries of stationaryBlockFlags are folded into one mask: hasFlags(mask) asks for ALL of them, so with two entries no block is stationary and grid plates travel with their assemblies")
    g = idx.method(CORE, "getAssembly")
    uses = truthiness_uses(g.node, {"assemNum"})
    r.require(not uses, "getAssembly:number-compared-not-truth-tested", g, node=uses[0] if uses else None,
              msg="`assemNum` is evaluated for truth: the assembly with number 0 can never be found by its number")
    r7_child_locator(idx, Only(r, ["SpentFuelPool.add"]))


def r19_regenerators_replace_the_table(idx, r):
    """A routine that REGENERATES a lookup table (childrenByLocator / assembliesByName / blocksByName) exists because the table in hand may
    be stale - names were renumbered, the core was unpickled or copied, assemblies were detached.  A stale table is not recognisable from
    its own content (it is neither missing nor empty), so a regenerator must replace the table on EVERY normal path; a path that keeps
    the previous table keeps every purged object and misses every renamed one.
    Family, enumerated from the index over the methods a Core instance resolves (Core's MRO): (a) leaf regenerators - every method other
    than __init__ that stores a whole new table `self.T = ...`; (b) delegating regenerators - every method that calls, outside an
    exception handler, a method that may regenerate a table (closed transitively: self.m(), super().m(), Base.m(self)).  A lookup that
    repairs a MISSING table inside its except-handler only (getBlockByName) is not a regenerator and is not in the family.  For every
    (method, table) of the family the Flow engine decides must-pass-through: at every normal exit the table has been replaced (directly,
    or through a callee already proven to replace it on all its paths - least fixpoint upwards from the leaves)."""
    core = idx.cls(CORE)
    tables = sorted(TABLE_WRITERS)
    by_cls = {c.name: c for c in core.mro()}
    meths = {}  # 'Class.name' -> FuncInfo, every definition in the MRO (overridden ones are reachable through super())
    for c in core.mro():
        for nm, m in c.methods.items():
            if m.params():
                meths[f"{c.name}.{nm}"] = m
    key_of = {id(m.node): k for k, m in meths.items()}

    def callee(m, c):
        """key of the method of this very object that the call c (inside method m) runs, or None"""
        fn = c.func
        if not isinstance(fn, ast.Attribute):
            return None
        base, g = fn.value, None
        if isinstance(base, ast.Name) and base.id == m.params()[0]:
            g = core.resolve(fn.attr)
        elif isinstance(base, ast.Call) and dotted(base.func) == "super" and m.cls is not None:
            g = core.resolve_after(m.cls, fn.attr)
        else:
            d = dotted(base)
            k = by_cls.get(d.rsplit(".", 1)[-1]) if d else None
            if k is not None and c.args and norm(c.args[0]) == m.params()[0]:
                g = k.resolve(fn.attr)
        return key_of.get(id(g.node)) if g is not None else None

    direct, calls = {}, {}
    for k, m in meths.items():
        me = m.params()[0]
        direct[k] = {}
        for s_ in iter_stores(m.node, include_nested=False):
            if s_.kind == "assign" and s_.chain in [f"{me}.{t}" for t in tables] and s_.value is not None:
                direct[k].setdefault(id(s_.stmt), []).append(s_.attr)
        hs = {id(x) for h in walk_local(m.node) if isinstance(h, ast.ExceptHandler) for x in ast.walk(h)}
        calls[k] = [(c, g, id(c) in hs) for c in iter_calls(m.node, include_nested=False) for g in [callee(m, c)] if g is not None and g != k]
    # may-regenerate (anywhere in the body), closed over calls
    may = {k: {t for fs in direct[k].values() for t in fs} for k in meths}
    changed = True
    while changed:
        changed = False
        for k in meths:
            for _c, g, _h in calls[k]:
                new = may[g] - may[k]
                if new:
                    may[k] |= new
                    changed = True
    # must-regenerate: least fixpoint upwards from the leaves
    must = {k: set() for k in meths}

    def decide(k):
        cmap = {id(c): [t for t in tables if t in must[g]] for c, g, _h in calls[k]}
        fl = Flow(meths[k].node, lambda n: direct[k].get(id(n), []) + cmap.get(id(n), [])).run()
        ex = fl.normal_exits()
        return {t for t in may[k] if ex and all(e.state.get(t, (0, 0))[0] >= 1 for e in ex)}
    cand = [k for k in meths if may[k]]
    changed = True
    while changed:
        changed = False
        for k in cand:
            got = decide(k)
            if got - must[k]:
                must[k] |= got
                changed = True
    n_leaf = 0
    for k in cand:
        m = meths[k]
        leaf = bool(direct[k])
        deleg = any(not h and may[g] for _c, g, h in calls[k])
        if m.name == "__init__" or not (leaf or deleg):
            continue
        n_leaf += leaf
        for t in sorted(may[k]):
            # where the regeneration of t sits in this method, and under what
            sites = [x for x in walk_local(m.node) if t in direct[k].get(id(x), [])] + [c for c, g, _h in calls[k] if t in may[g]]
            conds = sorted({("" if pol else "not ") + f"({norm(tst)[:70]})" for x in sites for tst, pol in path_conditions(m.node, x)})
            via = sorted({g for _c, g, _h in calls[k] if t in may[g]})
            weak = [g for g in via if t not in must[g]]
            why = f"under the condition(s) {conds}" if conds else (f"{weak} does not replace it on all of its paths" if weak else "a handler, loop body or early return bypasses it")
            r.require(t in must[k], f"{k}:{t}:replaced-on-every-path", m, node=sites[0] if sites else None,
                      msg=f"{k} regenerates `{t}`" + (f" through {via}" if via else "") + f" only on some paths ({why}): a normal path keeps the previous `{t}`.  "
                          "A stale table that is neither missing nor empty is then kept - after Reactor.normalizeNames renamed the pool's assemblies, after unpickling / deepcopy or "
                          "re-attached assemblies the lookup misses objects under their current names and still returns purged ones")
    if n_leaf < 4:
        raise AnchorMissing(f"leaf regenerators of the lookup tables in Core's MRO: {n_leaf} found, 4 expected")


def run(idx, chk):
    chk.explanation = (
        "C14: who may write childrenByLocator/assembliesByName/blocksByName; Core.add/removeAssembly touching every table exactly once on "
        "every normal path (removed assembly either pooled or purged); the swap idiom (saved locator, order, both moves), stationary-block "
        "cross pairing, discharge order. Inventory equality over histories is NOT decided."
    )
    chk.undecided_clauses = ["inventory equality over arbitrary shuffle histories", "numMoves bookkeeping"]
    chk.run_rule("R14.1", "only the listed Core/Composite/Assembly functions write the three lookup tables", lambda r: r1_tables(idx, r), floor=20, necessary="a foreign writer makes lookups disagree with the child list")
    chk.run_rule("R14.2", "Core.add registers child, locator, name and block names; removeAssembly pops, removes and then pools-or-purges, on every path", lambda r: r2_add_remove(idx, r), floor=14,
                 necessary="'lookups ... never return one that was purged' / 'list exactly the assemblies present'")
    chk.run_rule("R14.3", "swap: first locator saved, stationary blocks transferred, a1->a2's place, a2->saved; moveTo re-keys the table and refuses foreign grids; cascade = repeated swaps", lambda r: r3_swap(idx, r), floor=8,
                 necessary="each assembly sits where the operation put it")
    chk.run_rule("R14.4", "stationary blocks: positions compared first; each block removed from its assembly and inserted into the other at the receiver's index", lambda r: r4_stationary(idx, r), floor=6,
                 necessary="stationary blocks keep their core position and exchange assemblies")
    chk.run_rule("R14.5", "dischargeSwap: location captured before removal; pool removal only when present; core.add last at the captured location", lambda r: r5_discharge(idx, r), floor=5, necessary="none duplicated or lost")
    chk.run_rule("R14.6", "Core.add performs every refusal test before registering the assembly", lambda r: r6_add_checks_first(idx, r), floor=2, necessary="a refused add must leave the core unchanged")
    chk.run_rule("R14.8", "repeat shuffle: the two sibling swap loops (load chains, closed loops) realise the same shift along a chain (exact simulation, lengths 2-6)", lambda r: r8_chain_direction(idx, r), floor=1,
                 necessary="'each assembly sits where the operation put it'")
    chk.run_rule("R14.9", "after the pool's assemblies are renumbered the name tables are rebuilt over core and pool", lambda r: r9_pool_names_after_renumbering(idx, r), floor=2,
                 necessary="'lookups by assembly and block name find every assembly and block in the core or the pool under its current name'")
    chk.run_rule("R14.10", "insert keeps the given index; both name tables cover core, BOL and pool; the pool tests a location against the occupied ones", lambda r: r10_positions(idx, r), floor=3,
                 necessary="every location holds at most one assembly; names and blocks of pooled assemblies stay findable; block order is preserved by swaps")
    chk.run_rule("R14.11", "a lookup inside a membership-guarded branch uses the tested key", lambda r: r11_guarded_key(idx, r), floor=1,
                 necessary="an add to an occupied location is refused with the documented error")
    chk.run_rule("R14.12", "only negative assembly numbers are placeholders (0 is a real identity)", lambda r: r12_placeholder_ids_are_negative(idx, r), floor=1,
                 necessary="an assembly keeps its name through add/remove cycles")
    chk.run_rule("R14.13", "cascade guard tests the assembly swapped in; location table built per call; every renumbering stores the new maximum", lambda r: r13_cascade_lookup_numbering(idx, r), floor=4,
                 necessary="each lookup returns the object at that location; no two assemblies share a name")
    chk.run_rule("R14.14", "assembly number, assembly name and block names of one iteration are made from one counter value; the counter advances once per assembly", lambda r: r14_one_number_per_assembly(idx, r), floor=8,
                 necessary="every block is found under a name that no other block carries")
    chk.run_rule("R14.15", "arguments stand at the parameter they are named after; sibling calls forward the same pass-through parameters", lambda r: r15_pairing(idx, r), floor=1,
                 necessary="the two assemblies of a swap are not exchanged with their locations")
    chk.run_rule("R14.16", "every chain found is marked done; the pool is included whenever asked for; ex-core structures are registered under the normalised name", lambda r: r16_chains_pool_and_registry(idx, r), floor=4,
                 necessary="a repeated shuffle puts every assembly where the file says; pool assemblies stay findable by name; none is lost")
    chk.run_rule("R14.17", "clause of C01: Assembly.insert reaches the base primitive with the same object (R01.4)", lambda r: r_borrowed_r14_17(idx, r), floor=1,
                 necessary="a block inserted into an assembly is listed once, where it was put")
    chk.run_rule("R14.18", "one Flags value per stationary entry; assembly number 0 is a number; the pool keeps a pre-set cell of its own grid (R04.7)", lambda r: r18_flag_entries_number_zero_pool_place(idx, r), floor=3,
                 necessary="stationary blocks stay where they are; every assembly is found by its number and at its recorded place")
    chk.run_rule("R14.19", "every routine that regenerates a lookup table - leaf (stores a whole new table) or delegating (calls such a routine outside an exception handler), closed transitively over Core's MRO - replaces the table on every normal path",
                 lambda r: r19_regenerators_replace_the_table(idx, r), floor=13,
                 necessary="'lookups by assembly and block name find every assembly and block in the core or the pool under its current name and never return one that was purged': a regeneration is "
                           "requested exactly when the table may be stale, and staleness cannot be told from the table's content")
