"""C18 - blueprints -> reactor.  Mostly a relation between a document and an object graph, which
static analysis cannot decide.  Claimed clauses only: lattice maps use one index map in both
directions with the same line order and refuse incomplete drawings; every per-block list is
length-checked before construction; lattice-map centring treats both axes alike; blueprint-held
containers are copied into the model (determinism / independence)."""
from __future__ import annotations

import ast

from ..astutil import call_attr, iter_calls, iter_stores, propagate, single_assign_env, walk_local
from ..flow import Flow, always_exits, path_conditions
from ..index import AnalysisError, AnchorMissing, dotted, norm

AM = "armi.utils.asciimaps"
BP = "armi.reactor.blueprints."


def _r1_reader_part(idx, r, base):
    rd = base.methods["readAscii"]
    seq = [dotted(c.func) for c in iter_calls(rd.node) if (dotted(c.func) or "").startswith("self._")]
    r.require(seq == ["self._updateDimensionsFromAsciiLines", "self._asciiLinesToIndices", "self._makeOffsets", "self._updateSlotSizeFromData"], "reader:sequence", rd, msg=f"dimensions are derived before indices: {seq}")



def r1_lattice_maps(idx, r):
    base = idx.cls(AM + ".AsciiMap")
    classes = [c for c in idx.subclasses(base)]
    if len(classes) < 4:
        raise AnalysisError("ascii map classes not found")
    for c in classes:
        rd = c.resolve("_asciiLinesToIndices")
        wr = c.resolve("gridContentsToAscii")
        ln = c.resolve("_getLineNumsToWrite")
        colrow = c.resolve("_getIJFromColRow")
        # (a) line order: the reader enumerates reversed lines iff the writer emits reversed line numbers
        loop = next((n for n in rd.node.body if isinstance(n, ast.For)), None)
        if loop is None:
            r.undecided(f"{c.name}:reader", rd, "no reader loop")
            continue
        it = loop.iter.args[0] if isinstance(loop.iter, ast.Call) and dotted(loop.iter.func) == "enumerate" else loop.iter
        rrev = isinstance(it, ast.Call) and dotted(it.func) == "reversed"
        rsrc = norm(it.args[0]) if rrev else norm(it)
        ret = next((n for n in walk_local(ln.node) if isinstance(n, ast.Return)), None)
        wrev = isinstance(ret.value, ast.Call) and dotted(ret.value.func) == "reversed"
        wrng = norm(ret.value.args[0]) if wrev else norm(ret.value)
        r.require(rsrc == "self.asciiLines" and wrng == "range(self._asciiMaxLine)" and rrev == wrev, f"{c.name}:line-order", rd, node=loop,
                  msg=f"the reader walks {'reversed ' if rrev else ''}lines but the writer emits {'reversed ' if wrev else ''}line numbers: a map written and read again would be flipped")
        # (b) one index map: reader's (col, line) -> ij equals _getIJFromColRow used by the writer
        li = norm(loop.target.elts[0]) if isinstance(loop.target, ast.Tuple) else None
        inner = next((n for n in loop.body if isinstance(n, ast.For)), None)
        ci = norm(inner.target.elts[0]) if inner is not None and isinstance(inner.target, ast.Tuple) else None
        ij = next((s for s in iter_stores(loop) if s.attr == "ij" and s.value is not None), None)
        if ij is None or li is None or ci is None:
            raise AnalysisError(f"{c.name}: reader shape not recognised")
        env = {}
        for s in loop.body:
            if isinstance(s, ast.Assign) and isinstance(s.targets[0], ast.Tuple) and isinstance(s.value, ast.Call):
                for k, e in enumerate(s.targets[0].elts):
                    env[norm(e)] = (norm(s.value), k)
        rv = norm(ij.value)
        if rv == f"self._getIJFromColRow({ci}, {li})":
            ok = True
            why = "reader uses _getIJFromColRow directly"
        else:
            # reader: base = self._getIJBaseByAsciiLine(li); ij = self._getIJFromColAndBase(ci, iBase, jBase)
            okr = rv == f"self._getIJFromColAndBase({ci}, iBase, jBase)" and env.get("iBase") == (f"self._getIJBaseByAsciiLine({li})", 0) and env.get("jBase") == (f"self._getIJBaseByAsciiLine({li})", 1)
            body = [norm(s) for s in colrow.node.body if not (isinstance(s, ast.Expr) and isinstance(s.value, ast.Constant))]
            p = colrow.params()[1:]
            okw = body == [f"iBase, jBase = self._getIJBaseByAsciiLine({p[1]})", f"return self._getIJFromColAndBase({p[0]}, iBase, jBase)"]
            ok = okr and okw
            why = f"reader: {rv} with {env}; _getIJFromColRow: {body}"
        r.require(ok, f"{c.name}:one-index-map", rd, node=ij.stmt, msg=f"reading and writing must go through the same (column, line) -> (i, j) map ({why})")
        st = next((s for s in iter_stores(loop) if s.kind == "subscript" and s.chain == "self.asciiLabelByIndices"), None)
        r.require(st is not None and norm(st.node.slice) == "ij" and norm(st.value) == norm(inner.target.elts[1]), f"{c.name}:stores-label-at-ij", rd, msg="each label is stored at its own indices")
        wcalls = [x for x in iter_calls(wr.node) if dotted(x.func) == "self._getIJFromColRow"]
        r.require(len(wcalls) == 1 and [norm(a) for a in wcalls[0].args] == ["colNum", "lineNum"], f"{c.name}:writer-uses-index-map", wr, msg="the writer looks every (column, line) up through _getIJFromColRow")
    # writer refuses incomplete drawings. When the drawing is verified against the data before it is handed out (R18.4), the
    # individual refusal mechanisms below are sufficient but no longer necessary conditions: they are then not demanded.
    w = base.methods["gridContentsToAscii"]
    try:
        from ..report import Check as _Check
        probe = _Check("C18", "quick").rule("probe", "")
        r4_drawing_verified(idx, probe)
        verified = not any(i.status == "violation" for i in probe.instances) and not probe.errors
    except AnalysisError:
        verified = False
    if verified:
        r.ok("writer:refusals-subsumed-by-verification", w, msg="gridContentsToAscii verifies its drawing against the data (R18.4); blank-row / placeholder handling cannot make it hand out a wrong map")
        return _r1_reader_part(idx, r, base)
    lp = next((n for n in w.node.body if isinstance(n, ast.For) and norm(n.iter) == "self.asciiLines"), None)
    if lp is None:
        raise AnalysisError("gridContentsToAscii: clean-up loop not found")
    conts = [n for n in walk_local(lp) if isinstance(n, ast.Continue)]
    okc = len(conts) == 1
    if okc:
        conds = [norm(t) for t, p in path_conditions(ast.Module(body=lp.body, type_ignores=[]), conts[0]) if p]
        okc = len(conds) == 1 and "noDataLinesYet" in conds[0] and "re.search" in conds[0] and " and " in conds[0]
    r.require(okc, "writer:only-leading-empty-lines-skipped", w, node=conts[0] if conts else lp, msg="an all-placeholder line may be skipped only before the first data line; an empty INTERIOR line must reach the refusal below (else the map is drawn shifted)")
    flag = [s for s in lp.body if isinstance(s, ast.Assign) and norm(s) == "noDataLinesYet = False"]
    r.require(len(flag) == 1 and conts and flag[0].lineno > conts[0].lineno, "writer:flag-cleared-on-first-data-line", w, msg="the 'no data yet' flag is cleared at the first data line")
    rs = [n for n in walk_local(lp) if isinstance(n, ast.Raise)]
    okr = len(rs) == 1 and [(norm(t), p) for t, p in path_conditions(ast.Module(body=lp.body, type_ignores=[]), rs[0]) if norm(t) == "newLine"] == [("newLine", False)]
    r.require(okr, "writer:blank-interior-row-refused", w, msg="a row that is blank after trimming must raise, never be emitted or dropped")
    nd = next((n for n in w.node.body if isinstance(n, ast.If) and norm(n.test) == "not newLines"), None)
    r.require(nd is not None and always_exits(nd.body) and any(isinstance(x, ast.Raise) for x in nd.body), "writer:nothing-to-draw-refused", w, msg="no data at all must raise")
    tp = base.methods["_removeTrailingPlaceholders"]
    txt = norm(tp.node)
    r.require("for col in reversed(line)" in txt and "col == PLACEHOLDER and noDataYet" in txt and "newLine.reverse()" in txt, "writer:only-trailing-placeholders-trimmed", tp, msg="only trailing placeholders are trimmed from a row")
    return _r1_reader_part(idx, r, base)

def r2_per_block_lists(idx, r):
    ab = idx.cls(BP + "assemblyBlueprint.AssemblyBlueprint")
    chk = ab.methods["_checkParamConsistency"]
    d = next((s.value for s in iter_stores(chk.node) if s.attr == "paramsToCheck" and isinstance(s.value, ast.Dict)), None)
    checked = {norm(v) for v in d.values} if d is not None else set()
    def _loops_over(attr_chain):
        """a for-loop whose iterable is <attr_chain>.items() / .values() / the mapping itself, with an inner store into paramsToCheck"""
        for n in walk_local(chk.node):
            if isinstance(n, ast.For):
                it = n.iter
                if isinstance(it, ast.Call) and isinstance(it.func, ast.Attribute) and it.func.attr in ("items", "values") and not it.args:
                    it = it.func.value
                if dotted(it) == attr_chain and any(isinstance(x, ast.Assign) and "paramsToCheck" in norm(x.targets[0]) for x in ast.walk(n)):
                    return True
        return False
    mm = _loops_over("self.materialModifications")
    mmc = _loops_over("self.materialModifications.byComponent")
    n = 0
    for meth in ("_createBlock", "_constructAssembly"):
        f = ab.methods[meth]
        for x in walk_local(f.node):
            if isinstance(x, ast.Subscript) and norm(x.slice) == "axialIndex":
                n += 1
                src = norm(x.value)
                if src == "modList":
                    r.require(mm and mmc, f"{meth}:materialModifications[axialIndex]", f, node=x, msg="material-modification lists (by block and by component) must be length-checked")
                elif src.startswith("self."):
                    r.require(src in checked, f"{meth}:{src}[axialIndex]", f, node=x, msg=f"`{src}` is indexed per block but is not among the lists checked to have one entry per block ({sorted(checked)})")
                else:
                    r.undecided(f"{meth}:{src}[axialIndex]", f, "indexed object is not an attribute of the blueprint", node=x)
    if n < 4:
        raise AnalysisError("per-block indexing sites not found")
    # no list may drop out of the check through a key collision: a key written inside nested loops names a variable of EVERY enclosing loop
    par = {}
    for nd in ast.walk(chk.node):
        for ch in ast.iter_child_nodes(nd):
            par[ch] = nd
    for st in walk_local(chk.node):
        if isinstance(st, ast.Assign) and len(st.targets) == 1 and isinstance(st.targets[0], ast.Subscript) and norm(st.targets[0].value) == "paramsToCheck":
            key = propagate(st.targets[0].slice, single_assign_env(chk.node)) if isinstance(st.targets[0].slice, ast.Name) else st.targets[0].slice
            # the key may be a local assigned just before, inside the same loop body
            if isinstance(st.targets[0].slice, ast.Name):
                body = getattr(par.get(st), "body", [])
                prev = [x for x in body[: body.index(st)] if isinstance(x, ast.Assign) and norm(x.targets[0]) == st.targets[0].slice.id] if st in body else []
                if prev:
                    key = prev[-1].value
            knames = {x.id for x in ast.walk(key) if isinstance(x, ast.Name)}
            loops, nd = [], st
            while nd in par:
                nd = par[nd]
                if isinstance(nd, ast.For):
                    loops.append(nd)
            for lp_ in loops:
                tn = {x.id for x in ast.walk(lp_.target) if isinstance(x, ast.Name)}
                r.require(bool(tn & knames), f"check:key-distinguishes:{norm(lp_.iter)[:50]}", chk, node=st,
                          msg=f"entries are stored under `{norm(key)[:60]}`, which names nothing of the enclosing loop over `{norm(lp_.iter)[:50]}`: lists of two components with the "
                              "same modification name share one key, the later one overwrites the earlier and a list of the wrong length escapes the check")
    lp = next((x for x in chk.node.body if isinstance(x, ast.For) and norm(x.iter) == "paramsToCheck.items()"), None)
    def _lengths_differ(t, pol):  # the condition says len(self.blocks) != len(blockVals), however it is written
        while isinstance(t, ast.UnaryOp) and isinstance(t.op, ast.Not):
            t, pol = t.operand, not pol
        if not (isinstance(t, ast.Compare) and len(t.ops) == 1 and isinstance(t.ops[0], (ast.Eq, ast.NotEq)) and {norm(t.left), norm(t.comparators[0])} == {"len(self.blocks)", "len(blockVals)"}):
            return False
        return pol == isinstance(t.ops[0], ast.NotEq)
    ok = False
    if lp is not None:
        from ..flow import path_conditions as _pc
        for y in walk_local(lp):
            if isinstance(y, ast.Raise):
                pcs = [(t, p_) for t, p_ in _pc(chk.node, y)]
                inner = [(t, p_) for t, p_ in pcs if any(t is z for z in ast.walk(lp))]  # conditions that stand inside the loop
                ok = ok or (len(inner) == 1 and _lengths_differ(*inner[0]))
    r.require(ok, "check:unequal-length-raises", chk, msg="a list whose length differs from the number of blocks must raise")
    cs = ab.methods["construct"]

    def ev(nd):
        if isinstance(nd, ast.Call) and dotted(nd.func) == "self._checkParamConsistency":
            return ["checked"]
        return []
    fl = Flow(cs.node, ev).run()
    mk = next((c for c in iter_calls(cs.node) if dotted(c.func) == "self._constructAssembly"), None)
    r.require(mk is not None and (fl.state_before(mk) or {}).get("checked", (0, 0))[0] >= 1, "construct:check-first", cs, node=mk, msg="the consistency check must dominate the construction")
    ca = ab.methods["_constructAssembly"]
    l1 = next((x for x in ca.node.body if isinstance(x, ast.For) and norm(x.iter) == "enumerate(self.blocks)"), None)
    l2 = next((x for x in ca.node.body if isinstance(x, ast.For) and norm(x.iter) == "enumerate(blocks)"), None)
    ok = l1 is not None and l2 is not None and any(norm(s) == "blocks.append(b)" for s in l1.body) and any(norm(s) == "a.add(b)" for s in l2.body) and not any(isinstance(y, (ast.If, ast.Continue, ast.Break)) for x in (l1, l2) for y in walk_local(x))
    r.require(ok, "constructAssembly:every-block-in-order", ca, msg="every block design yields one block, added in the specified order")
    cb = ab.methods["_createBlock"]
    c = next((x for x in iter_calls(cb.node) if norm(x.func) == "bDesign.construct"), None)
    env = single_assign_env(cb.node)
    args = [norm(propagate(a, env)) for a in c.args] if c is not None else []
    r.require(args[2:6] == ["axialIndex", "self.axialMeshPoints[axialIndex]", "self.height[axialIndex]", "self.xsTypes[axialIndex]"], "createBlock:own-index", cb, node=c, msg=f"block k is built from entry k of every per-block list: {args}")


def r3_centring_and_copies(idx, r):
    f = idx.method(BP + "gridBlueprint.GridBlueprint", "_readGridContentsLattice")
    sz = next((s for s in walk_local(f.node) if isinstance(s, ast.Assign) and isinstance(s.targets[0], ast.Tuple) and isinstance(s.value, ast.Call) and dotted(s.value.func) == "_getGridSize"), None)
    if sz is None:
        raise AnalysisError("_readGridContentsLattice: grid size unpacking not found")
    nx, ny = (norm(e) for e in sz.targets[0].elts)
    offs = {s.attr: norm(s.value) for s in iter_stores(f.node) if s.attr in ("iOffset", "jOffset") and s.value is not None and norm(s.value) != "0"}
    r.require(offs == {"iOffset": f"int(-{nx} / 2)", "jOffset": f"int(-{ny} / 2)"}, "lattice:centre-each-axis-with-its-own-size", f, msg=f"the map is centred with the column count for i and the line count for j: {offs}")
    st = next((s for s in iter_stores(f.node) if s.kind == "subscript" and s.chain == "self.gridContents"), None)
    r.require(st is not None and norm(st.node.slice) == "(i + iOffset, j + jOffset)" and norm(st.value) == "spec", "lattice:offset-applied-per-axis", f, node=st.stmt if st else None, msg="each specifier lands at (i + iOffset, j + jOffset)")
    gs = idx.func(BP + "gridBlueprint._getGridSize")
    r.require(gs is not None, "lattice:_getGridSize", gs, msg="grid size helper present")
    rets = [n for n in walk_local(gs.node) if isinstance(n, ast.Return)]
    if rets:
        rv = rets[-1].value
        r.require(isinstance(rv, ast.Tuple) and len(rv.elts) == 2, "lattice:_getGridSize:returns-(nx,ny)", gs, msg="returns (number of columns, number of lines)")
    skip = next((n for n in walk_local(f.node) if isinstance(n, ast.If) and norm(n.test) == "spec == '-'"), None)
    r.require(skip is not None and isinstance(skip.body[0], ast.Continue), "lattice:placeholder-skipped", f, msg="only the placeholder is skipped")
    ap = idx.method(BP + "isotopicOptions.CustomIsotopic", "apply")
    mf = next((s for s in iter_stores(ap.node) if s.chain == "material.massFrac"), None)
    fresh = mf is not None and isinstance(mf.value, ast.Call) and (dotted(mf.value.func) in ("dict", "copy.copy", "copy.deepcopy") or call_attr(mf.value) == "copy") and "self.massFracs" in norm(mf.value)
    r.require(fresh, "custom-isotopics:copied-into-material", ap, node=mf.stmt if mf else None,
              msg="each material must receive its own COPY of the custom isotopic vector; sharing the blueprint's dict lets a material modification on one component rewrite the input for all later components")
    ck = idx.method(BP + "componentBlueprint.ComponentBlueprint", "_conformKwargs")
    skips = sorted(norm(n.test) for n in walk_local(ck.node) if isinstance(n, ast.If) and len(n.body) == 1 and isinstance(n.body[0], ast.Continue))
    # every `if <test>: continue` of the loop, wherever it stands (head of the chain, inside it, or a guard of its own)
    skipped = skips
    r.require(skipped == ["attr.name == 'flags'", "attr.name == 'latticeIDs'", "attr.name == 'shape' or val == attr.default"], "conformKwargs:frozen-skip-set", ck, msg=f"every blueprint attribute except shape/defaults/latticeIDs/flags is forwarded to the component: skips {skipped}")
    r.require(any(s.kind == "subscript" and s.chain == "kwargs" and norm(s.node.slice) == "attr.name" and norm(s.value) == "value" for s in iter_stores(ck.node)), "conformKwargs:forwards", ck, msg="forwarded under the attribute's own name")


def r4_drawing_verified(idx, r):
    """'indexed contents are either drawn as text that reads back to them or refused, never drawn incompletely':
    the dimensions of a map drawn from pure data are guessed from the data and do not fit every arrangement, so the
    drawing path must END in a verification against asciiLabelByIndices that raises on a mismatch."""
    am = idx.cls("armi.utils.asciimaps.AsciiMap")
    f = am.methods.get("gridContentsToAscii") if am is not None else None
    if f is None:
        raise AnchorMissing("AsciiMap.gridContentsToAscii")

    def verifies(g, depth=0):
        """g raises under a comparison that involves the data (directly or via locals built from it)"""
        tainted = {"asciiLabelByIndices"}
        for _ in range(3):
            for st in walk_local(g.node):
                if isinstance(st, ast.Assign) and any(isinstance(n, (ast.Attribute, ast.Name)) and (getattr(n, "attr", None) in tainted or getattr(n, "id", None) in tainted) for n in ast.walk(st.value)):
                    for t in st.targets:
                        if isinstance(t, ast.Name):
                            tainted.add(t.id)
        for n in walk_local(g.node):
            if isinstance(n, ast.Raise):  # a raise that stands under a condition on the data, whether written as `if bad: raise` or as a guard clause before it
                for t, _pol in path_conditions(g.node, n):
                    names = {getattr(x, "attr", None) or getattr(x, "id", None) for x in ast.walk(t) if isinstance(x, (ast.Attribute, ast.Name))}
                    if names & tainted:
                        return True
        return False

    def ev(n):
        if isinstance(n, ast.Call) and isinstance(n.func, ast.Attribute) and dotted(n.func.value) == "self":
            g = am.resolve(n.func.attr)
            if g is not None and verifies(g):
                return ["verified"]
        return []
    own = verifies(f)
    fl = Flow(f.node, ev).run()
    bad = [e for e in fl.normal_exits() if e.state.get("verified", (0, 0))[0] < 1]
    r.require(own or not bad, "from-data-drawing:verified-before-return", f,
              msg="gridContentsToAscii can return without comparing what it drew with asciiLabelByIndices: arrangements its guessed dimensions do not fit "
                  "(negative Cartesian indices, unevenly trimmed hex corners) are drawn incompletely or shifted instead of being refused")
    # subclasses that override the drawing path must keep the verification
    for c in idx.subclasses(am):
        g = c.methods.get("gridContentsToAscii")
        if g is None or ".tests" in c.module.name:
            continue
        sup = any(isinstance(x, ast.Call) and isinstance(x.func, ast.Attribute) and x.func.attr == "gridContentsToAscii" and isinstance(x.func.value, ast.Call) and dotted(x.func.value.func) == "super" for x in ast.walk(g.node))
        flc = Flow(g.node, ev).run()
        okc = sup or verifies(g) or not [e for e in flc.normal_exits() if e.state.get("verified", (0, 0))[0] < 1]
        r.require(okc, f"{c.name}.gridContentsToAscii:keeps-verification", g, msg="an overriding drawing path drops the verification against the data")


def r5_modification_selection(idx, r):
    """'composition after the requested material modifications': a modification entry is left out only when it is
    absent ('' or None - the documented rule, one helper). Every selection of per-block entries, block-wide and by
    component alike, must filter through that helper; a truthiness filter silently drops a requested value of 0."""
    f = idx.method("armi.reactor.blueprints.assemblyBlueprint.AssemblyBlueprint", "_createBlock")
    h = idx.method("armi.reactor.blueprints.assemblyBlueprint.AssemblyBlueprint", "_shouldMaterialModiferBeApplied")
    if f is None or h is None:
        raise AnchorMissing("AssemblyBlueprint._createBlock / _shouldMaterialModiferBeApplied")
    rets = [x for x in walk_local(h.node) if isinstance(x, ast.Return) and x.value is not None]
    txt = norm(rets[0].value) if len(rets) == 1 else ""
    r.require("is not None" in txt and "!= ''" in txt and "0" not in txt.replace("''", ""), "helper:only-absent-entries-skipped", h, node=rets[0] if rets else h.node,
              msg=f"the helper must reject exactly '' and None: `{txt}`")
    idxname = f.params()[-1]
    comps = [n for n in ast.walk(f.node) if isinstance(n, ast.DictComp) and isinstance(n.value, ast.Subscript) and norm(n.value.slice) == idxname]
    if not comps:
        raise AnchorMissing("_createBlock: selection of per-block modification entries")
    for i, c in enumerate(comps):
        ifs = c.generators[0].ifs
        ok = len(ifs) == 1 and isinstance(ifs[0], ast.Call) and call_attr(ifs[0]) == h.name and len(ifs[0].args) == 1 and norm(ifs[0].args[0]) == norm(c.value)
        r.require(ok, f"selection#{i}:{norm(c.generators[0].iter)[:40]}", f, node=c,
                  msg=f"entries of `{norm(c.generators[0].iter)[:40]}` are selected by `{' and '.join(norm(x) for x in ifs) or 'no filter'}` instead of "
                      f"{h.name}(entry): a requested modification of 0 / 0.0 is dropped (or an absent one applied)")


def r6_override_order(idx, r):
    """'composition after the requested material modifications and isotopic overrides': the custom isotopic vector is
    the component's base composition and the material modifications are applied to it - the override must not come
    after the modifications (it would erase them), and both come before elemental expansion."""
    f = idx.method("armi.reactor.blueprints.componentBlueprint.ComponentBlueprint", "_constructMaterial")
    if f is None:
        raise AnchorMissing("ComponentBlueprint._constructMaterial")

    def ev(n):
        if isinstance(n, ast.Call):
            d = dotted(n.func) or ""
            if d.endswith("customIsotopics.apply"):
                return ["override"]
            if call_attr(n) == "applyInputParams":
                return ["mods"]
            if d.split(".")[-1] == "expandElementals":
                return ["expand"]
        return []
    fl = Flow(f.node, ev).run()
    ov = [c for c in iter_calls(f.node) if ev(c) == ["override"]]
    md = [c for c in iter_calls(f.node) if ev(c) == ["mods"]]
    ex = [c for c in iter_calls(f.node) if ev(c) == ["expand"]]
    if not ov or not md or not ex:
        raise AnchorMissing("_constructMaterial: customIsotopics.apply / applyInputParams / expandElementals")
    for c in ov:
        st = fl.state_before(c) or {}
        r.require(st.get("mods", (0, 0))[1] == 0, "override-before-modifications", f, node=c,
                  msg="the custom isotopic vector is applied AFTER the material modifications: it overwrites the composition they produced, so requested enrichment / alloy modifications are lost")
        r.require(st.get("expand", (0, 0))[1] == 0, "override-before-expansion", f, node=c, msg="custom isotopics must be applied before elementals are expanded")


def r7_specifier_tables(idx, r):
    """A lattice map names designs by specifier. (a) The table that resolves specifiers to assembly designs must refuse a
    second design with the same specifier (otherwise the later design silently takes every position of the earlier one).
    (b) Where pin-lattice specifiers are matched against a component's latticeIDs, both sides are brought to the same type
    (IDs are coerced to str; specifiers of an explicit `grid contents` list may be integers)."""
    bp = idx.method("armi.reactor.blueprints.Blueprints", "_prepConstruction")
    if bp is None:
        raise AnchorMissing("Blueprints._prepConstruction")
    stores = [s_ for s_ in iter_stores(bp.node) if s_.kind == "subscript" and norm(s_.node.value) == "self._assembliesBySpecifier"]
    if not stores:
        raise AnchorMissing("_prepConstruction: store into _assembliesBySpecifier")
    for s_ in stores:
        key = norm(s_.node.slice)
        conds = path_conditions(bp.node, s_.stmt)
        guarded = any(not pol and isinstance(t, ast.Compare) and isinstance(t.ops[0], ast.In) and norm(t.left) == key and norm(t.comparators[0]) == "self._assembliesBySpecifier" for t, pol in conds)
        r.require(guarded, "assemblies-by-specifier:duplicate-refused", bp, node=s_.stmt,
                  msg=f"`{norm(s_.stmt)[:80]}` overwrites an earlier design with the same specifier without complaint: the map positions of the first design are "
                      "all built from the second ('duplicate names are refused' does not cover specifiers)")
    gl = idx.method("armi.reactor.blueprints.gridBlueprint.GridBlueprint", "getLocators")
    if gl is None:
        raise AnchorMissing("GridBlueprint.getLocators")
    ids = [p for p in gl.params() if p != "self"][-1]
    coerced = any(isinstance(st, ast.Assign) and norm(st.targets[0]) == ids and "str(" in norm(st.value) for st in walk_local(gl.node))
    tests = [n for n in ast.walk(gl.node) if isinstance(n, ast.Compare) and isinstance(n.ops[0], ast.In) and norm(n.comparators[0]) == ids]
    if not tests:
        raise AnchorMissing("getLocators: membership test against latticeIDs")
    for t in tests:
        left_str = isinstance(t.left, ast.Call) and dotted(t.left.func) == "str"
        r.require(coerced == left_str, f"lattice-ids:same-type:{norm(t)[:40]}", gl, node=t,
                  msg=f"`{ids}` is coerced to strings but `{norm(t.left)}` is compared as it is: an integer specifier from an explicit `grid contents` list never matches, "
                      "so the component is placed at none of its lattice positions")


def r7b_explicit_list_specifiers(idx, r):
    """Assembly designs are registered under string specifiers.  The specifiers of an explicit `grid contents` list are whatever YAML parsed
    (`[0, 0]: 1` is an integer): where such an entry is resolved to a design it must be brought to a string first, as the lattice-map path does
    implicitly - otherwise the same core is accepted as a text map and fails with a bare KeyError as a list."""
    f = idx.method("armi.reactor.blueprints.reactorBlueprint.SystemBlueprint", "_loadComposites")
    if f is None:
        raise AnchorMissing("SystemBlueprint._loadComposites")
    loop = next((n for n in walk_local(f.node) if isinstance(n, ast.For) and isinstance(n.iter, ast.Call) and call_attr(n.iter) == "items" and isinstance(n.target, ast.Tuple) and len(n.target.elts) == 2), None)
    call = next((c for c in iter_calls(f.node) if call_attr(c) == "constructAssem"), None)
    if loop is None or call is None:
        raise AnchorMissing("_loadComposites: loop over gridContents.items() calling constructAssem")
    spec = next((k.value for k in call.keywords if k.arg == "specifier"), call.args[1] if len(call.args) > 1 else None)
    raw = norm(loop.target.elts[1])
    v = propagate(spec, single_assign_env(f.node)) if spec is not None else None
    r.require(v is not None and isinstance(v, ast.Call) and dotted(v.func) == "str" and norm(v.args[0]) == raw, "explicit-list:specifier-as-string", f, node=call,
              msg=f"the design is looked up with `{norm(v) if v is not None else '?'}` as parsed from the list: an integer-looking specifier (`[0,0]: 1`) raises KeyError(1) although the same core "
                  "written as a lattice map builds")


def r10_expansion_accumulates(idx, r):
    """Expanding an element of a custom isotopic vector into its isotopes ADDS to what the vector already says about those isotopes (a vector may
    name ZR and ZR90): entering the expanded fractions with dict.update / plain assignment overwrites the explicit entry and the composition no
    longer sums to what the blueprint wrote."""
    f = idx.func("armi.utils.densityTools.expandElementalMassFracsToNuclides")
    if f is None:
        raise AnchorMissing("densityTools.expandElementalMassFracsToNuclides")
    mf = f.params()[0]
    upd = [c for c in iter_calls(f.node) if call_attr(c) == "update" and norm(c.func.value) == mf]
    r.require(not upd, "elemental-expansion:no-overwrite-by-update", f, node=upd[0] if upd else None,
              msg=f"`{norm(upd[0]) if upd else ''}` replaces an isotope fraction the vector gave explicitly by the share expanded from the element: the entry is lost (U235 0.2, U238 0.3, ZR 0.3, "
                  "ZR90 0.2 gives density 8 instead of 10)")
    sts = [s_ for s_ in iter_stores(f.node) if s_.kind in ("subscript", "subscript-aug") and norm(s_.node.value) == mf]
    for s_ in sts:
        acc = s_.kind == "subscript-aug" or (s_.value is not None and any(isinstance(x, ast.Call) and call_attr(x) == "get" and norm(x.func.value) == mf for x in ast.walk(s_.value))) \
            or (s_.value is not None and any(isinstance(x, ast.Subscript) and norm(x.value) == mf for x in ast.walk(s_.value)))
        r.require(acc, f"elemental-expansion:entry-accumulates:{norm(s_.node.slice)}", f, node=s_.stmt, msg=f"`{norm(s_.stmt)}` overwrites what the vector already holds for that nuclide")
    if not sts and not upd:
        raise AnalysisError("expandElementalMassFracsToNuclides: how the expanded fractions enter the vector was not recognised")


def r8_override_and_pitch_order(idx, r):
    """(a) A modification given for a specific component overrides the block-wide one of the same name: in
    _filterMaterialInput the block-wide entries are entered first, the component's own afterwards.
    (b) When the core pitch is inferred from the first assembly of a Cartesian core, the (x, y) pair obtained from
    getPitch() is handed to changePitch in the same order."""
    f = idx.method("armi.reactor.blueprints.blockBlueprint.BlockBlueprint", "_filterMaterialInput")
    if f is None:
        raise AnchorMissing("BlockBlueprint._filterMaterialInput")

    def kind(st_):
        conds = [norm(t) for t, pol in path_conditions(f.node, st_) if pol]
        par_iter = [norm(n.iter) for n in ast.walk(f.node) if isinstance(n, ast.For) and st_ in list(ast.walk(n))]
        if any("componentDesign.name" in c for c in conds):
            return "component"
        if any("byBlock" in it for it in par_iter):
            return "block"
        return None
    stores = [x for x in walk_local(f.node) if isinstance(x, ast.Assign) and isinstance(x.targets[0], ast.Subscript) and "filteredMaterialInput" in norm(x.targets[0].value)]
    kinds = {id(x): kind(x) for x in stores}
    if sorted(k for k in kinds.values() if k) != ["block", "component"]:
        raise AnalysisError(f"_filterMaterialInput: block-wide and by-component stores not identified: {list(kinds.values())}")
    fl = Flow(f.node, lambda n: ["component-entered"] if id(n) in kinds and kinds[id(n)] == "component" else []).run()
    blk = next(x for x in stores if kinds[id(x)] == "block")
    sb = fl.state_before(blk) or {}
    r.require(sb.get("component-entered", (0, 0))[1] == 0, "material-input:component-overrides-block", f, node=blk,
              msg="the block-wide modifications are entered AFTER the component's own: where both name the same modification the block-wide value overwrites the one requested for this component")
    g = idx.method("armi.reactor.blueprints.reactorBlueprint.SystemBlueprint", "_modifyGeometry")
    if g is None:
        raise AnchorMissing("SystemBlueprint._modifyGeometry")
    unp = [x for x in walk_local(g.node) if isinstance(x, ast.Assign) and isinstance(x.targets[0], ast.Tuple) and isinstance(x.value, ast.Call) and call_attr(x.value) == "getPitch"]
    if not unp:
        raise AnchorMissing("_modifyGeometry: unpacking of the Cartesian pitch")
    for u in unp:
        names = [norm(e) for e in u.targets[0].elts]
        calls = [c for c in iter_calls(g.node) if call_attr(c) == "changePitch" and len(c.args) == len(names) and {norm(a) for a in c.args} == set(names)]
        r.require(bool(calls) and all([norm(a) for a in c.args] == names for c in calls), "cartesian-pitch:same-order", g, node=u,
                  msg=f"getPitch() is unpacked as ({', '.join(names)}) but changePitch receives ({', '.join(norm(a) for a in calls[0].args) if calls else '?'}): x and y pitch are exchanged, "
                      "assemblies of a core with rectangular cells are not where the map puts them")


def r9_dispatch_and_explicit_flags(idx, r):
    """(a) asciiMapFromGeomAndDomain hands out a map class drawn for the requested domain: a `...Full...` layout only for FULL_CORE, a
    `...Third...` layout only for THIRD_CORE (a one-third corners-up lattice read with the full-core tips-up layout puts the pins at other
    indices without any error).  (b) flags written explicitly in a component blueprint are the component's flags: nothing is OR-ed onto
    them; the automatic DEPLETABLE applies only when no flags were given."""
    f = idx.func(AM + ".asciiMapFromGeomAndDomain")
    dom = {"Full": "FULL_CORE", "Third": "THIRD_CORE", "Quarter": "QUARTER_CORE"}
    n = 0
    for x in [x for x in walk_local(f.node) if isinstance(x, ast.Return) and isinstance(x.value, ast.Name)]:
        want = next((v for k, v in dom.items() if k in x.value.id), None)
        if want is None:
            continue
        n += 1
        conds = [norm(t) for t, p in path_conditions(f.node, x) if p]
        r.require(any(("DomainType." + want) in c and "==" in c for c in conds), f"dispatch:{x.value.id}:only-for-{want}", f, node=x,
                  msg=f"`{norm(x)}` is reached under {conds}: the {x.value.id} layout is handed out for domains other than {want}, so a map of another symmetry is read with the wrong layout "
                      "(silently for pin lattices)")
    for d in [d for d in ast.walk(f.node) if isinstance(d, ast.Dict)]:
        for kx, vx in zip(d.keys, d.values):
            if isinstance(kx, ast.Tuple) and len(kx.elts) == 2 and isinstance(vx, ast.Name):
                want = next((v for k, v in dom.items() if k in vx.id), None)
                if want is None:
                    continue
                n += 1
                r.require(norm(kx.elts[1]).endswith("DomainType." + want), f"dispatch-table:{vx.id}:keyed-by-{want}", f, node=kx, msg=f"the {vx.id} layout is registered for `{norm(kx.elts[1])}`")
    if n < 3:
        raise AnalysisError(f"asciiMapFromGeomAndDomain: only {n} domain-specific layouts found")
    g = idx.func("armi.reactor.blueprints.componentBlueprint._setComponentFlags")
    comp, flg = g.params()[0], g.params()[1]
    sts = [s_ for s_ in iter_stores(g.node) if s_.chain == f"{comp}.p.flags"]
    if len(sts) < 2:
        raise AnchorMissing("_setComponentFlags: explicit assignment and automatic DEPLETABLE")
    for s_ in sts:
        conds = {(norm(t), p) for t, p in path_conditions(g.node, s_.stmt)}
        explicit = s_.kind == "assign" and isinstance(s_.value, ast.Call) and dotted(s_.value.func) == "Flags.fromString"
        if explicit:
            r.require((f"{flg} is not None", True) in conds or (f"{flg} is None", False) in conds, "flags:explicit-applied-when-given", g, node=s_.stmt, msg="explicit flags are applied when given")
        else:
            r.require((f"{flg} is not None", False) in conds or (f"{flg} is None", True) in conds, "flags:automatic-only-without-explicit", g, node=s_.stmt,
                      msg=f"`{norm(s_.stmt)}` also runs when the blueprint gave explicit flags: the component gets flags the blueprint does not name (DEPLETABLE switches depletion on for it)")


def r11_custom_density_dimensions(idx, r):
    """A custom isotopic density is the density at the INPUT temperature; the component stores number densities for its hot dimensions.  The
    factor applied to a solid is (1 + dL/L)^-d with d the number of directions in which the stored geometry expands: 2 (the cross-section) when
    the block heights of the input are already hot, 3 when they are cold and the assembly is expanded axially afterwards.  Both cases must be
    present, selected by the hot-heights switch, with those exponents."""
    f = idx.func("armi.reactor.blueprints.componentBlueprint.ComponentBlueprint._setComponentCustomDensity") or idx.method("armi.reactor.blueprints.componentBlueprint.ComponentBlueprint", "_setComponentCustomDensity")
    if f is None:
        raise AnchorMissing("ComponentBlueprint._setComponentCustomDensity")
    pw = [x for x in walk_local(f.node) if isinstance(x, ast.BinOp) and isinstance(x.op, ast.Pow) and isinstance(x.right, ast.Constant) and "dLL" in norm(x.left)]
    got = {}
    for x in pw:
        conds = [(norm(t), p) for t, p in path_conditions(f.node, x) if "inputHeightsConsideredHot" in norm(t)]
        got[x.right.value] = conds[0][1] if conds else None
    r.require(got == {2: True, 3: False}, "custom-density:2D-when-heights-are-hot-3D-when-cold", f, node=pw[0] if pw else None,
              msg=f"exponents of (1 + dL/L) found: {got} (value: under inputHeightsConsideredHot true/false/unconditional); with cold input heights the axial expansion applied later needs the third "
                  "power, otherwise the built component is (1 + dL/L) too dense")


def r12_skips_mixes_and_refused_maps(idx, r):
    """(a) assemblies exempted from the cold-to-hot axial expansion are those that HAVE one of the listed flags (inexact match, as everywhere
    else a flag list selects assemblies): an exact match silently expands `control test`.  (b) applyIsotopicsMix re-normalises every heavy-metal
    nuclide of the material, also one that neither feed lists - the loop runs over the union of both feeds AND the material's own nuclides.
    (c) when the lattice map of a grid cannot be drawn as text, the partially built map is discarded before the writer decides between map and
    explicit contents."""
    f = idx.method("armi.reactor.blueprints.Blueprints", "_prepConstruction")
    hf = [c for c in ast.walk(f.node) if isinstance(c, ast.Call) and call_attr(c) == "hasFlags" and any(isinstance(g, ast.comprehension) and norm(g.iter) == "assemsToSkip" for x in ast.walk(f.node) if isinstance(x, (ast.GeneratorExp, ast.ListComp)) and c in list(ast.walk(x)) for g in x.generators)]
    if not hf:
        raise AnchorMissing("_prepConstruction: a.hasFlags(f) for f in assemsToSkip")
    for c in hf:
        ex = [k for k in c.keywords if k.arg in ("exact", "exactMatch")] + list(c.args[1:2])
        r.require(not ex or all(norm(getattr(k, "value", k)) == "False" for k in ex), "axial-expansion-skip:flag-subset-match", f, node=c,
                  msg=f"`{norm(c)}` exempts only assemblies whose flags are exactly a listed flag: `control test` or `secondary control` is expanded although `control` is listed, so its block heights differ from the blueprint")
    g = idx.func("armi.utils.densityTools.applyIsotopicsMix")
    loop = next((x for x in walk_local(g.node) if isinstance(x, ast.For) and "enrichedMassFracs" in norm(x.iter)), None)
    if loop is None:
        raise AnchorMissing("applyIsotopicsMix: loop over the nuclides to set")
    it = norm(propagate(loop.iter, single_assign_env(g.node)))
    r.require("fertileMassFracs" in it and ".massFrac" in it, "isotopics-mix:every-nuclide-of-the-material", g, node=loop,
              msg=f"the blend is written for `{it[:90]}` only: a heavy-metal nuclide the material holds but neither feed lists (U235 of UZr blended from Pu and depleted U) keeps its old fraction and the composition sums to more than one")
    h = idx.func("armi.reactor.blueprints.gridBlueprint.saveToStream")
    trys = [x for x in walk_local(h.node) if isinstance(x, ast.Try) and any(isinstance(c, ast.Call) and call_attr(c) == "gridContentsToAscii" for c in ast.walk(ast.Module(body=x.body, type_ignores=[])))]
    if len(trys) != 1:
        raise AnchorMissing("saveToStream: try around aMap.gridContentsToAscii()")
    mp = next((norm(c.func.value) for c in ast.walk(ast.Module(body=trys[0].body, type_ignores=[])) if isinstance(c, ast.Call) and call_attr(c) == "gridContentsToAscii"), "aMap")
    for hd in trys[0].handlers:
        okh = any(isinstance(st_, (ast.Raise, ast.Continue, ast.Return)) for st_ in hd.body) or any(isinstance(st_, ast.Assign) and norm(st_) == f"{mp} = None" for st_ in hd.body)
        r.require(okh, "saveToStream:refused-map-discarded", h, node=hd,
                  msg=f"the handler swallows the refusal but keeps `{mp}`: the partially drawn map is then written as the lattice map and the explicit grid contents are dropped - the file reads back to other contents")


def r13_zero_valued_modifications(idx, r):
    """Material modifications reach the materials as keyword arguments of applyInputParams, absent ones as None.  Zero is a legitimate
    fraction (0 % enrichment, no class-1 feed): an optional argument is compared with None, never evaluated for truth - the same rule the
    blueprint side obeys (R18.5)."""
    from ..astutil import optional_params
    n = 0
    for m in idx.modules.values():
        if not m.name.startswith("armi.materials") or ".tests" in m.name:
            continue
        for f in m.all_funcs():
            if f.name != "applyInputParams" or f.cls is None:
                continue
            opt = set(optional_params(f.node))
            if not opt:
                continue
            n += 1
            bad = []
            for x in ast.walk(f.node):
                tests = []
                if isinstance(x, (ast.If, ast.IfExp, ast.While)):
                    tests.append(x.test)
                elif isinstance(x, ast.BoolOp):
                    tests.extend(x.values)
                elif isinstance(x, ast.UnaryOp) and isinstance(x.op, ast.Not):
                    tests.append(x.operand)
                bad += [t for t in tests if isinstance(t, ast.Name) and t.id in opt]
            r.require(not bad, f"{f.cls.name}.applyInputParams:optional-arguments-compared-with-None", f, node=bad[0] if bad else None,
                      msg=f"`{bad[0].id if bad else ''}` is evaluated for truth: a modification of exactly 0 (0.0 weight fraction) is ignored and the library default composition is built instead of the one the blueprint asks for")
    if n < 5:
        raise AnalysisError(f"only {n} applyInputParams with optional arguments found")


def r14_total_on_wellformed_input(idx, r):
    """(a) `origin` of a system is optional (default None): construct() must not dereference it without a None test.  (b) the grid geometry
    is dispatched by an if/elif chain; a geometry name it does not know (or knows in another capitalisation than the lattice reader accepts)
    must end in an input error, not fall through with the grid unbound; the name is normalised before it is compared."""
    f = idx.method("armi.reactor.blueprints.reactorBlueprint.SystemBlueprint", "construct")
    deref = [x for x in walk_local(f.node) if isinstance(x, ast.Attribute) and norm(x.value) == "self.origin"]
    for x in deref:
        conds = " ".join(norm(t) for t, _p in path_conditions(f.node, x))
        r.require("self.origin" in conds, "system-origin:optional-attribute-tested", f, node=x,
                  msg=f"`{norm(x)}` dereferences the optional `origin` (default None) unconditionally: a `systems` entry without an origin - allowed by the schema - dies with AttributeError")
    r.ok("system-origin:scanned", f)
    g = idx.method("armi.reactor.blueprints.gridBlueprint.GridBlueprint", "_constructSpatialGrid")
    chain = next((x for x in g.node.body if isinstance(x, ast.If) and "geometry.HEX" in norm(x.test)), None)
    if chain is None:
        raise AnchorMissing("_constructSpatialGrid: the HEX / CARTESIAN dispatch")
    cur, last = chain, None
    while True:
        if len(cur.orelse) == 1 and isinstance(cur.orelse[0], ast.If):
            cur = cur.orelse[0]
            continue
        last = cur
        break
    ends_in_refusal = any(isinstance(y, ast.Raise) for y in last.body) or any(isinstance(y, ast.Raise) for y in last.orelse)
    r.require(ends_in_refusal, "grid-geometry:unknown-name-refused", g, node=last,
              msg="the geometry dispatch has no refusing last branch: an unknown geometry name falls through and the method fails later with UnboundLocalError instead of an input error naming the problem")
    gv = next((s_ for s_ in iter_stores(g.node) if s_.attr == "geom" and isinstance(s_.node, ast.Name) and s_.value is not None), None)
    r.require(gv is not None and any(isinstance(c, ast.Call) and call_attr(c) == "lower" for c in ast.walk(gv.value)), "grid-geometry:name-normalised", g, node=gv.stmt if gv else None,
              msg="the geometry name is compared as written: `geom: Hex`, which the lattice reader and GeomType accept, matches no branch")


def r15_area_check_covers_every_design(idx, r):
    """Blueprints._checkAssemblyAreaConsistency refuses assemblies of different area and assemblies whose blocks differ in area.  The loop
    over the assembly designs may leave an iteration early only for R-Z assemblies (whose areas differ by definition): any other `continue`
    exempts a design - e.g. the one taken as the reference - from the per-block comparison."""
    f = idx.method("armi.reactor.blueprints.Blueprints", "_checkAssemblyAreaConsistency")
    loops = [x for x in f.node.body if isinstance(x, ast.For)]
    if len(loops) != 1:
        raise AnchorMissing("_checkAssemblyAreaConsistency: the loop over the assemblies")
    inner = [x for x in walk_local(loops[0]) if isinstance(x, ast.For) and x is not loops[0]]
    raises = [x for x in walk_local(loops[0]) if isinstance(x, ast.Raise)]
    if not inner or len(raises) < 2:
        raise AnchorMissing("_checkAssemblyAreaConsistency: the per-block comparison and the two refusals")
    for x in walk_local(loops[0]):
        if isinstance(x, ast.Continue) and not any(x in list(walk_local(i)) for i in inner):
            conds = [norm(t) for t, pol in path_conditions(f.node, x) if pol]
            r.require(any("RZAssembly" in c for c in conds), "area-check:only-RZ-assemblies-skipped", f, node=x,
                      msg=f"an assembly design leaves the consistency loop early under {conds or 'no condition'}: its blocks are never compared with each other, so a design with blocks of different area is accepted")
    pc = [norm(t) for t, _p in path_conditions(f.node, inner[0]) if {x.id for x in ast.walk(t) if isinstance(x, ast.Name)} <= {"references", "None"}]
    r.require(not pc, "area-check:block-comparison-for-the-reference-too", f, node=inner[0],
              msg=f"the per-block comparison runs only under {pc}: the reference design is exempt")


def r16_grid_size_flags_pairing(idx, r):
    """(a) a text lattice map is centred with the size _getGridSize reports: EVALUATED (MiniEval) on five index sets - rectangular ones with
    more columns than rows and the reverse included - it returns (extent in i, extent in j).  (b) explicit `flags:` of an assembly design
    REPLACE the flags derived from its name: the store into `a.p.flags` under `self.flags is not None` is a plain assignment of the parsed
    flags (an `|=` keeps the name-derived ones).  (c) argument pairing over the blueprint modules: e.g. NuclideFlag(name, burn, xs, expandTo)
    gets each value at the parameter of its name."""
    from ..minieval import MiniEval
    from ..pairing import pairing_rule
    f = idx.func("armi.reactor.blueprints.gridBlueprint._getGridSize")
    prm = f.params()[0]
    sets_ = [[(0, 0)], [(0, 0), (2, 4)], [(-1, -2), (1, 2), (0, 0)], [(0, 0), (4, 1)], [(3, 3), (5, 9), (4, 4)]]
    bad = []
    for keys in sets_:
        got, _ = MiniEval().run(f.node, {prm: list(keys)})
        want = (max(k[0] for k in keys) - min(k[0] for k in keys) + 1, max(k[1] for k in keys) - min(k[1] for k in keys) + 1)
        if tuple(got) != want:
            bad.append((keys, tuple(got), want))
    r.require(not bad, "_getGridSize:extent-per-axis", f, msg=f"(indices, result, expected) = {bad[:2]}: a map with different numbers of rows and columns is centred with the wrong offset and every specifier lands on a shifted cell")
    g = idx.method("armi.reactor.blueprints.assemblyBlueprint.AssemblyBlueprint", "_constructAssembly")
    sts = [s_ for s_ in iter_stores(g.node) if s_.chain and s_.chain.endswith(".p.flags")]
    if len(sts) != 1:
        raise AnchorMissing("_constructAssembly: the store of explicit flags")
    st = sts[0]
    conds = [norm(t) for t, p in path_conditions(g.node, st.stmt) if p]
    val = st.value
    if isinstance(val, ast.Name):
        # the definition of that local that reaches the store: the last assignment before it in the same guarded block
        prev = [x for x in walk_local(g.node) if isinstance(x, ast.Assign) and any(norm(t) == val.id for t in x.targets) and x.lineno < st.stmt.lineno]
        val = prev[-1].value if prev else None
    okf = st.kind == "assign" and isinstance(st.stmt, ast.Assign) and any("self.flags" in c for c in conds) and val is not None and "fromString(self.flags)" in norm(val)
    r.require(okf, "_constructAssembly:explicit-flags-replace-the-derived-ones", g, node=st.stmt,
              msg=f"`{norm(st.stmt)}` does not assign exactly the parsed `flags:` entry: the assembly keeps flags derived from its name that the blueprint did not list")
    pairing_rule(idx, r, ["armi.reactor.blueprints"], 100)


def r17_corner_lines_and_shapes(idx, r):
    """(a) a flats-up hex text map with trimmed corners: how many lines were trimmed is read off the LENGTH of the bottom text row - every
    position of it, placeholders included.  Counting only the filled positions shifts every entry of a map that has a hole in its bottom row.
    (b) argument pairing over the component shapes (constructor arguments reach `_linkAndStoreDimensions` under their own names)."""
    from ..pairing import pairing_rule
    n = 0
    for c in idx.module("armi.utils.asciimaps").all_funcs():
        if c.name != "_updateDimensionsFromAsciiLines":
            continue
        env = single_assign_env(c.node)
        for s_ in iter_stores(c.node):
            if s_.chain == "self._asciiLinesOffCorner" and s_.value is not None:
                n += 1
                v = propagate(s_.value, env)
                txt = norm(v)
                r.require("PLACEHOLDER" not in txt and "len(self.asciiLines[" in txt and not any(isinstance(x, (ast.ListComp, ast.GeneratorExp)) for x in ast.walk(v)), f"{c.qualname}:trimmed-corner-lines-from-the-row-length", c, node=s_.stmt,
                          msg=f"`{txt[:80]}`: the number of trimmed corner lines is not the plain length of a text row - placeholders are positions too, and a map with a hole in that row is read at shifted indices")
    if n < 1:
        raise AnchorMissing("asciimaps: _asciiLinesOffCorner from the ascii lines")
    pairing_rule(idx, r, ["armi.reactor.components", "armi.utils.asciimaps"], 30)


def r18_shifted_line_pitch_axes_star_args(idx, r):
    """(a) the flats-up hex map readers shift the text line number by the trimmed corner lines; once the shifted number exists, the function
    works with it alone - a later read of the un-shifted number (a parity test, an index) puts the rows of a map with an odd number of trimmed
    lines on the wrong ray.  (b) GridBlueprint hands the x pitch of a Cartesian lattice to fromRectangle as the cell WIDTH and the y pitch as
    the HEIGHT.  (c) a material's applyInputParams that accepts *args / **kwargs hands BOTH on to the base implementation it delegates to: the
    class1/class2 blending options travel in the keywords."""
    n = 0
    for f in idx.module("armi.utils.asciimaps").all_funcs():
        ps = set(f.params()[1:])
        for st in walk_local(f.node):
            tgt = None
            if isinstance(st, ast.Assign) and isinstance(st.targets[0], ast.Name) and isinstance(st.value, ast.BinOp) and isinstance(st.value.left, ast.Name) and st.value.left.id in ps and "_asciiLinesOffCorner" in norm(st.value.right):
                tgt, raw = st.targets[0].id, st.value.left.id
            elif isinstance(st, ast.AugAssign) and isinstance(st.target, ast.Name) and st.target.id in ps and "_asciiLinesOffCorner" in norm(st.value):
                n += 1
                continue
            if tgt is None or tgt == raw:
                continue
            n += 1
            later = [x for x in walk_local(f.node) if isinstance(x, ast.Name) and x.id == raw and isinstance(x.ctx, ast.Load) and x.lineno > st.lineno]
            r.require(not later, f"{f.qualname}:only-the-shifted-line-number-after-the-shift", f, node=later[0] if later else None,
                      msg=f"`{raw}` is read again after `{tgt}` = {raw} + trimmed lines was formed: with an odd number of trimmed corner lines the row is assigned to the wrong ray and every entry of the map shifts")
    if n < 1:
        raise AnchorMissing("asciimaps: shift of the line number by _asciiLinesOffCorner")
    g = idx.method("armi.reactor.blueprints.gridBlueprint.GridBlueprint", "_constructSpatialGrid")
    fr = [c for c in iter_calls(g.node) if call_attr(c) == "fromRectangle"]
    if len(fr) != 1:
        raise AnchorMissing("_constructSpatialGrid: CartesianGrid.fromRectangle")
    env = {}
    for st in walk_local(g.node):
        if isinstance(st, ast.Assign) and isinstance(st.targets[0], ast.Tuple) and all(isinstance(e, ast.Name) for e in st.targets[0].elts) and len(st.targets[0].elts) == 2:
            v = st.value.body if isinstance(st.value, ast.IfExp) else st.value
            if isinstance(v, ast.Tuple) and len(v.elts) == 2:
                env[st.targets[0].elts[0].id], env[st.targets[0].elts[1].id] = norm(v.elts[0]), norm(v.elts[1])
    w, h = get_arg_(fr[0], 0, "width"), get_arg_(fr[0], 1, "height")
    wt = env.get(norm(w), norm(w)) if w is not None else ""
    ht = env.get(norm(h), norm(h)) if h is not None else ""
    r.require(wt.endswith(".x") and ht.endswith(".y"), "fromRectangle:x-pitch-is-the-width", g, node=fr[0],
              msg=f"fromRectangle gets width = `{wt}` and height = `{ht}`: with a non-square lattice pitch every assembly sits at (i * y pitch, j * x pitch)")
    k = 0
    for f in idx.all_funcs():
        if not f.module.name.startswith("armi.materials") or ".tests" in f.module.name or f.cls is None:
            continue
        a = f.node.args
        if a.vararg is None and a.kwarg is None:
            continue
        for c in iter_calls(f.node):
            if call_attr(c) == f.name and (norm(c.func).startswith("super()") or (c.args and norm(c.args[0]) == "self")):
                k += 1
                va = any(isinstance(x, ast.Starred) and norm(x.value) == a.vararg.arg for x in c.args) if a.vararg else True
                kw = any(k_.arg is None and norm(k_.value) == a.kwarg.arg for k_ in c.keywords) if a.kwarg else True
                r.require(va and kw, f"{f.cls.name}.{f.name}:star-arguments-handed-on", f, node=c,
                          msg=f"`{norm(c)[:80]}` drops {'*' + a.vararg.arg if not va else ''}{' ' if not va and not kw else ''}{'**' + a.kwarg.arg if not kw else ''}: modifications meant for the base class (class1/class2 isotopics blending) are silently ignored for this material")
    if k < 5:
        raise AnchorMissing("material methods delegating with *args/**kwargs")


def get_arg_(c, pos, name):
    for k_ in c.keywords:
        if k_.arg == name:
            return k_.value
    return c.args[pos] if pos < len(c.args) else None


def _resolve_local(e, env, depth=6):
    """follow single-assignment locals to the ORIGINAL node that is evaluated (its position in the function is what the flow analysis needs)"""
    while isinstance(e, ast.Name) and e.id in env and depth:
        e, depth = env[e.id], depth - 1
    return e


def r19_merge_conserves_solvent_atoms(idx, r):
    """A component with `mergeWith:` is dissolved into its solvent: S.mergeNuclidesInto(V) adds the solute's atoms, per NEW area of V, to
    V's number densities as they stand.  Atoms are conserved (A_new N_new = A_S N_S + A_old N_old) only when the caller has multiplied V's
    own densities by A_old / A_new before - on EVERY path to the merge (a DerivedShape solvent grows too: by the removal of the solute), once,
    with A_old read before anything enlarged V and A_new read after V has its final dimensions.  Family: every caller of mergeNuclidesInto."""
    n = 0
    for m in idx.modules.values():
        if ".tests" in m.name or "mergeNuclidesInto" not in m.src:
            continue
        for f in m.all_funcs():
            merges = [c for c in iter_calls(f.node, include_nested=False) if isinstance(c.func, ast.Attribute) and c.func.attr == "mergeNuclidesInto" and len(c.args) + len(c.keywords) == 1]
            if not merges:
                continue
            env = single_assign_env(f.node)
            for mc in merges:
                n += 1
                solute = norm(mc.func.value)
                vnode = mc.args[0] if mc.args else mc.keywords[0].value
                if dotted(vnode) is None:
                    r.undecided(f"{f.qualname}:merge-target", f, "the component merged into is not a plain name", node=mc)
                    continue
                solvent = norm(vnode)
                dils = [c for c in iter_calls(f.node, include_nested=False) if call_attr(c) == "changeNDensByFactor" and isinstance(c.func, ast.Attribute) and norm(c.func.value) == solvent and len(c.args) + len(c.keywords) == 1]
                # operands of the dilution factors: (old-area read, new-area read), original nodes
                olds, news, unrec = {}, {}, []
                for d in dils:
                    fac = _resolve_local(d.args[0] if d.args else d.keywords[0].value, env)
                    num = _resolve_local(fac.left, env) if isinstance(fac, ast.BinOp) and isinstance(fac.op, ast.Div) else None
                    den = _resolve_local(fac.right, env) if num is not None else None
                    def is_area(x):
                        return isinstance(x, ast.Call) and isinstance(x.func, ast.Attribute) and x.func.attr in ("getArea", "getVolume") and norm(x.func.value) == solvent
                    if is_area(num) and is_area(den) and num.func.attr == den.func.attr:
                        olds[id(num)], news[id(den)] = num, den
                    else:
                        unrec.append(d)

                def grows(x):
                    """a call after which the solvent covers more area: its own dimensions are set, or the solute leaves the block"""
                    if not isinstance(x, ast.Call) or not isinstance(x.func, ast.Attribute):
                        return False
                    if x.func.attr == "setDimension" and norm(x.func.value) == solvent:
                        return True
                    return x.func.attr == "remove" and bool(x.args) and norm(x.args[0]) == solute

                def ev(x):
                    out = []
                    if isinstance(x, ast.Call):
                        if any(x is d for d in dils):
                            out.append("diluted")
                        if grows(x):
                            out.append("grown")
                        if id(x) in news:
                            out.append("new-area-read")
                    return out
                fl = Flow(f.node, ev).run()
                lo, hi = (fl.state_before(mc) or {}).get("diluted", (0, 0))
                where_ = sorted({" and ".join(f"{'' if p else 'not '}({norm(t)[:60]})" for t, p in path_conditions(f.node, d)) or "unconditionally" for d in dils})
                r.require(lo >= 1 and hi <= 1, f"{f.qualname}:solvent-diluted-once-on-every-path-to-the-merge", f, node=mc,
                          msg=f"`{norm(mc)}` can be reached with `{solvent}.changeNDensByFactor(old area / new area)` executed {'not at all' if lo < 1 else 'more than once'} (it runs only under: {'; '.join(where_) or 'no path at all'}): "
                              f"`{solvent}` took in the area of `{solute}` but keeps its own number densities undiluted - e.g. a wire with `mergeWith: coolant` (a DerivedShape solvent) builds a block with more "
                              "coolant atoms than the blueprint describes")
                for d in unrec:
                    r.undecided(f"{f.qualname}:dilution-factor", f, f"`{norm(d)}`: factor not recognised as <area of {solvent} before> / <area of {solvent} after>", node=d)
                for o in olds.values():
                    g = (fl.state_before(o) or {}).get("grown", (0, 0))
                    r.require(g[1] == 0, f"{f.qualname}:old-area-read-before-the-solvent-grows", f, node=o,
                              msg=f"the numerator of the dilution factor, `{norm(o)}`, is read after `{solvent}` may already have grown (setDimension on it / removal of `{solute}`): the factor is 1 where it must be "
                                  "A_old / A_new and the solvent's own atoms are over-counted")
                grow_calls = [x for x in iter_calls(f.node, include_nested=False) if grows(x)]
                if news:
                    late = [x for x in grow_calls if (fl.state_before(x) or {}).get("new-area-read", (0, 0))[1] > 0]
                    r.require(not late, f"{f.qualname}:new-area-read-after-the-solvent-has-its-final-dimensions", f, node=late[0] if late else next(iter(news.values())),
                              msg=f"`{norm(late[0]) if late else ''}` can still enlarge `{solvent}` after the new area of the dilution factor was read: the solvent's atoms are diluted for a smaller area than the one the solute is merged into")
    if n < 1:
        raise AnchorMissing("no caller of Component.mergeNuclidesInto found (how are `mergeWith:` components dissolved?)")


_CLASS_FEEDS = ("class1_custom_isotopics", "class2_custom_isotopics")
_CLASS_MODS = _CLASS_FEEDS + ("class1_wt_frac",)


def _mod_names_in(e, names):
    """which of the material-modification names an expression mentions (as a variable, an attribute or a string key)"""
    out = set()
    for x in ast.walk(e):
        s = x.id if isinstance(x, ast.Name) else x.attr if isinstance(x, ast.Attribute) else x.value if isinstance(x, ast.Constant) and isinstance(x.value, str) else None
        if s in names:
            out.add(s)
    return out


def r20_class1_class2_channel(idx, r):
    """`class1_wt_frac` is the weight fraction of the CLASS-1 feed in the heavy metal.  Followed from the blueprint keyword to the product:
    (a) each of the modifications class1_custom_isotopics / class2_custom_isotopics / class1_wt_frac is stored under its own name where a
    material receives it; (b) densityTools.applyIsotopicsMix - decided by polynomial algebra on the value it stores - writes
    H * (w * A[n] + (1 - w) * B[n]) with w = material.class1_wt_frac: A is its class-1 parameter, B its class-2 parameter; (c) every caller
    hands the vector selected by class1_custom_isotopics to A and the one selected by class2_custom_isotopics to B."""
    from ..exprnf import ExprEval, Poly
    g = idx.func("armi.utils.densityTools.applyIsotopicsMix")
    if g is None:
        raise AnchorMissing("densityTools.applyIsotopicsMix")
    ps = g.params()
    mat, feeds = ps[0], ps[1:]
    if len(feeds) != 2:
        raise AnalysisError(f"applyIsotopicsMix: expected (material, class-1 feed, class-2 feed), found {ps}")
    env = single_assign_env(g.node)
    sts = [s_ for s_ in iter_stores(g.node) if s_.kind == "subscript" and s_.chain == f"{mat}.massFrac" and s_.value is not None]
    if not sts:
        raise AnchorMissing("applyIsotopicsMix: store into material.massFrac[nuclide]")

    class _Feeds(ast.NodeTransformer):
        def visit_Call(self, x):
            if isinstance(x.func, ast.Attribute) and x.func.attr == "get" and isinstance(x.func.value, ast.Name) and x.func.value.id in feeds and not x.keywords \
                    and (len(x.args) == 1 or (len(x.args) == 2 and isinstance(x.args[1], ast.Constant) and x.args[1].value in (0, 0.0) and not isinstance(x.args[1].value, bool))):
                return ast.Name(id="__feed__" + x.func.value.id, ctx=ast.Load())
            return self.generic_visit(x)

        def visit_Subscript(self, x):
            if isinstance(x.value, ast.Name) and x.value.id in feeds:
                return ast.Name(id="__feed__" + x.value.id, ctx=ast.Load())
            return self.generic_visit(x)
    W = Poly.atom("w")
    roles = None
    for s_ in sts:
        v = _Feeds().visit(propagate(s_.value, env))
        p = ExprEval(env={**{"__feed__" + q: Poly.atom("feed:" + q) for q in feeds}, f"{mat}.class1_wt_frac": W}).ev(v)
        cs = [p.coeff("feed:" + q, 1) for q in feeds]
        lin = all(p.degree_in("feed:" + q) == (0, 1) for q in feeds) and (p - sum((c * Poly.atom("feed:" + q) for c, q in zip(cs, feeds)), Poly())).iszero()
        tot = cs[0] + cs[1]
        got = None
        if lin and not tot.iszero() and tot.degree_in("w") == (0, 0):
            if cs[0] == tot * W and cs[1] == tot - tot * W:
                got = (feeds[0], feeds[1])
            elif cs[1] == tot * W and cs[0] == tot - tot * W:
                got = (feeds[1], feeds[0])
        r.require(got is not None, "applyIsotopicsMix:blend-is-w-times-one-feed-plus-(1-w)-times-the-other", g, node=s_.stmt,
                  msg=f"`{norm(s_.stmt)[:120]}` is not H * (w * A[n] + (1 - w) * B[n]) with w = {mat}.class1_wt_frac (coefficients of the feeds: {cs[0]!r} and {cs[1]!r}): "
                      "the heavy metal is not the class1_wt_frac / (1 - class1_wt_frac) blend of the two custom isotopic vectors the blueprint names")
        if got is not None:
            if roles is not None and roles != got:
                raise AnalysisError("applyIsotopicsMix: two stores weight the feeds differently")
            roles = got
    # (a) keyword -> attribute of the same name, wherever a material receives the modifications
    na = 0
    for m in idx.modules.values():
        if not m.name.startswith("armi.materials") or ".tests" in m.name or "class1_wt_frac" not in m.src:
            continue
        for f in m.all_funcs():
            if f.cls is None or not set(f.params()) & set(_CLASS_MODS):
                continue
            fenv = single_assign_env(f.node)
            for s_ in iter_stores(f.node, include_nested=False):
                if s_.kind == "assign" and isinstance(s_.node, ast.Attribute) and s_.attr in _CLASS_MODS and s_.value is not None:
                    src = _mod_names_in(propagate(s_.value, fenv), _CLASS_MODS)
                    if not src:
                        continue
                    na += 1
                    r.require(src == {s_.attr}, f"{f.cls.name}.{f.name}:{s_.attr}-stored-under-its-own-name", f, node=s_.stmt,
                              msg=f"`{norm(s_.stmt)}` stores the modification {sorted(src)} as `{s_.attr}`: the class-1 and class-2 entries of the blueprint change places (or the weight is lost) before the blend is computed")
    if na < 3:
        raise AnchorMissing("materials: where class1_custom_isotopics / class2_custom_isotopics / class1_wt_frac are stored on the material")
    if roles is None:
        return
    # (c) every caller
    nc = 0
    want = {roles[0]: _CLASS_FEEDS[0], roles[1]: _CLASS_FEEDS[1]}
    for m in idx.modules.values():
        if ".tests" in m.name or "applyIsotopicsMix" not in m.src:
            continue
        for f in m.all_funcs():
            calls = [c for c in iter_calls(f.node, include_nested=False) if call_attr(c) == "applyIsotopicsMix"]
            if not calls:
                continue
            fenv = single_assign_env(f.node)
            for c in calls:
                if any(isinstance(a, ast.Starred) for a in c.args) or any(k_.arg is None for k_ in c.keywords):
                    r.undecided(f"{f.qualname}:applyIsotopicsMix-arguments", f, "star arguments: which vector reaches which feed is not decided", node=c)
                    continue
                nc += 1
                bound = {q: get_arg_(c, ps.index(q), q) for q in feeds}
                tags = {q: _mod_names_in(propagate(a, fenv), _CLASS_FEEDS) if a is not None else set() for q, a in bound.items()}
                if not any(tags.values()):
                    r.undecided(f"{f.qualname}:applyIsotopicsMix-arguments", f, "the feeds are not selected by class1_custom_isotopics / class2_custom_isotopics here", node=c)
                    continue
                for q in feeds:
                    r.require(tags[q] == {want[q]}, f"{f.qualname}:{want[q]}-reaches-the-feed-weighted-by-{'class1_wt_frac' if q == roles[0] else '(1-class1_wt_frac)'}", f, node=c,
                              msg=f"`{norm(c)[:100]}`: parameter `{q}` of applyIsotopicsMix is weighted by {'class1_wt_frac' if q == roles[0] else '1 - class1_wt_frac'} but receives "
                                  f"`{norm(propagate(bound[q], fenv))[:70] if bound[q] is not None else '<nothing>'}` (selected by {sorted(tags[q]) or 'neither name'}): with two different vectors and "
                                  "class1_wt_frac != 0.5 the fuel is built with the two feeds in exchanged proportions")
    if nc < 1:
        raise AnchorMissing("no caller of densityTools.applyIsotopicsMix found")


def run(idx, chk):
    chk.explanation = (
        "C18 is a relation between an input document and an object graph; static analysis claims only: (1) each lattice-map class reads and "
        "writes through the same (column, line) -> (i, j) map with the same line order, and the writer refuses incomplete drawings; (2) every "
        "attribute indexed per block is length-checked, and the check dominates construction; (3) lattice centring uses each axis' own size; the "
        "custom isotopic vector is copied into each material; component kwargs forward every attribute but a frozen skip set. Faithfulness of "
        "materials, dimensions, isotopics and determinism in general are NOT decided."
    )
    chk.undecided_clauses = ["faithfulness of the constructed model to the input text", "material modifications and isotopic overrides as values", "determinism in general"]
    chk.run_rule("R18.1", "lattice maps: one index map and one line order for reading and writing; incomplete drawings refused", lambda r: r1_lattice_maps(idx, r), floor=16,
                 necessary="a map read from text, written and read again gives the same indexed contents; never drawn incompletely")
    chk.run_rule("R18.2", "every per-block list is length-checked, the check dominates construction, block k uses entry k", lambda r: r2_per_block_lists(idx, r), floor=8, necessary="lists of unequal length are refused; blocks have the specified order/heights/xs types")
    chk.run_rule("R18.3", "lattice centring per axis; blueprint containers copied into the model; component attributes forwarded", lambda r: r3_centring_and_copies(idx, r), floor=7,
                 necessary="every location named in the map holds the specified design; construction does not rewrite its own input")
    chk.run_rule("R18.4", "a map drawn from indexed data is verified against that data before it is handed out (else refused)", lambda r: r4_drawing_verified(idx, r), floor=1,
                 necessary="'either drawn as text that reads back to them or refused, never drawn incompletely'")
    chk.run_rule("R18.5", "per-block material-modification entries are selected through the one helper that skips only '' and None", lambda r: r5_modification_selection(idx, r), floor=2,
                 necessary="'composition after the requested material modifications'")
    chk.run_rule("R18.6", "custom isotopics are applied before the material modifications, both before elemental expansion", lambda r: r6_override_order(idx, r), floor=2,
                 necessary="'composition after the requested material modifications and isotopic overrides'")
    chk.run_rule("R18.7", "specifier tables: a duplicate assembly specifier is refused; pin-lattice specifiers and lattice IDs are compared as the same type", lambda r: r7_specifier_tables(idx, r), floor=2,
                 necessary="'places, at every location named in the core and pin lattice maps (text maps and explicit lists alike), an assembly of the specified design'")
    chk.run_rule("R18.8", "component-specific material modifications override block-wide ones; an inferred Cartesian pitch keeps its (x, y) order", lambda r: r8_override_and_pitch_order(idx, r), floor=2,
                 necessary="composition 'after the requested material modifications'; assemblies 'at every location named in the core map'")
    chk.run_rule("R18.9", "map layouts are handed out for their own domain only; explicit component flags are final", lambda r: r9_dispatch_and_explicit_flags(idx, r), floor=5,
                 necessary="the built reactor has the components, positions and flags the blueprint text specifies")
    chk.run_rule("R18.7b", "specifiers of an explicit grid-contents list are resolved as strings (as the designs are registered)", lambda r: r7b_explicit_list_specifiers(idx, r), floor=1,
                 necessary="text maps and explicit lists alike place the specified design at every named location")
    chk.run_rule("R18.10", "isotopes expanded from an element are added to the isotope entries the vector already has", lambda r: r10_expansion_accumulates(idx, r), floor=1,
                 necessary="the composition after isotopic overrides is the one the blueprint text specifies")
    chk.run_rule("R18.11", "custom densities of solids are reduced by (1+dL/L)^2 for hot input heights and ^3 for cold ones", lambda r: r11_custom_density_dimensions(idx, r), floor=1,
                 necessary="the built component has the composition (mass) the blueprint text specifies")
    chk.run_rule("R18.12", "expansion exemption by flag subset; isotopic blends cover every nuclide of the material; a refused map is discarded", lambda r: r12_skips_mixes_and_refused_maps(idx, r), floor=3,
                 necessary="block heights and compositions are those of the blueprint text; indexed contents are drawn as text that reads back to them or not at all")
    chk.run_rule("R18.13", "material modifications of value zero are applied: optional applyInputParams arguments are compared with None", lambda r: r13_zero_valued_modifications(idx, r), floor=5,
                 necessary="the built composition is the one the requested material modifications specify")
    chk.run_rule("R18.14", "an absent system origin is handled; the grid-geometry dispatch normalises the name and refuses unknown ones", lambda r: r14_total_on_wellformed_input(idx, r), floor=3,
                 necessary="a well-formed blueprint builds a model; an inconsistent one is refused with an error")
    chk.run_rule("R18.15", "the assembly/block area consistency check skips only R-Z assemblies", lambda r: r15_area_check_covers_every_design(idx, r), floor=2,
                 necessary="an inconsistent blueprint is refused with an error")
    chk.run_rule("R18.16", "_getGridSize is the extent per axis (evaluated); explicit assembly flags replace derived ones; arguments stand at their parameter", lambda r: r16_grid_size_flags_pairing(idx, r), floor=3,
                 necessary="every specifier of the map lands on the cell drawn; objects carry the flags and nuclide options the blueprint states")
    chk.run_rule("R18.17", "trimmed corner lines are counted from the full row length; shape constructors hand each dimension on under its own name", lambda r: r17_corner_lines_and_shapes(idx, r), floor=2,
                 necessary="every entry of a lattice map lands on the cell it is drawn at; components have the cold dimensions the blueprint states")
    chk.run_rule("R18.18", "only the shifted line number after the shift; x pitch = width, y pitch = height; materials hand *args/**kwargs on", lambda r: r18_shifted_line_pitch_axes_star_args(idx, r), floor=7,
                 necessary="every entry of a map lands on its cell, at its place; requested material modifications reach the material")
    chk.run_rule("R18.19", "before S.mergeNuclidesInto(V) the solvent V is diluted by (its area before) / (its area after), once, on every path", lambda r: r19_merge_conserves_solvent_atoms(idx, r), floor=3,
                 necessary="components have the specified composition: a `mergeWith:` component's atoms are added to a solvent that keeps exactly its own atoms (A_new N_new = A_S N_S + A_old N_old), whatever the solvent's shape")
    chk.run_rule("R18.20", "class1/class2 blend: modifications stored under their own names; applyIsotopicsMix = H*(w*A+(1-w)*B); callers hand the class-1 vector to A, the class-2 vector to B", lambda r: r20_class1_class2_channel(idx, r), floor=6,
                 necessary="composition after the requested material modifications: class1_wt_frac is the weight fraction of the vector named by class1_custom_isotopics, 1 - class1_wt_frac that of class2_custom_isotopics")
