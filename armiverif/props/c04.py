"""C04 - database round trip of a reactor: layout writer/reader agreement, parallel arrays,
location codes, grid constructor argument order, linked dimensions.  Structural necessary
conditions only (DESIGN.md section 3, C04)."""
from __future__ import annotations

import ast
import re

from ..astutil import (call_attr, const_str, get_arg, iter_calls, iter_stores, propagate, single_assign_env, walk_local)
from ..flow import Flow, always_exits, path_conditions
from ..index import AnalysisError, AnchorMissing, dotted, norm

DB = "armi.bookkeeping.db.database"
LAYOUT = "armi.bookkeeping.db.layout"
SG = "armi.reactor.grids.structuredGrid"
FIELDS = ["type", "name", "serialNum", "indexInData", "numChildren", "gridIndex", "_spatialLocators", "temperatures", "material"]


def _ds_name(node, env):
    """dataset name expression -> canonical text ('bounds_{}' for format calls, str(i) -> '<i>')."""
    node = propagate(node, env)
    s = const_str(node)
    if s is not None:
        return s
    if isinstance(node, ast.Call) and call_attr(node) == "format" and const_str(node.func.value) is not None:
        return const_str(node.func.value)
    if isinstance(node, ast.Call) and dotted(node.func) == "str":
        return "<index>"
    if isinstance(node, ast.JoinedStr):
        return "".join(v.value if isinstance(v, ast.Constant) else "{}" for v in node.values)
    return None


def r1_layout_names(idx, r):
    lay = idx.cls(LAYOUT + ".Layout")
    w, rd = lay.methods.get("writeToDB"), lay.methods.get("_readLayout")
    if w is None or rd is None:
        raise AnchorMissing("Layout.writeToDB/_readLayout")
    wenv, renv = single_assign_env(w.node), single_assign_env(rd.node)
    written = {}  # name -> set of self fields in data expr
    wattrs = set()
    for c in iter_calls(w.node):
        if call_attr(c) in ("create_dataset", "create_group") and c.args:
            nm = _ds_name(c.args[0], wenv)
            if nm is None:
                raise AnalysisError(f"dataset name `{norm(c.args[0])}` outside the fragment")
            data = get_arg(c, 1, "data")
            flds = set()
            if data is not None:
                flds = {x.attr for x in ast.walk(data) if isinstance(x, ast.Attribute) and isinstance(x.value, ast.Name) and x.value.id in ("self", "gridParams")}
            written.setdefault(nm, set()).update(flds)
    for s in iter_stores(w.node):
        if s.kind == "subscript" and s.chain and s.chain.endswith(".attrs"):
            wattrs.add(const_str(s.node.slice))
    read = {}
    rattrs = set()
    par = rd.module.parents()
    for n in walk_local(rd.node):
        if isinstance(n, ast.Subscript) and isinstance(n.ctx, ast.Load):
            if isinstance(n.value, ast.Attribute) and n.value.attr == "attrs":
                rattrs.add(const_str(n.slice))
                continue
            if isinstance(n.value, ast.Name) and n.value.id in ("h5group", "gridGroup", "thisGroup"):
                nm = _ds_name(n.slice, renv)
                if nm is None:
                    continue
                st = n
                while not isinstance(st, ast.stmt):
                    st = par[st]
                read.setdefault(nm, []).append(st)
        if isinstance(n, ast.Compare) and len(n.ops) == 1 and isinstance(n.ops[0], ast.In) and isinstance(n.comparators[0], ast.Name) \
                and n.comparators[0].id in ("thisGroup", "gridGroup", "h5group"):
            nm = _ds_name(n.left, renv)
            if nm:
                read.setdefault(nm, [])
    if len(written) < 15:
        raise AnalysisError(f"only {len(written)} datasets found in Layout.writeToDB")
    for nm in sorted(written):
        r.require(nm in read, f"written-is-read:{nm}", w, msg=f"Layout.writeToDB creates `{nm}` but _readLayout never reads it")
    for nm in sorted(read):
        r.require(nm in written, f"read-is-written:{nm}", rd, msg=f"_readLayout reads `{nm}` which writeToDB never creates")
    for a in sorted(x for x in rattrs if x):
        r.require(a in wattrs, f"attr-read-is-written:{a}", rd, msg=f"_readLayout consults attrs['{a}'] which writeToDB never sets")
    # field mapping for layout/* datasets: the reader fills the field the writer took the data from
    for nm, flds in sorted(written.items()):
        if not nm.startswith("layout/") or not flds or nm not in read:
            continue
        target_fields = set()
        local_targets = set()
        for st in read[nm]:
            if isinstance(st, ast.Assign):
                for t in st.targets:
                    if isinstance(t, ast.Attribute) and norm(t.value) == "self":
                        target_fields.add(t.attr)
                    elif isinstance(t, ast.Name):
                        local_targets.add(t.id)
        for st in walk_local(rd.node):  # locals flowing into a self.<field> assignment
            if isinstance(st, ast.Assign) and any(isinstance(x, ast.Name) and x.id in local_targets for x in ast.walk(st.value)):
                for t in st.targets:
                    if isinstance(t, ast.Attribute) and norm(t.value) == "self":
                        target_fields.add(t.attr)
        r.require(bool(flds & target_fields), f"field-map:{nm}", rd, node=read[nm][0] if read[nm] else None,
                  msg=f"`{nm}` is written from self.{sorted(flds)} but read into self.{sorted(target_fields)}")
    # grid datasets: reader's GridParameters(...) call takes each argument from the dataset of the same name
    gp = [c for c in iter_calls(rd.node) if call_attr(c) == "GridParameters"]
    if len(gp) != 1:
        raise AnalysisError("_readLayout: GridParameters(...) call not found")
    fields = _gp_fields(idx)
    for i, fname in enumerate(fields):
        a = get_arg(gp[0], i, fname)
        if a is None:
            r.violate(f"gridparam-source:{fname}", rd, "argument missing", node=gp[0])
            continue
        src = propagate(a, {k: v for k, v in renv.items()})
        names = {const_str(x.slice) or _ds_name(x.slice, renv) for x in ast.walk(src) if isinstance(x, ast.Subscript)}
        names = {("bounds" if (n or "").startswith("bounds_") else n) for n in names if n}
        if fname == "bounds":
            okb = isinstance(a, ast.Name) and a.id == "bounds"
            r.require(okb, f"gridparam-source:{fname}", rd, node=a, msg="bounds argument is not the list built from bounds_{i} datasets")
        else:
            r.require(fname in names, f"gridparam-source:{fname}", rd, node=a, msg=f"GridParameters.{fname} is rebuilt from dataset(s) {sorted(names)}")
    # writer side: each grid dataset is taken from the same-named field
    for c in iter_calls(w.node):
        if call_attr(c) == "create_dataset" and c.args:
            nm = _ds_name(c.args[0], wenv)
            data = get_arg(c, 1, "data")
            if nm in fields and data is not None:
                src = propagate(data, wenv)
                r.require(any(isinstance(x, ast.Attribute) and x.attr == nm for x in ast.walk(src)), f"grid-write:{nm}", w, node=c,
                          msg=f"grid dataset `{nm}` is written from `{norm(src)}`")


def _gp_fields(idx):
    m = idx.module(SG)
    v = m.consts.get("GridParameters")
    if not (isinstance(v, ast.Call) and call_attr(v) == "namedtuple"):
        raise AnchorMissing("structuredGrid.GridParameters namedtuple")
    f = idx.fold(m, v.args[1])
    return list(f.split() if isinstance(f, str) else f)


# ------------------------------------------------------------------------------------------------
def r2_parallel_arrays(idx, r):
    lay = idx.cls(LAYOUT + ".Layout")
    f = lay.methods.get("_createLayout")
    if f is None:
        raise AnchorMissing("Layout._createLayout")

    def ev(n):
        if isinstance(n, ast.Call) and call_attr(n) == "append" and isinstance(n.func, ast.Attribute) \
                and isinstance(n.func.value, ast.Attribute) and norm(n.func.value.value) == "self":
            return [n.func.value.attr]
        if isinstance(n, ast.Call) and dotted(n.func) == "self._createLayout":
            return ["recurse"]
        return []

    fl = Flow(f.node, ev, handler_from_entry=True).run()
    rec = [c for c in iter_calls(f.node) if dotted(c.func) == "self._createLayout"]
    if not rec:
        raise AnalysisError("_createLayout: recursion not found")
    points = [("exit@%s" % (e.line or "end"), e.state) for e in fl.normal_exits()] + [("recursion", fl.state_before(rec[0]) or {})]
    for fld in FIELDS:
        bad = [(w_, st.get(fld, (0, 0))) for w_, st in points if st.get(fld, (0, 0)) != (1, 1)]
        r.require(not bad, f"one-append:{fld}", f, msg=f"self.{fld} must receive exactly one append per visited object; counts (min,max) {bad}")
    # children visited = what numChildren counts
    env = single_assign_env(f.node)
    loop = next((n for n in walk_local(f.node) if isinstance(n, ast.For) and any(dotted(c.func) == "self._createLayout" for c in iter_calls(n))), None)
    it = norm(propagate(loop.iter, env)) if loop is not None else ""
    nc = next((c for c in iter_calls(f.node) if dotted(c.func) == "self.numChildren.append"), None)
    r.require(it == "sorted(list(comp))" and nc is not None and norm(nc.args[0]) == "len(comp)", "children-order", f, node=loop,
              msg=f"recursion iterates `{it}` while numChildren records `{norm(nc.args[0]) if nc else None}`; both must derive from the same child list, in sorted order")
    # temperature pair order agrees with _initComps
    ta = next((c for c in iter_calls(f.node) if dotted(c.func) == "self.temperatures.append" and isinstance(c.args[0], ast.Tuple)
               and "comp." in norm(c.args[0])), None)
    ic = lay.methods.get("_initComps")
    if ta is None or ic is None:
        raise AnalysisError("temperature append / _initComps not found")
    order = [norm(e) for e in ta.args[0].elts]
    kw = {}
    for s in iter_stores(ic.node):
        if s.kind == "subscript" and s.chain == "kwargs" and s.value is not None:
            kw[const_str(s.node.slice)] = norm(s.value)
    exp = {"Tinput": "temperatures[%d]" % next((i for i, o in enumerate(order) if "input" in o.lower()), -1),
           "Thot": "temperatures[%d]" % next((i for i, o in enumerate(order) if "input" not in o.lower()), -1)}
    r.require(kw.get("Tinput") == exp["Tinput"] and kw.get("Thot") == exp["Thot"], "temperature-order", ic,
              msg=f"written pair {order}; reader uses Tinput={kw.get('Tinput')} Thot={kw.get('Thot')}")
    r.require(kw.get("material") == "material" and kw.get("name") == "name", "material-name-kwargs", ic, msg=f"component kwargs {kw}")
    # zip fields <-> loop variables
    z = next((n for n in walk_local(ic.node) if isinstance(n, ast.For) and isinstance(n.iter, ast.Call) and dotted(n.iter.func) == "zip"), None)
    if z is None:
        raise AnalysisError("_initComps zip loop not found")
    srcs = [a.attr if isinstance(a, ast.Attribute) else norm(a) for a in z.iter.args]
    tgts = [norm(e) for e in z.target.elts] if isinstance(z.target, ast.Tuple) else []
    okz = len(srcs) == len(tgts) and all(t.lower().endswith(s.lower()) for s, t in zip(srcs, tgts))
    r.require(okz, "initComps-zip", ic, node=z.iter, msg=f"zip of self.{srcs} is unpacked into {tgts}: positions must correspond")
    need = {"type", "name", "serialNum", "numChildren", "location", "material", "temperatures", "gridIndex"}
    r.require(need <= set(srcs), "initComps-uses-all", ic, node=z.iter, msg=f"_initComps ignores layout fields {sorted(need - set(srcs))}")
    # the grid is rebuilt from the stored constructor arguments
    g = [s for s in iter_stores(ic.node) if s.chain == "comp.spatialGrid" and s.value is not None]
    okg = bool(g) and re.fullmatch(r"self\.gridClasses\[gridParams\[0\]\]\(\*gridParams\[1\], armiObject=comp\)", norm(g[0].value)) is not None
    r.require(okg, "grid-rebuilt", ic, node=g[0].stmt if g else None, msg="comp.spatialGrid must be cls(*storedParams, armiObject=comp) of the stored grid type")
    tup = [n for n in walk_local(ic.node) if isinstance(n, ast.Call) and dotted(n.func) == "comps.append" and isinstance(n.args[0], ast.Tuple)]
    comp_f = idx.method(DB + ".Database", "_compose")
    first = next((s for s in comp_f.node.body if isinstance(s, ast.Assign) and isinstance(s.value, ast.Call) and dotted(s.value.func) == "next"), None)
    if not tup or first is None:
        raise AnalysisError("comps tuple / _compose unpacking not found")
    prod = [norm(e) for e in tup[0].args[0].elts]
    cons = [norm(e) for e in first.targets[0].elts]
    okt = len(prod) == len(cons) and all(c == "_" or c == p for p, c in zip(prod, cons))
    r.require(okt, "compose-tuple-order", comp_f, node=first, msg=f"_initComps yields {prod}; _compose unpacks {cons}")


def r2b_compose(idx, r):
    f = idx.method(DB + ".Database", "_compose")
    body = [s_ for s_ in f.node.body if not (isinstance(s_, ast.Expr) and isinstance(s_.value, ast.Constant))]
    # recursion consumes exactly numChildren children, then links dims, then adds in order
    loop = next((n for n in body if isinstance(n, ast.For) and any(dotted(c.func) == "self._compose" for c in iter_calls(n))), None)
    r.require(loop is not None and norm(loop.iter) == "range(numChildren)", "consumes-numChildren", f, node=loop,
              msg="children must be rebuilt by recursing exactly numChildren times on the shared iterator")
    rec = [c for c in iter_calls(f.node) if dotted(c.func) == "self._compose"]
    r.require(bool(rec) and all(norm(c.args[0]) == "comps" and any(k.arg == "parent" and norm(k.value) == "comp" for k in c.keywords) for c in rec),
              "recursion-args", f, node=rec[0] if rec else None, msg="recursion must pass the same iterator and parent=comp")
    idx_res = next((i for i, n in enumerate(body) if isinstance(n, ast.For) and any(call_attr(c) == "resolveLinkedDims" for c in iter_calls(n))), None)
    idx_add = next((i for i, n in enumerate(body) if isinstance(n, ast.For) and any(dotted(c.func) == "comp.add" for c in iter_calls(n))), None)
    r.require(idx_res is not None and idx_add is not None and idx_res < idx_add, "resolve-before-add", f,
              msg="linked dimensions must be resolved for every component child before the children are added")
    if idx_add is not None:
        addloop = body[idx_add]
        r.require(norm(addloop.iter) == "children" and norm(addloop.target) == "child" and not any(isinstance(x, ast.If) for x in addloop.body), "adds-every-child", f, node=addloop,
                  msg="every rebuilt child must be added, in order")
    if idx_res is not None:
        resloop = body[idx_res]
        src = norm(resloop.iter)
        filled = any(isinstance(s.node, ast.Subscript) and s.chain == "childComponents" for s in iter_stores(loop)) if loop is not None else False
        r.require("childComponents" in src and filled, "resolve-all-components", f, node=resloop, msg="resolveLinkedDims must run over all component children collected in the recursion loop")
    # parent pointer set before children are composed (they read parent.spatialGrid)
    r.require(isinstance(body[1], ast.Assign) and norm(body[1]) == "comp.parent = parent", "parent-first", f, node=body[1], msg="comp.parent = parent must precede locating and composing")
    loc = [s for s in iter_stores(f.node) if s.chain == "comp.spatialLocator" and s.value is not None]
    ok = any(norm(s.value) == "parent.spatialGrid[location]" for s in loc) and any("CoordinateLocation(location[0], location[1], location[2]" in norm(s.value) for s in loc)
    r.require(ok, "locator-from-location", f, msg="locator must be parent.spatialGrid[location] or a CoordinateLocation of the three stored numbers")


# ------------------------------------------------------------------------------------------------
def r3_location_codes(idx, r):
    m = idx.module(LAYOUT)
    labels = m.consts.get("LOCATION_TYPE_LABELS")
    if not isinstance(labels, ast.Dict):
        raise AnchorMissing("layout.LOCATION_TYPE_LABELS")
    code_of = {norm(k): idx.fold(m, v) for k, v in zip(labels.keys, labels.values)}
    r.require(len(set(code_of.values())) == len(code_of), "codes-distinct", (m.relpath, labels.lineno), msg=f"location type codes collide: {code_of}")
    multi = idx.fold(m, m.consts["LOC_MULTI"])
    pk = idx.func(LAYOUT + "._packLocationsV3")
    up = idx.func(LAYOUT + "._unpackLocationsV2")
    # accepted codes
    accepted = {}
    n = next((x for x in walk_local(up.node) if isinstance(x, ast.If)), None)
    chain = []
    while n is not None:
        chain.append(n)
        n = n.orelse[0] if len(n.orelse) == 1 and isinstance(n.orelse[0], ast.If) else None
    for b in chain:
        t = b.test
        if isinstance(t, ast.Compare) and isinstance(t.ops[0], ast.Eq) and norm(t.left) == "lt":
            accepted[idx.fold(m, t.comparators[0])] = ("eq", b)
        elif isinstance(t, ast.Compare) and isinstance(t.ops[0], ast.In) and norm(t.left) == "lt" and isinstance(t.comparators[0], (ast.Tuple, ast.List, ast.Set)):
            for e in t.comparators[0].elts:
                accepted[idx.fold(m, e)] = ("eq", b)
        elif isinstance(t, ast.Call) and call_attr(t) == "startswith" and norm(t.func.value) == "lt":
            accepted[idx.fold(m, t.args[0])] = ("prefix", b)
        else:
            raise AnalysisError(f"unpack test `{norm(t)}` outside fragment")
    for k, code in sorted(code_of.items()):
        kind = accepted.get(code)
        r.require(kind is not None, f"code-accepted:{k}", up, msg=f"code {code!r} produced for {k} is not accepted by _unpackLocationsV2 (accepts {sorted(accepted)})")
    # every pack branch has a label; rows produced == rows consumed
    pchain = []
    n = next((x for x in walk_local(pk.node) if isinstance(x, ast.If)), None)
    while n is not None:
        pchain.append(n)
        n = n.orelse[0] if len(n.orelse) == 1 and isinstance(n.orelse[0], ast.If) else None
    for b in pchain:
        t = norm(b.test)
        mt = re.fullmatch(r"type\(loc\) is (\S+)|loc\.__class__ is (\S+)|loc is None", t)
        if not mt and isinstance(b.test, ast.BoolOp) and isinstance(b.test.op, ast.And):
            # a class test narrowed by further conditions: still a branch for that class
            for part in b.test.values:
                mt = re.fullmatch(r"type\(loc\) is (\S+)|loc\.__class__ is (\S+)|loc is None", norm(part))
                if mt:
                    t = norm(part)
                    break
        if not mt:
            raise AnalysisError(f"pack test `{t}` outside fragment")
        relabel = [x for x in b.body if isinstance(x, ast.Assign) and any(norm(tg) == "locationType" for tg in x.targets)]
        r.require(not relabel, f"pack-branch-keeps-the-code-of-its-class:{norm(b.test)[:50]}", pk, node=relabel[0] if relabel else None,
                  msg=f"the branch for `{norm(b.test)[:60]}` stores the locator under another code (`{norm(relabel[0]) if relabel else ''}`): it is read back as a locator of another class")
        cls = (mt.group(1) or mt.group(2)) if t != "loc is None" else "type(None)"
        r.require(cls in code_of, f"pack-branch-has-code:{cls}", pk, node=b.test, msg=f"_packLocationsV3 handles {cls} but LOCATION_TYPE_LABELS has no code for it")
        if cls not in code_of:
            continue
        code = code_of[cls]
        datum = next((s.value for s in b.body if isinstance(s, ast.Assign) and norm(s.targets[0]) == "locDatum"), None)
        if datum is None:
            raise AnalysisError("pack branch without locDatum")
        rows_p = "n" if isinstance(datum, ast.ListComp) and norm(datum.generators[0].iter) == "loc" else ("1" if isinstance(datum, ast.List) and len(datum.elts) == 1 else "?")
        ub = accepted.get(code, (None, None))[1]
        if ub is None:
            continue
        nexts = sum(1 for c in iter_calls(ast.Module(body=ub.body, type_ignores=[])) if dotted(c.func) == "next")
        inloop = any(isinstance(x, ast.For) and norm(x.iter) == "range(numSubLocs)" and any(dotted(c.func) == "next" for c in iter_calls(x)) for x in ub.body)
        rows_u = "n" if inloop else ("1" if nexts == 1 else "?")
        r.require(rows_p == rows_u and rows_p != "?", f"rows:{cls}", pk, node=datum, msg=f"pack emits {rows_p} data row(s) for {cls}, unpack consumes {rows_u}")
        if rows_p == "n":
            suffix = any(isinstance(s, ast.AugAssign) and norm(s.target) == "locationType" and norm(s.value) in ("f'{len(loc)}'", "str(len(loc))") for s in b.body)
            parse = any(norm(s.value) == f"int(lt.split({multi[-1]!r})[1])" for s in ub.body if isinstance(s, ast.Assign))
            r.require(suffix and parse, "multi-count-codec", pk, node=b.test, msg=f"multi-location count must be appended to {multi!r} and parsed back with split({multi[-1]!r})[1]")
    # integer vs float rows: index locations decode to ints, coordinates stay as they are
    for code, (kind, b) in accepted.items():
        key = next((k for k, v in code_of.items() if v == code), code)
        txt = " ".join(norm(s) for s in b.body)
        if "IndexLocation" in key:
            r.require("int(i)" in txt, f"decode-int:{key}", up, node=b.test, msg="index locations must decode to integer tuples")
        if "CoordinateLocation" in key:
            r.require("int(" not in txt, f"decode-float:{key}", up, node=b.test, msg="coordinate locations must keep real values")
    # dispatchers select V3 / V2 for the current minor version
    d = idx.func(LAYOUT + "._packLocations")
    r.require(any(dotted(c.func) == "_packLocationsV3" for c in iter_calls(d.node)), "dispatch-pack", d, msg="_packLocations must reach _packLocationsV3")
    d2 = idx.func(LAYOUT + "._unpackLocations")
    r.require(any(dotted(c.func) == "_unpackLocationsV2" for c in iter_calls(d2.node)), "dispatch-unpack", d2, msg="_unpackLocations must reach _unpackLocationsV2")


# ------------------------------------------------------------------------------------------------
def r4_grid_ctor(idx, r):
    fields = _gp_fields(idx)
    sg = idx.cls(SG + ".StructuredGrid")
    init = sg.methods.get("__init__")
    params = init.params()[1:]
    r.require(params[: len(fields)] == fields and params[len(fields):] == ["armiObject"], "ctor-order", init,
              msg=f"GridParameters fields {fields} must be StructuredGrid.__init__'s positional parameters in order, followed by armiObject; found {params}")
    red = sg.methods.get("reduce")
    env = single_assign_env(red.node)

    def built_here(v):
        """the GridParameters(...) call a returned value stands for, following one local name or one `self.x = GridParameters(...)` store"""
        if isinstance(v, ast.Name) and v.id in env:
            v = env[v.id]
        if isinstance(v, ast.Attribute) and norm(v.value) == "self":
            st = [s_ for s_ in iter_stores(red.node) if s_.chain == norm(v) and s_.value is not None]
            v = st[0].value if len(st) == 1 else v
        return v if isinstance(v, ast.Call) and call_attr(v) == "GridParameters" else None
    allret = [n for n in walk_local(red.node) if isinstance(n, ast.Return)]
    fresh = [(n, built_here(n.value)) for n in allret]
    for n, b in fresh:
        r.require(b is not None, "reduce:built-from-current-state", red, node=n,
                  msg=f"`{norm(n)}` hands out a remembered value instead of GridParameters built from the grid's current fields: after the pitch, bounds, symmetry or "
                      "geometry type change (changePitch, restoreBackup, direct _bounds writes) the database stores the grid as it was when first reduced")
    good = [(n, b) for n, b in fresh if b is not None]
    if len(good) != 1:
        raise AnalysisError("StructuredGrid.reduce: one `GridParameters(...)` construction expected")
    ret = [ast.Return(value=good[0][1])]
    ast.copy_location(ret[0], good[0][0])
    src_of = {"unitSteps": "_unitSteps", "bounds": "_bounds", "unitStepLimits": "_unitStepLimits", "offset": "_offset", "geomType": "_geomType", "symmetry": "_symmetry"}
    for i, fname in enumerate(fields):
        a = get_arg(ret[0].value, i, fname)
        if a is None:
            r.violate(f"reduce:{fname}", red, "argument missing", node=ret[0])
            continue
        # which private attribute does the argument derive from (following local definitions)
        attrs = set()
        seen = set()
        todo = [a]
        while todo:
            e = todo.pop()
            for x in ast.walk(e):
                if isinstance(x, ast.Attribute) and norm(x.value) == "self":
                    attrs.add(x.attr)
                if isinstance(x, ast.Name) and x.id not in seen:
                    seen.add(x.id)
                    for s in iter_stores(red.node):
                        if isinstance(s.node, ast.Name) and s.attr == x.id and s.value is not None:
                            todo.append(s.value)
                        if s.kind == "mutcall" and s.chain == x.id:
                            todo.extend(s.node.args)
        want = src_of.get(fname)
        if want is None:
            r.undecided(f"reduce:{fname}", red, "no reference attribute known")
            continue
        others = {v for k, v in src_of.items() if k != fname} - {"_stepDims"}
        r.require(want in attrs and not (attrs & others), f"reduce:{fname}", red, node=a, msg=f"reduce() fills `{fname}` from self.{sorted(attrs)}; expected self.{want}")
    # __init__ stores each parameter in the attribute reduce() reads it from
    for fname, attr in src_of.items():
        sts = [s for s in iter_stores(init.node) if s.chain == f"self.{attr}" and s.value is not None]
        base = idx.cls("armi.reactor.grids.grid.Grid").methods.get("__init__")
        if not sts and base is not None:  # geomType/symmetry go through the base class and its property setters
            sts = [s for s in iter_stores(base.node) if s.chain in (f"self.{attr}", f"self.{attr.lstrip('_')}") and s.value is not None]
            sup = [c for c in iter_calls(init.node) if norm(c.func) == "super().__init__"]
            bparams = base.params()[1:]
            okf = bool(sup) and fname in bparams and norm(get_arg(sup[0], bparams.index(fname), fname) or ast.Constant(None)) == fname
            r.require(okf, f"init-forward:{fname}", init, node=sup[0] if sup else None, msg=f"`{fname}` is not forwarded to Grid.__init__ in its slot")
        if not sts:
            r.undecided(f"init-store:{fname}", init, f"self.{attr} not assigned in __init__")
            continue
        names = {x.id for s in sts for x in ast.walk(s.value) if isinstance(x, ast.Name)}
        r.require(fname in names, f"init-store:{fname}", init, node=sts[-1].stmt, msg=f"self.{attr} is initialised from {sorted(names)}, not from parameter `{fname}`")
    # no structured-grid subclass changes the constructor signature
    for c in idx.subclasses(sg):
        f = c.methods.get("__init__")
        if f is not None:
            r.require(f.params()[1:] == params, f"subclass-ctor:{c.name}", f, msg=f"{c.name}.__init__ parameters {f.params()[1:]} differ from the stored-argument order {params}")
        else:
            r.ok(f"subclass-ctor:{c.name}", (c.module.relpath, c.node.lineno, c.name))
    rd = idx.method(LAYOUT + ".Layout", "_readLayout")
    gp = [c for c in iter_calls(rd.node) if call_attr(c) == "GridParameters"]
    names = [norm(a) for a in gp[0].args] if gp else []
    r.require(names == fields, "reader-call-order", rd, node=gp[0] if gp else None, msg=f"_readLayout builds GridParameters({names}); field order is {fields}")
    cl = idx.method(LAYOUT + ".Layout", "_createLayout")
    r.require(any(norm(c) == "comp.spatialGrid.reduce()" for c in iter_calls(cl.node)) and any(norm(c) == "type(comp.spatialGrid).__name__" for c in ast.walk(cl.node)),
              "layout-uses-reduce", cl, msg="_createLayout must store (type name, spatialGrid.reduce())")


# ------------------------------------------------------------------------------------------------
def r5_linked_dims(idx, r):
    wp = idx.method(DB + ".Database", "_writeParams")
    fmt = None
    for c in iter_calls(wp.node):
        if call_attr(c) == "format" and const_str(c.func.value) is not None and dotted(c.func.value) is None:
            parc = wp.module.parents()[c]
            if isinstance(parc, ast.Call) and dotted(parc.func) == "linkedDims.append":
                fmt = (const_str(c.func.value), [norm(a) for a in c.args], c)
    if fmt is None:
        raise AnalysisError("_writeParams: linked dimension format not found")
    comp = idx.module("armi.reactor.components.component")
    rx = comp.consts.get("COMPONENT_LINK_REGEX")
    if rx is None:
        raise AnchorMissing("component.COMPONENT_LINK_REGEX")
    pat = next((const_str(a) for a in rx.args), None) if isinstance(rx, ast.Call) else None
    if pat is None:
        raise AnalysisError("COMPONENT_LINK_REGEX pattern not literal")
    import re._parser as sp

    parsed = list(sp.parse(pat))
    lits = "".join(chr(v) for op, v in parsed if str(op) == "LITERAL")
    groups = sum(1 for op, v in parsed if str(op) == "SUBPATTERN")
    sep = fmt[0].replace("{}", "")
    r.require(groups == 2 and lits == sep and fmt[0].count("{}") == 2, "format-vs-regex", wp, node=fmt[2],
              msg=f"linked dims are written as {fmt[0]!r} but parsed with /{pat}/ (groups={groups}, literal separator {lits!r})")
    r.require(fmt[1] == ["val[0].name", "val[1]"], "format-args", wp, node=fmt[2], msg=f"linked dimension must be encoded as (component name, dimension name); found {fmt[1]}")
    # the numeric value stored next to the link is the linked component's dimension
    d = next((c for c in iter_calls(wp.node) if dotted(c.func) == "data.append" and "getDimension" in norm(c)), None)
    r.require(d is not None and norm(d.args[0]) == "val[0].getDimension(val[1])", "linked-value", wp, node=d, msg="value stored for a linked dimension must be val[0].getDimension(val[1])")
    # reader assigns the link string when present, else the value
    rp = idx.method(DB + ".Database", "_readParams")
    z = next((n for n in walk_local(rp.node) if isinstance(n, ast.For) and isinstance(n.iter, ast.Call) and "zip" in norm(n.iter.func)), None)
    okz = z is not None and [norm(a) for a in z.iter.args] == ["comps", "unpackedData", "linkedDims"] and [norm(e) for e in z.target.elts] == ["c", "val", "linkedDim"]
    r.require(okz, "reader-zip", rp, node=z.iter if z is not None else None, msg="(component, value, link) must be zipped in that order")
    branch = next((n for n in walk_local(rp.node) if isinstance(n, ast.If) and norm(n.test) == "linkedDim != ''"), None)
    okb = branch is not None and norm(branch.body[0]) == "c.p[paramName] = linkedDim" and norm(branch.orelse[0]) == "c.p[paramName] = val"
    r.require(okb, "reader-link-or-value", rp, node=branch, msg="parameter must receive the link string when one was stored, else the value")
    size = any(isinstance(n, ast.If) and "len(comps) != len(unpackedData)" in norm(n.test) and any(isinstance(x, ast.Raise) for x in n.body) for n in walk_local(rp.node))
    r.require(size, "reader-size-check", rp, msg="a length mismatch between objects and data must raise")
    # resolveLinkedDims turns the string back into (component, dim)
    res = idx.method("armi.reactor.components.component.Component", "resolveLinkedDims")
    env = {k: v for k, v in single_assign_env(res.node).items() if k != "match"}
    link = next((c for c in iter_calls(res.node) if call_attr(c) == "_DimensionLink" and c.args and isinstance(c.args[0], ast.Tuple) and len(c.args[0].elts) == 2), None)
    okr = any(dotted(c.func) == "COMPONENT_LINK_REGEX.search" for c in iter_calls(res.node)) and link is not None
    if okr:
        a, b = (norm(propagate(e, env)) for e in link.args[0].elts)
        okr = a == "components[match.group(1)]" and b == "match.group(2)"
    r.require(okr, "resolve", res, node=link, msg="resolveLinkedDims must install _DimensionLink((components[<group 1>], <group 2>)) parsed with the link regex")


def r6_jagged(idx, r):
    """Ragged parameter data is part of the reactor state: same offset/bookkeeping rule as C05 R05.6."""
    from .c05 import r6_jagged_offsets

    r6_jagged_offsets(idx, r)


def r7_locator_kept_on_add(idx, r):
    """_compose locates each child on its parent's grid and then calls parent.add(child) WITHOUT a location:
    every add override that takes an optional location must fall back to the child's own locator."""
    comp = idx.cls("armi.reactor.composites.Composite")
    n = 0
    for c in idx.subclasses(comp):
        f = c.methods.get("add")
        if f is None or len(f.params()) < 3:
            continue
        a = f.node.args
        if not a.defaults or norm(a.defaults[-1]) != "None":
            continue
        obj, loc = f.params()[1], f.params()[2]
        n += 1
        uses = []
        for x in walk_local(f.node):
            if isinstance(x, ast.Assign) and any(norm(t) == loc for t in x.targets) and f"{obj}.spatialLocator" in norm(x.value):
                uses.append(x)
        r.require(bool(uses), f"{c.name}.add:falls-back-to-child-locator", f, node=uses[0] if uses else None,
                  msg=f"when no location is passed, {c.name}.add must place `{obj}` at its own locator (`{loc} = ... {obj}.spatialLocator`): Database._compose relies on it; otherwise loaded objects are re-racked")
        gen = [x for x in iter_calls(f.node) if call_attr(x) in ("_getNextLocation",)]
        for g in gen:
            conds = [norm(t) for t, p in path_conditions(f.node, g)]
            pol = [p for t, p in path_conditions(f.node, g)]
            env = single_assign_env(f.node)
            full = " ".join(norm(propagate(t, env)) for t, p in path_conditions(f.node, g))
            r.require(f"{obj}.spatialLocator" in full, f"{c.name}.add:next-free-slot-only-without-locator", f, node=g,
                      msg="a fresh slot may be chosen only when the child has no locator on this grid")
    if n < 2:
        raise AnalysisError("add overrides with an optional location not found")
    cm = idx.method(DB + ".Database", "_compose")
    add = next((c for c in iter_calls(cm.node) if dotted(c.func) == "comp.add"), None)
    r.require(add is not None and len(add.args) == 1, "_compose:add-without-location", cm, node=add, msg="children are added with their already assigned locator (no explicit location)")


def r8_linked_setters(idx, r):
    """envGroup and envGroupNum overwrite each other: each setter stores both backing fields. On load the database
    applies BOTH datasets one after the other, so the two setters must be mutually inverse on every admissible value,
    or loading a saved reactor changes the pair. Decided by exhaustive evaluation of the two codecs over the finite
    domain the number setter admits (E6, armiverif/minieval.py)."""
    from ..minieval import MiniEval, Raised

    m = idx.module("armi.reactor.blockParameters")
    if m is None:
        raise AnchorMissing("armi.reactor.blockParameters")
    fns = {n.name: n for n in ast.walk(m.tree) if isinstance(n, ast.FunctionDef) and n.name in ("envGroup", "envGroupNum")}
    if set(fns) != {"envGroup", "envGroupNum"}:
        raise AnchorMissing("setters envGroup / envGroupNum in blockParameters")
    consts = {}
    for n in m.tree.body:
        if isinstance(n, ast.Assign) and len(n.targets) == 1 and isinstance(n.targets[0], ast.Name):
            try:
                v = idx.fold(m, n.value)
            except AnalysisError:
                continue
            if isinstance(v, (int, str)):
                consts[n.targets[0].id] = v
    ev = MiniEval(consts, skip_calls=("runLog.",), resolver=lambda nm: idx.fold(m, nm))
    at = m
    admitted, first_bad = 0, None
    for n in range(0, 200):
        try:
            _, a1 = ev.run(fns["envGroupNum"], {"envGroupNum": n})
        except Raised:
            break
        admitted += 1
        ch = a1.get("_p_envGroup")
        if a1.get("_p_envGroupNum") != n or not isinstance(ch, str):
            first_bad = first_bad or (n, f"envGroupNum({n}) stores number {a1.get('_p_envGroupNum')!r} and letter {ch!r}")
            continue
        try:
            _, a2 = ev.run(fns["envGroup"], {"envGroupChar": ch})
        except Raised as e:
            first_bad = first_bad or (n, f"envGroupNum({n}) stores letter {ch!r}, which the letter setter rejects ({e})")
            continue
        if a2.get("_p_envGroupNum") != n or a2.get("_p_envGroup") != ch:
            first_bad = first_bad or (n, f"envGroupNum({n}) stores letter {ch!r}, but envGroup({ch!r}) stores number {a2.get('_p_envGroupNum')!r}")
    if admitted < 26:
        raise AnalysisError(f"envGroupNum admits only {admitted} values; the domain scan is not meaningful")
    key = "envGroupNum->envGroup->envGroupNum"
    if first_bad:
        r.violate(key + f":{first_bad[0]}", at, f"{first_bad[1]}: the pair written to the database does not survive being applied by the two setters on load "
                  f"({admitted} numbers admitted, first failure at {first_bad[0]})", node=fns["envGroupNum"])
    else:
        r.ok(key, at, node=fns["envGroupNum"], msg=f"identity on all {admitted} admitted numbers")
    # and the other way round over the letters
    bad = None
    letters = [chr(c) for c in range(ord("A"), ord("Z") + 1)] + [chr(c) for c in range(ord("a"), ord("z") + 1)]
    for ch in letters:
        try:
            _, a1 = ev.run(fns["envGroup"], {"envGroupChar": ch})
            _, a2 = ev.run(fns["envGroupNum"], {"envGroupNum": a1.get("_p_envGroupNum")})
        except Raised as e:
            bad = bad or f"letter {ch!r} is rejected ({e})"
            continue
        if a2.get("_p_envGroup") != ch:
            bad = bad or f"envGroup({ch!r}) stores number {a1.get('_p_envGroupNum')!r}, but envGroupNum of that stores letter {a2.get('_p_envGroup')!r}"
    r.require(bad is None, "envGroup->envGroupNum->envGroup", at, node=fns["envGroup"], msg=f"{bad}: a block in that group changes group on load")


def r9_multi_location_bridge(idx, r):
    """The writer stores a component that occupies several lattice sites as location type 'M:<n>' (isinstance
    MultiIndexLocation) - also for n = 1; the loader rebuilds it by indexing the grid with a LIST of indices. The
    bridge is StructuredGrid.__getitem__: on every path taken for a list argument it must return a MultiIndexLocation."""
    f = idx.method("armi.reactor.grids.structuredGrid.StructuredGrid", "__getitem__")
    if f is None:
        raise AnchorMissing("StructuredGrid.__getitem__")
    arg = f.params()[1]
    branch = None
    for n in walk_local(f.node):
        if isinstance(n, ast.If) and norm(n.test) == f"isinstance({arg}, list)":
            branch = n
    if branch is None:
        raise AnchorMissing("StructuredGrid.__getitem__: `isinstance(<arg>, list)` branch")
    inner_returns = [x for st in branch.body for x in ast.walk(st) if isinstance(x, ast.Return)]
    assigns = [st for st in branch.body if isinstance(st, ast.Assign) and isinstance(st.targets[0], ast.Name)]
    multi = [st for st in assigns if isinstance(st.value, ast.Call) and (dotted(st.value.func) or "").endswith("MultiIndexLocation")]
    tail = f.node.body[-1]
    ok_tail = isinstance(tail, ast.Return) and isinstance(tail.value, ast.Name) and multi and tail.value.id == multi[0].targets[0].id and sum(1 for st in assigns if st.targets[0].id == tail.value.id) == 1
    r.require(not inner_returns, "list-branch:no-other-return", f, node=(inner_returns[0] if inner_returns else branch),
              msg="the list branch returns something else than the MultiIndexLocation it builds on one path (e.g. the bare IndexLocation for a one-element list): "
                  "a component stored as 'M:1' is loaded with another locator type and re-saved as 'I'")
    r.require(bool(ok_tail), "list-branch:returns-multi", f, node=branch, msg="the value returned for a list argument must be the MultiIndexLocation constructed in that branch")
    # the writer's end of the bridge: a type test against MultiIndexLocation in the location packers
    lay = idx.module("armi.bookkeeping.db.layout")
    packs = [g for g in lay.all_funcs() if g.name.startswith("_packLocations")]
    if not packs:
        raise AnchorMissing("layout._packLocations*")
    def type_test(n):
        return (isinstance(n, ast.Compare) and "MultiIndexLocation" in norm(n)) or (isinstance(n, ast.Call) and dotted(n.func) == "isinstance" and "MultiIndexLocation" in norm(n))
    tagged = [g for g in packs if any(type_test(n) for n in ast.walk(g.node))]
    r.require(bool(tagged), "writer:tags-multi", packs[-1], msg="no location packer distinguishes MultiIndexLocation by a type test any more")


_NARROW = __import__("re").compile(r"(float|int|uint)(8|16|32)\b|\bhalf\b|\bsingle\b|['\"][<>=]?[fiu][124]['\"]")


def r10_no_narrowing(idx, r):
    """Layout.writeToDB stores the layout arrays and the grids' steps/bounds as numpy picks them (float64 / int64 / bytes).
    A narrower numeric dtype in any array construction, cast or create_dataset there makes the stored grid differ from the one in memory."""
    f = idx.method(LAYOUT + ".Layout", "writeToDB")
    n = 0
    for c in iter_calls(f.node):
        d = dotted(c.func) or ""
        last = d.rsplit(".", 1)[-1] if d else call_attr(c)
        if last not in ("array", "asarray", "astype", "create_dataset", "zeros", "empty", "full", "ndarray"):
            continue
        n += 1
        dt = [k.value for k in c.keywords if k.arg == "dtype"] + (list(c.args[:1]) if last == "astype" else []) + (list(c.args[1:2]) if last in ("array", "asarray") else [])
        bad = [x for x in dt if _NARROW.search(norm(x))]
        r.require(not bad, f"writeToDB:{n}:{last}:dtype", f, node=c,
                  msg=f"`{norm(c)[:80]}` narrows what is stored to {norm(bad[0]) if bad else ''}: bounds/steps/indices read back differ from those written (about 1e-7 relative for float32)")
    if n < 12:
        raise AnalysisError(f"Layout.writeToDB: only {n} array constructions/datasets found")


def r11_grid_metadata_owner(idx, r):
    """reduce() hands the private _geomType / _symmetry strings to the database as they are; the grid's own setters canonicalise them
    (`hex_corners_up` -> `hex`).  Code outside the grid classes that writes the private field of ANOTHER object bypasses that: the grid built
    from blueprints and the grid rebuilt from its stored arguments then differ in metadata."""
    grid = idx.cls("armi.reactor.grids.grid.Grid")
    setter = next((x for x in grid.node.body if isinstance(x, ast.FunctionDef) and x.name == "geomType" and any("setter" in norm(d) for d in x.decorator_list)), None)
    if setter is None or "GeomType.fromAny" not in norm(setter):
        raise AnchorMissing("Grid.geomType setter canonicalising through GeomType.fromAny")
    n = 0
    for m in idx.modules.values():
        if not m.name.startswith("armi.") or ".tests" in m.name:
            continue
        for f in m.all_funcs():
            for s_ in iter_stores(f.node):
                if s_.attr == "_geomType" and s_.chain and s_.chain != "self._geomType":
                    n += 1
                    r.violate(f"{f.qualname}:writes-foreign-_geomType", f, f"`{norm(s_.stmt)[:70]}` writes the private geometry label of another object, bypassing the canonicalising setter: the grid reduces to "
                              "a different geomType before and after a database round trip", node=s_.stmt)
    own = [f for f in idx.all_funcs() if f.cls is not None and f.cls.is_subclass_of(grid) or (f.cls is grid)]
    r.ok("foreign-writers-scanned", grid)
    users = [c for m in idx.modules.values() if m.name.startswith("armi.reactor.blueprints") for f in m.all_funcs() for c in iter_stores(f.node) if c.attr == "geomType" and c.chain and c.chain.endswith(".geomType")]
    r.require(bool(users), "blueprint-sets-geomType-through-the-property", grid, msg="the grid blueprint must label the grid through Grid.geomType")


def r12_compose_location_kinds(idx, r):
    """The layout stores three kinds of location (index 'I', several indices 'M:n', free coordinates 'C') and unpacks them to integers,
    lists and reals respectively.  When the hierarchy is rebuilt, only index kinds may be looked up on the parent's grid: a child with free
    coordinates inside a parent that HAS a grid (duct and coolant of a block with a pin lattice) must stay a CoordinateLocation, or a
    load-then-write cycle stores another location kind than the original."""
    f = idx.method(DB + ".Database", "_compose")
    grid_st = [s_ for s_ in iter_stores(f.node) if s_.attr == "spatialLocator" and s_.value is not None and isinstance(s_.value, ast.Subscript) and "spatialGrid" in norm(s_.value.value)]
    coord_st = [s_ for s_ in iter_stores(f.node) if s_.attr == "spatialLocator" and s_.value is not None and isinstance(s_.value, ast.Call) and (dotted(s_.value.func) or "").endswith("CoordinateLocation")]
    if len(grid_st) != 1 or not coord_st:
        raise AnchorMissing("Database._compose: the grid-indexed and the coordinate branch of the locator")
    env = single_assign_env(f.node)
    loc = norm(grid_st[0].value.slice)
    conds = [propagate(t, env) for t, p in path_conditions(f.node, grid_st[0].stmt)]
    kind = [t for t in conds if any(isinstance(x, ast.Name) and x.id == loc for x in ast.walk(t)) and any(isinstance(x, ast.Call) and dotted(x.func) == "isinstance" for x in ast.walk(t))]
    r.require(bool(kind), "_compose:grid-lookup-only-for-index-locations", f, node=grid_st[0].stmt,
              msg=f"`{norm(grid_st[0].stmt)}` is taken whenever the parent has a grid, whatever kind of location was stored: free coordinates (stored type 'C': duct, coolant, "
                  "intercoolant of a block with a pin grid) come back as IndexLocation (0,0,0) on the pin lattice")


def r13_placing_on_load_changes_nothing(idx, r):
    """Database.load rebuilds the core through Core.add -> Assembly.moveTo; _compose marks every assembly it read as coming from the DATABASE.
    The bookkeeping parameters moveTo maintains (numMoves, daysSinceLastMove ...) were just read from the file: every direct store into
    self.p in Assembly.moveTo must sit behind the `lastLocationLabel != DATABASE` test."""
    f = idx.method("armi.reactor.assemblies.Assembly", "moveTo")
    sts = [s_ for s_ in iter_stores(f.node) if s_.chain and s_.chain.startswith("self.p.")]
    if len(sts) < 2:
        raise AnchorMissing("Assembly.moveTo: bookkeeping parameter stores")
    for s_ in sts:
        conds = {(norm(t), p) for t, p in path_conditions(f.node, s_.stmt)}
        ok = any(("DATABASE" in c and "lastLocationLabel" in c) and ((("!=" in c) and p) or (("==" in c) and not p)) for c, p in conds)
        r.require(ok, f"Assembly.moveTo:{s_.attr}:not-when-loading", f, node=s_.stmt,
                  msg=f"`{norm(s_.stmt)}` also runs while the assembly is being placed by Database.load: the value read from the file is overwritten, so the loaded state is not the "
                      "written one")


def r15_negative_node_and_charge_parameters(idx, r):
    """(a) Database.load(cycle, node) with a negative node counts from the end of the cycle: node -1 is the last of the numNodes nodes, i.e.
    numNodes - 1.  The branch is EVALUATED for every cycle size 1..5 and every negative node: it yields numNodes + node when that is >= 0 and
    refuses otherwise.  (b) Core.add stamps the charge parameters (chargeTime, chargeCycle, chargeFis, chargeBu) on an assembly entering the
    core - not on one that Database.load is putting back: every store into `a.p` in Core.add sits behind `lastLocationLabel != DATABASE`."""
    from ..minieval import MiniEval, Raised
    ld = idx.method(DB + ".Database", "load")
    neg = [x for x in ld.node.body if isinstance(x, ast.If) and norm(x.test) in ("node < 0", "0 > node")]
    if len(neg) != 1:
        raise AnchorMissing("Database.load: the `node < 0` branch")

    class _Body:
        body = neg[0].body
    bad = []
    for n in range(1, 6):
        for node in range(-1, -8, -1):
            def hook(call, args, n=n):
                if dotted(call.func) == "getNodesPerCycle":
                    return [n, n]
                return None
            ev = MiniEval(call_hook=hook)
            env = dict(node=node, cycle=0, cs=0)
            try:
                ev._block(_Body.body, env)
                got = env["node"]
            except Raised:
                got = "refused"
            want = n + node if n + node >= 0 else "refused"
            if got != want:
                bad.append((n, node, got, want))
    r.require(not bad, "Database.load:negative-node-counts-from-the-end", ld, node=neg[0],
              msg=f"with (nodes in the cycle, node asked, node loaded, expected) = {bad[:3]}: a from-the-end node index resolves to another snapshot than the one it names")
    add = idx.method("armi.reactor.cores.Core", "add")
    a = add.params()[1]
    sts = [s_ for s_ in iter_stores(add.node) if s_.chain and s_.chain.startswith(f"{a}.p.")]
    if len(sts) < 3:
        raise AnchorMissing("Core.add: charge parameter stores")
    for s_ in sts:
        conds = {(norm(t), p) for t, p in path_conditions(add.node, s_.stmt)}
        ok = any(("DATABASE" in c and "lastLocationLabel" in c) and ((("!=" in c) and p) or (("==" in c) and not p)) for c, p in conds)
        r.require(ok, f"Core.add:{s_.attr}:not-when-loading", add, node=s_.stmt,
                  msg=f"`{norm(s_.stmt)}` also runs while Database.load puts the assembly back into the core: the {s_.attr} read from the file is replaced by a value computed from the present state")


def r17_loaded_state_not_recomputed(idx, r):
    """(a) Core.processLoading works out the core's mesh parameters (axialMesh, referenceBlockAxialMesh) from the assemblies only when the core
    was NOT loaded from a database: every store into those parameters lies on the `dbLoad` false side and under no other alternative.
    (b) Component.finalizeLoadingFromDB hands the stored theoretical-density fraction to the material on every path - a material class whose
    own default is not 1.0 (B4C: 0.9) otherwise keeps its default when 1.0 was stored.  (c) the xsType of a block is rebuilt from its stored
    number by getXSTypeLabelFromNumber: the codec rule of C20 (R20.4) decides that conversion here too."""
    from .c20 import r4_label_codec
    f = idx.method("armi.reactor.cores.Core", "processLoading")
    flag = next((p_ for p_ in f.params() if p_.lower() == "dbload"), None)
    sts = [s_ for s_ in iter_stores(f.node) if s_.chain in ("self.p.axialMesh", "self.p.referenceBlockAxialMesh")]
    if flag is None or len(sts) < 2:
        raise AnchorMissing("Core.processLoading: dbLoad and the mesh parameter stores")
    for s_ in sts:
        conds = [(norm(t), p_) for t, p_ in path_conditions(f.node, s_.stmt) if flag in {x.id for x in ast.walk(t) if isinstance(x, ast.Name)}]
        ok = bool(conds) and all((c == flag and not p_) or (c == f"not {flag}" and p_) for c, p_ in conds)
        r.require(ok, f"processLoading:{s_.attr}:only-when-not-loading", f, node=s_.stmt,
                  msg=f"`{norm(s_.stmt)[:70]}` runs under {conds}: on a database load the stored mesh parameter is replaced by one recomputed from the present block heights")
    g = idx.method("armi.reactor.components.component.Component", "finalizeLoadingFromDB")
    fl = Flow(g.node, lambda nd: ["td"] if isinstance(nd, ast.Call) and call_attr(nd) == "adjustTD" else []).run()
    r.require(not fl.must_at_normal_exits("td"), "finalizeLoadingFromDB:theoretical-density-applied-on-every-path", g,
              msg="a path leaves finalizeLoadingFromDB without material.adjustTD(...): the material keeps the default density fraction of its class although another one was stored")
    # only the clause that concerns the load path (the number stored is split at the encoder's field width); the label-range clauses of
    # R20.4 are a recorded finding of C20 (F11) and are not repeated here

    class _Only:
        def __init__(self, inner, keys):
            self.inner, self.keys = inner, keys

        def require(self, cond, key, *a, **k):
            return self.inner.require(cond, key, *a, **k) if key in self.keys else None

        def violate(self, key, *a, **k):
            return self.inner.violate(key, *a, **k) if key in self.keys else None

        def ok(self, key, *a, **k):
            return self.inner.ok(key, *a, **k) if key in self.keys else None

        def undecided(self, key, *a, **k):
            return self.inner.undecided(key, *a, **k) if key in self.keys else None

        def error(self, msg):
            return self.inner.error(msg)
    r4_label_codec(idx, _Only(r, {"decoder-slices"}))


def r16_pairing(idx, r):
    from ..pairing import pairing_rule
    pairing_rule(idx, r, ["armi.bookkeeping.db"], 60)


def r14_file_values_win(idx, r):
    """(a) Database.load reads every stored parameter and then calls _assignBlueprintsParams.  Whatever that step assigns comes AFTER the file
    values, so it must not reach an object whose parameters were read: today it looks the loaded objects up under their class OBJECT in a table
    the layout keys by class NAME, i.e. it touches nothing.  Any form of the step that does reach loaded objects must guard each store by a test
    that the file did not provide the parameter; otherwise a state saved with a value that differs from the blueprint loads with the blueprint's.
    (b) on load, Core.add -> orientBlocks -> autoCreateSpatialGrids runs for every block: a block that already has its lattice (rebuilt from the
    file, possibly rotated) must keep the locators of its children - every store into a child's spatialLocator there sits behind
    `self.spatialGrid is None`.  (c) the stored flag order is the bit order (shared with R05.4)."""
    ld = idx.method(DB + ".Database", "load")
    ab = idx.method(DB + ".Database", "_assignBlueprintsParams")
    if ab is None or not any(dotted(c.func) == "self._assignBlueprintsParams" for c in iter_calls(ld.node)):
        r.ok("blueprint-step-absent", ld)
    else:
        sts = [s_ for s_ in iter_stores(ab.node) if s_.kind == "subscript" and norm(s_.node.value).endswith(".p")]
        for s_ in sts:
            comp = norm(s_.node.value)[:-2]
            loop = next((x for x in walk_local(ab.node) if isinstance(x, ast.For) and norm(x.target) == comp), None)
            inert = loop is not None and isinstance(loop.iter, ast.Subscript) and norm(loop.iter.value) == ab.params()[-1] and isinstance(loop.iter.slice, ast.Name)
            if inert:
                outer = next((x for x in walk_local(ab.node) if isinstance(x, ast.For) and isinstance(x.target, ast.Tuple) and any(norm(e) == norm(loop.iter.slice) for e in x.target.elts)), None)
                inert = outer is not None and isinstance(outer.iter, ast.Tuple) and all(isinstance(e, ast.Tuple) and isinstance(e.elts[0], ast.Name) and e.elts[0].id[:1].isupper() for e in outer.iter.elts)
            guarded = any(("not in" in norm(t) and p) or ("is None" in norm(t) and p) or ("NoDefault" in norm(t)) for t, p in path_conditions(ab.node, s_.stmt) if comp in norm(t))
            r.require(inert or guarded, "_assignBlueprintsParams:never-overrides-file-values", ab, node=s_.stmt,
                      msg=f"`{norm(s_.stmt)}` runs after the parameters were read from the file and reaches the loaded objects without testing whether the file provided the value: a snapshot whose "
                          "nozzleType / hotChannelFactors / control-rod elevations differ from the blueprint loads with the blueprint's values")
    ac = idx.method("armi.reactor.blocks.HexBlock", "autoCreateSpatialGrids")
    sl = [s_ for s_ in iter_stores(ac.node) if s_.attr == "spatialLocator" and s_.chain and not s_.chain.startswith("self.")]
    if len(sl) < 2:
        raise AnchorMissing("HexBlock.autoCreateSpatialGrids: stores into the children's spatialLocator")
    for s_ in sl:
        conds = {(norm(t), p) for t, p in path_conditions(ac.node, s_.stmt)}
        r.require(("self.spatialGrid is None", True) in conds or ("self.spatialGrid is not None", False) in conds, f"autoCreateSpatialGrids:{norm(s_.value)[:30]}:only-for-a-block-without-grid", ac, node=s_.stmt,
                  msg=f"`{norm(s_.stmt)[:60]}` also runs for a block that already has its pin lattice: on load every auto-gridded block gets its pins re-seated in the un-rotated order, so a saved rotated "
                      "block comes back with other lattice sites")
    from .c05 import r4_flags
    r4_flags(idx, r)


def r_borrowed_r04_18(idx, r):
    """clauses of C05/C16 the round trip of a reactor rests on: None sentinels per dtype (R05.2), bounded flag-bit remapping (R05.10), restoreBackup honours the keep-set (R16.3)"""
    from ..report import Only
    from .c05 import r2_sentinels, r10_bit_loop_and_decode_siblings
    from .c16 import r3_keepset
    r2_sentinels(idx, Only(r, ["sentinel:"]))
    r10_bit_loop_and_decode_siblings(idx, Only(r, ["remapBits"]))
    r3_keepset(idx, Only(r, ["Parameter.restoreBackup:keep-set"]))


def to_write_rule(idx, r):
    """shared with C05 (R05.19): which parameters a snapshot holds is decided by ParameterDefinitionCollection.toWriteToDB; its filter is
    EVALUATED (MiniEval) for every assigned word 0..7 and every mask 1..7: a parameter marked for saving is written when its assigned word
    OVERLAPS the mask.  Requiring all bits of the mask drops nearly every parameter as soon as one since-bit has been cleared."""
    from ..minieval import MiniEval
    f = idx.method("armi.reactor.parameters.parameterDefinitions.ParameterDefinitionCollection", "toWriteToDB")
    comp = next((x for x in ast.walk(f.node) if isinstance(x, (ast.ListComp, ast.GeneratorExp)) and x.generators[0].ifs), None)
    if comp is None:
        raise AnchorMissing("toWriteToDB: the filtering comprehension")
    v = norm(comp.generators[0].target)
    bad = []
    for save in (True, False):
        for a in range(8):
            for m in range(1, 8):
                env = {f"{v}.saveToDB": save, f"{v}.assigned": a, "mask": m}
                got = all(MiniEval._truth(MiniEval()._ev(c, dict(env))) for c in comp.generators[0].ifs)
                if got != (save and bool(a & m)):
                    bad.append((save, a, m, got))
    r.require(not bad, "toWriteToDB:written-iff-saved-and-assigned-within-the-mask", f, node=comp,
              msg=f"(saveToDB, assigned, mask, selected) = {bad[:4]}: assigned parameters are left out of the snapshot and read back as their defaults")


def r19_codes_symmetry_and_selection(idx, r):
    """(a) the selection of parameters to write (to_write_rule).  (b) Grid.symmetry's setter stores the full symmetry string - domain, boundary
    and the through-centre marker - for every non-empty input: a string cut down to the domain loses `through center`, and a Cartesian core
    rebuilt from the database classifies its axis cells differently."""
    to_write_rule(idx, r)
    g = idx.cls("armi.reactor.grids.grid.Grid")
    f = next((m_ for m_ in idx.module("armi.reactor.grids.grid").all_funcs() if m_.cls is g and m_.name == "symmetry" and len(m_.params()) == 2), None)
    if f is None:
        raise AnchorMissing("Grid.symmetry setter")
    sts = [s_ for s_ in iter_stores(f.node) if s_.chain == "self._symmetry" and s_.value is not None]
    if not sts:
        raise AnchorMissing("Grid.symmetry setter: self._symmetry = ...")
    env = single_assign_env(f.node)
    for s_ in sts:
        v = norm(propagate(s_.value, env))
        r.require(v in ("''", '""') or (v.startswith("str(") and ".domain" not in v and "fromAny" in v), "Grid.symmetry:full-string-stored", f, node=s_.stmt,
                  msg=f"`{norm(s_.stmt)}` does not store the complete symmetry string: boundary condition / through-centre marker are lost when a grid is rebuilt from stored parameters")


def _same(a, b):
    from ..astutil import same_expr
    return same_expr(a, b)


class _PickLiteral(ast.NodeTransformer):
    """(a, b, c)[1] -> b   (after copy propagation a local tuple that is indexed with a literal stands for that element only)"""

    def visit_Subscript(self, n):
        self.generic_visit(n)
        if isinstance(n.value, (ast.Tuple, ast.List)) and isinstance(n.slice, ast.Constant) and isinstance(n.slice.value, int) \
                and not isinstance(n.slice.value, bool) and -len(n.value.elts) <= n.slice.value < len(n.value.elts) \
                and not any(isinstance(e, ast.Starred) for e in n.value.elts):
            return n.value.elts[n.slice.value]
        return n


def _covered_parts(key, whole, n):
    """which of the n positional parts of the record `whole` (an expression) the expression `key` depends on: the record itself -> all;
    record[i] / record[a:b] with literal bounds -> those positions; anything else that mentions the record (a call on it, a non-literal
    subscript) is counted as all of it (generous: the rule only reports parts that are provably left out)."""
    if _same(key, whole):
        return set(range(n))
    if isinstance(key, ast.Subscript) and _same(key.value, whole):
        sl = key.slice

        def lit(x):
            if x is None:
                return True, None
            if isinstance(x, ast.UnaryOp) and isinstance(x.op, ast.USub) and isinstance(x.operand, ast.Constant) and isinstance(x.operand.value, int):
                return True, -x.operand.value
            if isinstance(x, ast.Constant) and isinstance(x.value, int) and not isinstance(x.value, bool):
                return True, x.value
            return False, None
        if isinstance(sl, ast.Slice):
            oks, vals = zip(*(lit(x) for x in (sl.lower, sl.upper, sl.step)))
            if all(oks) and vals[2] != 0:
                return set(range(n)[slice(*vals)])
            return set(range(n))
        ok_, v = lit(sl)
        if ok_ and v is not None and -n <= v < n:
            return {v % n}
        return set(range(n))
    out = set()
    for ch in ast.iter_child_nodes(key):
        out |= _covered_parts(ch, whole, n)
    return out


def r20_interned_records(idx, r):
    """The layout stores each DISTINCT grid once and gives every object the index of its grid: `table[key] = len(records)` / `records.append(record)`
    / `index = table[key]`.  Two objects get the same stored grid exactly when their keys are equal, so the key must determine the record:
    every component of the record appended - the grid class name and each GridParameters field that reduce() returns - has to take part in the
    key; the same key has to be used where the table is tested, filled and consulted; and the index memoised is the position the record is
    appended at.  Enumerated for every such interning table in armi.bookkeeping.db (today: the grids of Layout._createLayout)."""
    fields = _gp_fields(idx)
    sites = []
    for m in idx.modules.values():
        if not m.name.startswith("armi.bookkeeping.db") or ".tests" in m.name:
            continue
        for f in m.all_funcs():
            stores = [s_ for s_ in iter_stores(f.node, include_nested=False) if s_.kind == "subscript" and s_.chain and s_.value is not None]
            if not stores:
                continue
            env = single_assign_env(f.node)
            for s_ in stores:
                v = propagate(s_.value, env)
                if not (isinstance(v, ast.Call) and dotted(v.func) == "len" and len(v.args) == 1 and dotted(v.args[0])):
                    continue
                rec = dotted(v.args[0])
                apps = [c for c in iter_calls(f.node, include_nested=False) if dotted(c.func) == rec + ".append" and len(c.args) == 1]
                if apps:
                    sites.append((f, env, s_, rec, apps))
    if not any(f.qualname.endswith("Layout._createLayout") for f, *_ in sites):
        raise AnchorMissing("Layout._createLayout: the table that memoises the index of each distinct grid (`table[key] = len(self.gridParams)`)")
    for f, env, s_, rec, apps in sites:
        tab = s_.chain
        tag = f"{f.qualname}:{tab.rsplit('.', 1)[-1]}"
        if len(apps) != 1:
            raise AnalysisError(f"{f.qualname}: {len(apps)} appends to {rec}; one expected next to `{norm(s_.stmt)}`")
        key = _PickLiteral().visit(propagate(s_.node.slice, env))
        record = _PickLiteral().visit(propagate(apps[0].args[0], env))
        # (a) every component of the stored record takes part in the key
        parts = list(record.elts) if isinstance(record, ast.Tuple) else [record]
        n_comp = 0
        for e in parts:
            if isinstance(e, ast.Call) and call_attr(e) == "reduce" and not e.args and not e.keywords:
                got = _covered_parts(key, e, len(fields))
                for i, fname in enumerate(fields):
                    n_comp += 1
                    r.require(i in got, f"{tag}:key-covers:{fname}", f, node=s_.stmt,
                              msg=f"the key `{norm(key)[:110]}` under which a stored grid is shared leaves out `{fname}` of `{norm(e)}`: a grid that differs from an earlier one of the "
                                  f"reactor only in its {fname} is not stored; the object written second gets the earlier grid's index and loads back with the earlier grid's {fname}")
            else:
                n_comp += 1
                label = "class-name" if isinstance(e, ast.Attribute) and e.attr == "__name__" else norm(e)[:40]
                r.require(any(_same(x, e) for x in ast.walk(key)), f"{tag}:key-covers:{label}", f, node=s_.stmt,
                          msg=f"the key `{norm(key)[:110]}` under which a stored record is shared does not contain `{norm(e)}` of the record `{norm(record)[:80]}`: two objects that differ "
                              "only there share the record stored first, and the second loads back with the first one's")
        if f.qualname.endswith("Layout._createLayout") and n_comp < len(fields) + 1:
            raise AnalysisError(f"Layout._createLayout: the stored grid description `{norm(record)[:80]}` is not (class name, <grid>.reduce()) any more")
        # (b) one key where the table is tested, filled and consulted
        uses = []
        for x in walk_local(f.node):
            if isinstance(x, ast.Compare) and len(x.ops) == 1 and isinstance(x.ops[0], (ast.In, ast.NotIn)) and dotted(x.comparators[0]) == tab:
                uses.append(("tested", x.left))
            elif isinstance(x, ast.Subscript) and isinstance(x.ctx, ast.Load) and dotted(x.value) == tab:
                uses.append(("consulted", x.slice))
            elif isinstance(x, ast.Call) and dotted(x.func) in (tab + ".get", tab + ".setdefault", tab + ".pop") and x.args:
                uses.append(("consulted", x.args[0]))
        if not any(k == "consulted" for k, _ in uses):
            raise AnalysisError(f"{f.qualname}: `{tab}` is filled but never consulted")
        other = [(k, norm(propagate(e, env))) for k, e in uses if not _same(_PickLiteral().visit(propagate(e, env)), key)]
        r.require(not other, f"{tag}:one-key-tested-filled-consulted", f, node=s_.stmt,
                  msg=f"`{tab}` is filled under `{norm(key)[:80]}` but {other[:2]} under another expression: an object is given the index memoised for another grid (or none is found)")
        # (c) the index memoised is the position the record is appended at: len(records) is taken before the append, in the same block
        ev_stmt = s_.stmt
        if isinstance(s_.value, ast.Name) and s_.value.id in env:
            ev_stmt = next((t.stmt for t in iter_stores(f.node, include_nested=False) if isinstance(t.node, ast.Name) and t.attr == s_.value.id), s_.stmt)
        par = f.module.parents()
        app_stmt = apps[0]
        while not isinstance(app_stmt, ast.stmt):
            app_stmt = par[app_stmt]
        block = next((b for holder in [par.get(ev_stmt)] if holder is not None for b in (getattr(holder, nm, None) for nm in ("body", "orelse", "finalbody"))
                      if isinstance(b, list) and ev_stmt in b), None)
        ok_pos = block is not None and app_stmt in block and block.index(ev_stmt) < block.index(app_stmt)
        r.require(ok_pos, f"{tag}:index-is-position-of-the-record", f, node=s_.stmt,
                  msg=f"`{norm(s_.stmt)[:80]}` must take len({rec}) immediately before `{norm(app_stmt)[:60]}` on the same path: otherwise the memoised index names another "
                      "stored grid than the one appended for this key, and objects load back with a neighbour's grid")


def run(idx, chk):
    chk.explanation = (
        "C04: Layout.writeToDB/_readLayout, _createLayout/_initComps/_compose, _packLocationsV3/_unpackLocationsV2, "
        "StructuredGrid.__init__/reduce/GridParameters and the linked-dimension codec are sibling writer/reader pairs; "
        "dataset names, field mapping, per-object append counts, tuple orders, location codes and row counts, constructor "
        "argument order and the link format/regex are compared statically. Equality of stored values is NOT decided."
    )
    chk.undecided_clauses = ["equality of every parameter value", "load twice gives equal reactors", "HDF5 semantics"]
    chk.run_rule("R04.1", "layout datasets: names written = names read, each read into the field it was written from; grid datasets feed the same-named constructor argument",
                 lambda r: r1_layout_names(idx, r), floor=40, necessary="a dataset read into another field or never read loses that part of the tree description")
    chk.run_rule("R04.2", "_createLayout appends exactly once to each parallel array per object, in child order; _initComps/_compose consume them positionally",
                 lambda r: r2_parallel_arrays(idx, r), floor=15, necessary="the flat layout is positional: one missing or extra append misaligns every later object")
    chk.run_rule("R04.2b", "_compose rebuilds numChildren children depth-first, resolves linked dimensions, then adds every child in order",
                 lambda r: r2b_compose(idx, r), floor=7, necessary="the depth-first inverse of _createLayout")
    chk.run_rule("R04.3", "location codes produced are accepted; rows emitted per code = rows consumed; ints stay ints",
                 lambda r: r3_location_codes(idx, r), floor=12, necessary="grid locations (incl. multi-location pins and free coordinates) are stored as code + rows")
    chk.run_rule("R04.4", "GridParameters field order = StructuredGrid.__init__ order = reduce() order = reader call order; each from its own attribute",
                 lambda r: r4_grid_ctor(idx, r), floor=19, necessary="a grid is rebuilt as cls(*stored); a permuted or mis-sourced field rebuilds another grid")
    chk.run_rule("R04.6", "ragged parameter arrays: offset advances by the number of values appended; each entry records (offset and shape) xor none", lambda r: r6_jagged(idx, r), floor=6,
                 necessary="every assigned persistent parameter (incl. ragged pin-level arrays) loads back equal")
    chk.run_rule("R04.7", "add() overrides with an optional location keep a child's own locator (as Database._compose relies on)", lambda r: r7_locator_kept_on_add(idx, r), floor=3,
                 necessary="loaded objects sit at the grid locations they were saved at")
    chk.run_rule("R04.5", "linked dimensions: written '{name}.{dim}' matches COMPONENT_LINK_REGEX; reader restores link or value; resolve installs the link",
                 lambda r: r5_linked_dims(idx, r), floor=7, necessary="dimensions (linked or not) must come back as they were")
    chk.run_rule("R04.8", "the mutually overwriting setters of envGroup / envGroupNum are inverse on every admitted value (exhaustive)", lambda r: r8_linked_setters(idx, r), floor=2,
                 necessary="both parameters are stored and both setters run on load: a non-inverse pair changes the group of a loaded block")
    chk.run_rule("R04.9", "indexing a grid with a list yields a MultiIndexLocation on every path (what 'M:n' locations are rebuilt through)", lambda r: r9_multi_location_bridge(idx, r), floor=3,
                 necessary="location kinds written = location kinds rebuilt, also for single-site multi-locations")
    chk.run_rule("R04.10", "Layout.writeToDB never narrows the numeric type of what it stores", lambda r: r10_no_narrowing(idx, r), floor=12,
                 necessary="a grid rebuilt from the stored constructor arguments has the same bounds and steps, bit for bit")
    chk.run_rule("R04.11", "the geometry label of a grid is written through its canonicalising property only", lambda r: r11_grid_metadata_owner(idx, r), floor=2,
                 necessary="a grid rebuilt from its stored constructor arguments has the same metadata")
    chk.run_rule("R04.12", "when the hierarchy is rebuilt, only index-kind locations are looked up on the parent's grid", lambda r: r12_compose_location_kinds(idx, r), floor=1,
                 necessary="every object is loaded with the kind of location it was written with")
    chk.run_rule("R04.13", "placing an assembly that was read from a database changes none of its parameters", lambda r: r13_placing_on_load_changes_nothing(idx, r), floor=2,
                 necessary="loading returns the state as written")
    chk.run_rule("R04.14", "values read from the file are final: the blueprint step and the auto-grid step leave loaded state alone; stored flag order is the bit order", lambda r: r14_file_values_win(idx, r), floor=5,
                 necessary="loading returns the state as written")
    chk.run_rule("R04.15", "a negative node counts from the end of the cycle (evaluated); Core.add stamps charge parameters only on assemblies that are not being loaded", lambda r: r15_negative_node_and_charge_parameters(idx, r), floor=4,
                 necessary="the state loaded for a time node is the state written for that node")
    chk.run_rule("R04.16", "arguments stand at the parameter they are named after; sibling calls forward the same pass-through parameters", lambda r: r16_pairing(idx, r), floor=1,
                 necessary="the reader is handed the cycle, node and label the caller named")
    chk.run_rule("R04.17", "mesh parameters are recomputed only when not loading; the stored density fraction is always applied; the xsType codec (R20.4)", lambda r: r17_loaded_state_not_recomputed(idx, r), floor=4,
                 necessary="every parameter of the loaded reactor equals the written one")
    chk.run_rule("R04.18", "clauses of C05/C16 the round trip of a reactor rests on: None sentinels per dtype (R05.2), bounded flag-bit remapping (R05.10), restoreBackup honours ", lambda r: r_borrowed_r04_18(idx, r), floor=3,
                 necessary="the loaded state equals the written one, None and flags included")
    chk.run_rule("R04.19", "a parameter is written iff saved and assigned within the mask (evaluated); the grid stores its full symmetry string", lambda r: r19_codes_symmetry_and_selection(idx, r), floor=2,
                 necessary="every assigned parameter and the grid symmetry of the loaded reactor equal the written ones")
    chk.run_rule("R04.20", "the key under which a stored grid is shared between objects covers the grid's class name and every GridParameters field; one key is tested, filled and consulted; the index memoised is the record's position",
                 lambda r: r20_interned_records(idx, r), floor=9,
                 necessary="every object loads back with its own grid: two objects may share one stored grid only if class and all constructor arguments (unit steps, bounds, limits, offset, geomType, symmetry) agree")
