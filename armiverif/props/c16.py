"""C16 - retained state restored exactly; parameter copies independent; read-only respected:
scope protocol of StateRetainer, push/pop shape of every backUp/restoreBackup pair, keep-set
ordering, serial number ownership, read-only guard dominance and bypasses, in-place mutation of
saved-by-reference state and of parameter-held containers.  Structural necessary conditions only."""
from __future__ import annotations

import ast

from ..astutil import call_attr, iter_calls, iter_stores, propagate, single_assign_env, walk_local, same_expr
from ..flow import Flow, always_exits, path_conditions
from ..index import AnalysisError, AnchorMissing, dotted, norm
from ..own import all_stores, check_writers

PC = "armi.reactor.parameters.parameterCollections.ParameterCollection"


def r1_scope(idx, r):
    sr = idx.cls("armi.reactor.composites.StateRetainer")
    en, ex, hp = sr.methods.get("__enter__"), sr.methods.get("__exit__"), sr.methods.get("_enterExitHelper")
    if not (en and ex and hp):
        raise AnchorMissing("StateRetainer.__enter__/__exit__/_enterExitHelper")

    def lam_of(f):
        c = next((c for c in iter_calls(f.node) if dotted(c.func) == "self._enterExitHelper"), None)
        return c.args[0] if c is not None and c.args and isinstance(c.args[0], ast.Lambda) else None
    le, lx = lam_of(en), lam_of(ex)
    r.require(le is not None and norm(le.body) == f"{le.args.args[0].arg}.backUp()", "enter-backs-up", en, msg="entering the scope must back up every object through the shared traversal")
    r.require(lx is not None and norm(lx.body) == f"{lx.args.args[0].arg}.restoreBackup(self.paramsToApply)", "exit-restores", ex, msg="leaving the scope must restore every object, passing the keep-set")
    r.require(any(isinstance(n, ast.Return) and norm(n.value) == "self" for n in walk_local(en.node)), "enter-returns-self", en, msg="__enter__ returns the retainer")
    rets = [n for n in walk_local(ex.node) if isinstance(n, ast.Return) and n.value is not None and norm(n.value) not in ("None", "False")]
    r.require(not rets, "exit-does-not-swallow", ex, msg="__exit__ must not swallow exceptions")
    env = single_assign_env(hp.node)
    loops = [n for n in hp.node.body if isinstance(n, ast.For)]
    ok = len(loops) == 2
    if ok:
        it = norm(propagate(loops[0].iter, env))
        ok = it == "itertools.chain((self.composite,), self.composite.iterChildrenWithMaterials(deep=True))"
        ok = ok and any(norm(s) == f"func({norm(loops[0].target)})" for s in loops[0].body) and norm(loops[1].body[0]) == f"func({norm(loops[1].target)})"
        calls = [s for s in loops[0].body if norm(s) == f"func({norm(loops[0].target)})"]
        ok = ok and bool(calls)  # applied to every visited object, unconditionally
        upd = any(call_attr(c) == "update" and norm(c.func.value) == norm(loops[1].iter) for c in iter_calls(loops[0]))
        ok = ok and upd
    r.require(ok, "traversal", hp, msg="both directions must visit the object, everything beneath it (with materials, deep) and then every collected parameter definition")
    init = sr.methods.get("__init__")
    env_init = single_assign_env(init.node)
    r.require(any(s.chain == "self.paramsToApply" and s.value is not None and "paramsToApply" in norm(propagate(s.value, env_init)) for s in iter_stores(init.node)), "keep-set-stored", init, msg="the keep-set must be remembered")
    rs = idx.cls("armi.reactor.composites.ArmiObject").resolve("retainState")
    if rs is not None:
        r.require(any(isinstance(n, ast.Return) and isinstance(n.value, ast.Call) and call_attr(n.value) == "StateRetainer" and norm(n.value.args[0]) == "self" for n in walk_local(rs.node)), "retainState", rs,
                  msg="retainState must open a StateRetainer on self with the given keep-set")


def _tuple_push(cls):
    """(field, saved elts, restore targets) for a class using the tuple push/pop idiom, else None."""
    b, rb = cls.methods["backUp"], cls.methods["restoreBackup"]
    for s in iter_stores(b.node):
        if s.kind == "assign" and s.chain and s.chain.startswith("self.") and isinstance(s.value, ast.Tuple):
            return s.chain, s, b, rb
    return None


def r2_push_pop(idx, r):
    pairs = [c for c in idx.all_classes() if "backUp" in c.methods and "restoreBackup" in c.methods]
    if len(pairs) < 6:
        raise AnalysisError(f"only {len(pairs)} backUp/restoreBackup implementations found")
    for c in sorted(pairs, key=lambda c: c.fq):
        b, rb = c.methods["backUp"], c.methods["restoreBackup"]
        key = f"{c.name}"
        base_calls = [x for x in iter_calls(b.node) if (dotted(x.func) or "").endswith(".backUp") and norm(x.args[0] if x.args else ast.Constant(0)) == "self"]
        if base_calls:  # delegating implementation (Component): same brackets around both base calls
            rbase = [x for x in iter_calls(rb.node) if (dotted(x.func) or "").endswith(".restoreBackup") and x.args and norm(x.args[0]) == "self"]
            # both sides lift the dimension links out of the parameters around the delegated call (a link holds another component);
            # which links a component has is part of the state: backUp pushes the links of that moment, restoreBackup re-installs
            # THOSE (popped), not the ones found at restore time
            def order(fn, base_suffix):
                seq = []
                for n_ in walk_local(fn.node):
                    if isinstance(n_, ast.Call):
                        d_ = dotted(n_.func) or ""
                        if d_ == "self._getLinkedDimsAndValues":
                            seq.append(("strip", n_))
                        elif d_.endswith(base_suffix) and n_.args and norm(n_.args[0]) == "self":
                            seq.append(("base", n_))
                        elif d_ == "self._restoreLinkedDims":
                            seq.append(("restore", n_))
                return sorted(seq, key=lambda t: (t[1].lineno, t[1].col_offset))
            sb, sr = order(b, ".backUp"), order(rb, ".restoreBackup")
            okb = [k for k, _ in sb] == ["strip", "base", "restore"]
            okr = bool(rbase) and [k for k, _ in sr] == ["strip", "base", "restore"] and any("paramsToApply" in norm(a) for a in sr[1][1].args)
            r.require(okb and okr, key + ":delegates-with-same-brackets", b, msg=f"backUp {[k for k, _ in sb]} / restoreBackup {[k for k, _ in sr]}: linked dimensions must be lifted out before and put back after delegating, on both sides")
            if okb and okr:
                kept = next((s_ for s_ in iter_stores(b.node) if isinstance(s_.node, ast.Name) and isinstance(s_.value, ast.Call) and dotted(s_.value.func) == "self._getLinkedDimsAndValues"), None)
                push = [s_ for s_ in iter_stores(b.node) if s_.chain and s_.chain.startswith("self._") and s_.kind == "assign" and isinstance(s_.value, ast.Tuple) and kept is not None
                        and any(norm(e) == kept.attr for e in s_.value.elts) and any(s_.chain in norm(e) or s_.attr in norm(e) for e in s_.value.elts if norm(e) != kept.attr)]
                r.require(kept is not None and norm(sb[2][1].args[0]) == kept.attr and len(push) == 1, key + ":links-pushed", b,
                          msg="backUp must put the lifted links back AND push them (with the previous entry) onto a per-component stack: which dimensions are linked is part of the state a scope returns to")
                if len(push) == 1:
                    fld = push[0].chain
                    pops = [x for x in walk_local(rb.node) if isinstance(x, ast.Assign) and isinstance(x.targets[0], ast.Tuple) and norm(x.value) == fld and len(x.targets[0].elts) == 2 and norm(x.targets[0].elts[1]) == fld]
                    okp = len(pops) == 1 and norm(sr[2][1].args[0]) == norm(pops[0].targets[0].elts[0]) and pops[0].lineno < sr[2][1].lineno
                    r.require(okp, key + ":links-popped-and-reinstalled", rb, node=sr[2][1],
                              msg=f"restoreBackup re-installs `{norm(sr[2][1].args[0])}`: it must re-install the links saved by the matching backUp (popped from {fld}), not the links found at restore time - "
                                  "otherwise a link broken inside the scope comes back as an unset parameter and a link made inside the scope survives it")
            continue
        tp = _tuple_push(c)
        if tp is not None:
            fld, s, _, _ = tp
            saved = [norm(e) for e in s.value.elts]
            r.require(fld in saved, key + ":pushes", b, node=s.stmt, msg=f"backUp overwrites {fld} with {saved}: the previous backup is lost, so nested scopes restore the inner scope's state")
            # restore: tuple target = self.<fld>
            rs_ = [x for x in iter_stores(rb.node) if x.kind == "assign" and isinstance(x.stmt, ast.Assign) and isinstance(x.stmt.targets[0], ast.Tuple) and norm(x.stmt.value) == fld]
            stmts = []
            for x in rs_:
                if x.stmt not in stmts:
                    stmts.append(x.stmt)
            if not stmts:
                # the same pop written field by field: `saved = self.<fld>; self.a = saved[0]; ...; self.<fld> = saved[-1]` (any temporaries)
                envr = single_assign_env(rb.node)
                bypos = {}
                for x in iter_stores(rb.node):
                    if x.kind != "assign" or not (x.chain or "").startswith("self.") or x.value is None:
                        continue
                    v = propagate(x.value, envr)
                    if isinstance(v, ast.Subscript) and norm(v.value) == fld:
                        try:
                            k_ = ast.literal_eval(v.slice)
                        except Exception:
                            continue
                        if isinstance(k_, int):
                            bypos.setdefault(k_ % len(saved), []).append(x.chain)
                if not bypos:
                    r.violate(key + ":pops", rb, f"restoreBackup does not unpack {fld}")
                    continue
                tg = [(bypos.get(i_) or ["<not restored>"])[0] for i_ in range(len(saved))]
                okpos = all(len(bypos.get(i_, [])) == 1 for i_ in range(len(saved)) if saved[i_].startswith("self.")) and all(t == sv for t, sv in zip(tg, saved) if sv.startswith("self."))
                r.require(okpos, key + f":pop-order@{'+'.join(tg)}", rb, msg=f"saved {saved} but restored into {tg}: positions must correspond and the previous backup must be re-installed")
                continue
            for st in stmts:
                tg = [norm(e) for e in st.targets[0].elts]
                okpos = len(tg) == len(saved) and all(t == sv or (not t.startswith("self.")) for t, sv in zip(tg, saved)) and tg[saved.index(fld)] == fld if fld in saved else False
                r.require(okpos, key + f":pop-order@{'+'.join(tg)}", rb, node=st, msg=f"saved {saved} but restored into {tg}: positions must correspond and the previous backup must be re-installed")
            continue
        # pickle form (ParameterCollection)
        txtb, txtr = norm(b.node), norm(rb.node)
        if "pickle.dumps(self.__getstate__())" in txtb:
            ap = c.methods.get("applyParameters")
            nested = ap is not None and "'_backup'" in norm(ap.node) and "_allFields" in norm(ap.node)
            r.require(nested, key + ":backup-nested-in-state", ap or b, msg="`_backup` must be one of _allFields so that the pickled state carries the previous backup (stack)")
            r.require("self.__setstate__(pickle.loads(self._backup))" in txtr, key + ":restores-pickled-state", rb, msg="restoreBackup must re-install the pickled state (which re-installs the previous backup)")
            st = next((s for s in iter_stores(b.node) if s.chain == "self._backup"), None)
            r.require(st is not None and norm(st.value) == "pickle.dumps(self.__getstate__())", key + ":saves-full-state", b, msg="the backup must be the full state")
            continue
        body = [x for x in b.node.body if not (isinstance(x, ast.Expr) and isinstance(x.value, ast.Constant))]
        if all(isinstance(x, (ast.Raise, ast.Pass)) for x in body):
            continue  # abstract declaration
        r.undecided(key, b, "backUp/restoreBackup idiom not recognised")


def r3_keepset(idx, r):
    rb = idx.method(PC, "restoreBackup")

    def ev(n):
        if isinstance(n, ast.Assign) and norm(n.targets[0]) == "currentData" and "getattr(self, pd.fieldName)" in norm(n.value):
            return ["capture"]
        if isinstance(n, ast.Call) and dotted(n.func) == "self.__setstate__":
            return ["restore"]
        if isinstance(n, ast.Call) and dotted(n.func) == "setattr" and norm(n.args[0]) == "self" and "currentValue" in norm(n.args[-1]):
            return ["reapply"]
        return []
    fl = Flow(rb.node, ev).run()
    rs = next((c for c in iter_calls(rb.node) if dotted(c.func) == "self.__setstate__"), None)
    if rs is None:
        raise AnalysisError("ParameterCollection.restoreBackup: __setstate__ call not found")
    cap = next((n for n in walk_local(rb.node) if ev(n) == ["capture"]), None)
    r.require(cap is not None and cap.lineno < rs.lineno, "capture-before-restore", rb, node=cap, msg="kept parameters' current values must be captured before the state is rolled back")
    if cap is not None:
        conds = [(norm(t), p) for t, p in path_conditions(rb.node, cap)]
        r.require(conds == [("self.assigned & SINCE_BACKUP", True)], "capture-guard", rb, node=cap, msg=f"capture happens under {conds}; it may be skipped only when nothing was assigned since the backup")
        txt = norm(cap.value)
        r.require("paramsToApply.intersection(set(self.paramDefs))" in norm(propagate(cap.value, single_assign_env(rb.node))), "capture-uses-keep-set", rb, node=cap, msg=f"the captured set must be keep-set ∩ own definitions: {txt}")
    for e in fl.normal_exits():
        r.require(e.state.get("restore", (0, 0)) == (1, 1), "always-restores", rb, msg="every path must roll the state back exactly once")
    reap = [c for c in iter_calls(rb.node) if ev(c) == ["reapply"]]
    r.require(bool(reap) and all((fl.state_before(c) or {}).get("restore", (0, 0))[0] >= 1 for c in reap), "reapply-after-restore", rb, msg="kept values must be written back after the roll-back")
    loop = next((n for n in rb.node.body if isinstance(n, ast.For) and norm(n.iter) == "currentData.items()"), None)
    r.require(loop is not None, "reapply-loop", rb, msg="every captured parameter must be considered for re-application")
    # the snapshot must still carry the enclosing scope's SINCE_BACKUP bit: it is taken BEFORE the bit is cleared
    bu = idx.method(PC, "backUp")
    if bu is None:
        raise AnchorMissing("ParameterCollection.backUp")

    def evb(n):
        if isinstance(n, ast.Assign) and norm(n.targets[0]) == "self._backup":
            return ["snap"]
        if isinstance(n, (ast.AugAssign, ast.Assign)) and norm(n.target if isinstance(n, ast.AugAssign) else n.targets[0]) == "self.assigned":
            return ["clear"]
        return []
    flb = Flow(bu.node, evb).run()
    clears = [n for n in walk_local(bu.node) if evb(n) == ["clear"]]
    r.require(bool(clears) and all((flb.state_before(c) or {}).get("snap", (0, 0))[0] >= 1 for c in clears), "backUp:snapshot-before-clearing-flag", bu, node=clears[0] if clears else bu.node,
              msg="backUp clears the SINCE_BACKUP bit before pickling the state: the snapshot forgets that the collection was modified in the ENCLOSING scope, "
                  "so after a nested scope the outer scope's keep-set is not re-applied and kept parameters revert")
    # Parameter definitions keep `assigned` only for the keep-set
    prb = idx.method("armi.reactor.parameters.parameterDefinitions.Parameter", "restoreBackup")
    branch = next((n for n in prb.node.body if isinstance(n, ast.If)), None)
    ok = branch is not None and norm(branch.test) == "self in paramsToApply"
    if ok:
        keep = [norm(e) for s in branch.body if isinstance(s, ast.Assign) and isinstance(s.targets[0], ast.Tuple) for e in s.targets[0].elts]
        drop = [norm(e) for s in branch.orelse if isinstance(s, ast.Assign) and isinstance(s.targets[0], ast.Tuple) for e in s.targets[0].elts]
        ok = "self.assigned" not in keep and "self.assigned" in drop and "self._backup" in keep and "self._backup" in drop
    r.require(ok, "Parameter.restoreBackup:keep-set", prb, node=branch, msg="a definition in the keep-set keeps its `assigned` flags, others get the saved ones back; both pop the backup")


def r4_serials(idx, r):
    allowed = {"ParameterCollection.__init__": "increment for every new collection", "Database.load": "max with the loaded serial numbers"}
    n = 0
    for attr_stores in (all_stores(idx, "GLOBAL_SERIAL_NUM"),):
        for f, s in attr_stores:
            n += 1
            key = f"GLOBAL_SERIAL_NUM:{f.module.relpath}:{f.qualname}"
            if f.qualname == "<module>":
                r.ok(key, f, node=s.stmt, msg="initial value")
                continue
            r.require(f.qualname in allowed, key, f, node=s.stmt, msg="the global serial counter may only be advanced by ParameterCollection.__init__ and Database.load")
    init = idx.method(PC, "__init__")
    body = init.node.body
    ser = next((s for s in body if isinstance(s, ast.Assign) and any(norm(t) == "self.serialNum" for t in s.targets)), None)
    load = next((s for s in body if isinstance(s, ast.If) and "_state" in norm(s.test)), None)
    ok = ser is not None and load is not None and body.index(ser) > body.index(load) and norm(ser.value) == "GLOBAL_SERIAL_NUM + 1" and any(norm(t) == "GLOBAL_SERIAL_NUM" for t in ser.targets)
    r.require(ok, "fresh-serial-after-state-load", init, node=ser, msg="the fresh serial number must be assigned unconditionally AFTER a passed-in state is loaded (a deep copy must not keep the original's number)")
    dc = idx.method(PC, "__deepcopy__")
    env = single_assign_env(dc.node)
    mk = next((c for c in iter_calls(dc.node) if norm(c.func) == "self.__class__"), None)
    ok = mk is not None and any(k.arg == "_state" and norm(propagate(k.value, env)) == "copy.deepcopy(self.__getstate__(), memo)" for k in mk.keywords)
    r.require(ok, "deepcopy-through-init", dc, node=mk, msg="a deep copy must be built by __init__(_state=deepcopy(state, memo)) so that values are copied and the serial number is fresh")
    r.require(any(s.kind == "subscript" and norm(s.node) == "memo[id(self)]" for s in iter_stores(dc.node)), "deepcopy-memo", dc, msg="the copy must be registered in memo")
    rd = idx.method(PC, "__reduce__")
    ret = next((n for n in walk_local(rd.node) if isinstance(n, ast.Return)), None)
    r.require(ret is not None and isinstance(ret.value, ast.Tuple) and len(ret.value.elts) == 3 and norm(ret.value.elts[2]) == "self.__getstate__()" and "getParameterCollection" in norm(ret.value.elts[0]), "reduce", rd,
              msg="pickling must rebuild through getParameterCollection() + __setstate__(state)")
    gs = idx.method(PC, "__getstate__")
    r.require("for fieldName in self._allFields" in norm(gs.node), "getstate-all-fields", gs, msg="state must list every field in _allFields order")
    ss = idx.method(PC, "__setstate__")
    r.require("zip(self._allFields, state)" in norm(ss.node), "setstate-all-fields", ss, msg="state must be applied in _allFields order")


def r5_readonly(idx, r):
    sa = idx.method(PC, "__setattr__")

    def ev(n):
        if isinstance(n, ast.If) and "readOnly" in norm(n.test) and always_exits(n.body) and all(any(isinstance(x, ast.Raise) for x in ast.walk(s)) for s in n.body):
            return ["guard"]
        return []
    fl = Flow(sa.node, ev).run()
    st = next((c for c in iter_calls(sa.node) if dotted(c.func) == "object.__setattr__"), None)
    r.require(st is not None and (fl.state_before(st) or {}).get("guard", (0, 0))[0] >= 1, "guard-dominates-store", sa, node=st, msg="the read-only test (raising on every arm) must dominate the actual store")
    g = next((n for n in walk_local(sa.node) if ev(n)), None)
    r.require(g is not None and norm(g.test) == "getattr(self, 'readOnly', False)", "guard-reads-flag", sa, node=g, msg="the guard must test the collection's own readOnly flag")
    # bypasses of __setattr__ on a ParameterCollection
    pc = idx.cls(PC)
    allowed = {"ParameterCollection.__init__": "loading _state before the collection is live", "ParameterCollection.__setattr__": "the guarded store itself"}
    n = 0
    for f in idx.all_funcs():
        in_pc = f.cls is not None and f.cls.is_subclass_of(pc)
        for s in iter_stores(f.node):
            hit = False
            if s.kind in ("subscript", "subscript-aug", "subscript-del") and s.chain and s.chain.endswith("__dict__"):
                base = s.chain[: -len(".__dict__")]
                hit = (in_pc and base == "self") or base.endswith(".p")
            elif s.kind == "mutcall" and s.chain and s.chain.endswith("__dict__") and ((in_pc and s.chain == "self.__dict__") or s.chain.endswith(".p.__dict__")):
                hit = True
            elif s.kind == "setattr" and isinstance(s.node, ast.Call) and dotted(s.node.func) == "object.__setattr__":
                a0 = norm(s.node.args[0])
                hit = (in_pc and a0 == "self") or a0.endswith(".p")
            if hit:
                n += 1
                r.require(f.qualname in allowed, f"bypass:{f.qualname}:{norm(s.stmt)[:60]}", f, node=s.stmt, msg="this store bypasses ParameterCollection.__setattr__ and therefore the read-only guard")
    mk = idx.func("armi.reactor.reactorParameters.makeParametersReadOnly")
    sts = [norm(s.stmt) for s in iter_stores(mk.node) if s.attr == "readOnly"]
    loop = next((x for x in mk.node.body if isinstance(x, ast.For)), None)
    ok = "r.p.readOnly = True" in sts and loop is not None and norm(loop.iter) == "r.iterChildren(deep=True)" and norm(loop.body[0]) == f"{norm(loop.target)}.p.readOnly = True" and len(loop.body) == 1
    r.require(ok, "makeParametersReadOnly:deep", mk, msg="the flag must be set on the reactor and on every descendant (deep traversal, unconditionally)")
    si = idx.method(PC, "__setitem__")
    r.require(any(dotted(c.func) == "setattr" and norm(c.args[0]) == "self" for c in iter_calls(si.node)), "setitem-through-setattr", si, msg="p[name] = v must go through setattr (the guard)")
    # 'no value changes': the other ways a collection can be changed - deleting a parameter (it falls back to its default) and
    # writing / deleting entries of the history table - do not pass through __setattr__ and need the same guard themselves
    for name, f in pc.methods.items():
        if name in ("__init__", "__setstate__", "__deepcopy__", "__getstate__"):
            continue
        muts = []
        for s_ in iter_stores(f.node):
            if s_.kind in ("subscript", "subscript-del", "subscript-aug", "mutcall") and (s_.chain or "").startswith("self._hist"):
                muts.append(s_.stmt)
        for c_ in iter_calls(f.node):
            if dotted(c_.func) in ("delattr", "object.__delattr__") and c_.args and norm(c_.args[0]) == "self":
                muts.append(c_)
        if not muts:
            continue
        flg = Flow(f.node, ev).run()
        for mnode in muts:
            sb = flg.state_before(mnode) or {}
            r.require(sb.get("guard", (0, 0))[0] >= 1, f"{name}:guarded:{norm(mnode)[:40]}", f, node=mnode,
                      msg=f"`{norm(mnode)[:60]}` in ParameterCollection.{name} changes the collection without consulting readOnly: on a read-only reactor "
                          "`del p[name]` resets the value to its default and `p[(name, step)] = v` rewrites the history")


# state that StructuredGrid.backUp saves BY REFERENCE: it may be re-bound but never mutated in place
SAVED_BY_REF = ("_unitSteps", "_bounds", "_offset")
INPLACE = {
    "HexBlock.setPinPowers": "per-pin power list updated in place",
    "HexBlock.rotate": "orientation[2] incremented in place",
    "HexBlock.setRotationNum": "orientation[2] set in place",
    "ArmiObject.expandElementalToIsotopics": "natural nuclide deleted from the component's number density dict",
    "Component.updateNumberDensities": "number density dict updated in place",
}


def r6_inplace(idx, r):
    grid = idx.cls("armi.reactor.grids.grid.Grid")
    # (a) saved-by-reference grid state is never mutated in place
    bk = idx.method("armi.reactor.grids.structuredGrid.StructuredGrid", "backUp")
    st = next((s for s in iter_stores(bk.node) if s.chain == "self._backup"), None)
    saved = [e.attr for e in st.value.elts if isinstance(e, ast.Attribute)] if st is not None and isinstance(st.value, ast.Tuple) else []
    copies = st is not None and any(isinstance(e, ast.Call) for e in st.value.elts) if st is not None and isinstance(st.value, ast.Tuple) else False
    if not saved:
        raise AnalysisError("StructuredGrid.backUp: saved tuple not found")
    n = 0
    for attr in saved:
        if attr == "_backup":
            continue
        for f, s in all_stores(idx, attr):
            if ".tests" in f.module.name:
                continue
            if (f.cls is None or not f.cls.is_subclass_of(grid)) and "spatialGrid" not in (s.chain or "") and not (s.chain or "").startswith("self._"):
                continue
            n += 1
            inplace = s.kind in ("subscript", "subscript-aug", "subscript-del", "mutcall", "aug")
            r.require(not inplace or copies, f"grid-state:{f.qualname}:{norm(s.stmt)[:60]}", f, node=s.stmt,
                      msg=f"`{norm(s.stmt)[:80]}` mutates {attr} in place, but backUp() saved that very object by reference: the backup changes with it and restoreBackup cannot undo the edit")
    # (a'') the same through a nested subscript:  grid._bounds[2][:] = ...  (a part of the saved object is overwritten where it is)
    for m in idx.modules.values():
        if not m.name.startswith("armi.") or ".tests" in m.name:
            continue
        for f in m.all_funcs():
            for st_ in walk_local(f.node):
                tgts = st_.targets if isinstance(st_, ast.Assign) else ([st_.target] if isinstance(st_, ast.AugAssign) else [])
                for t in tgts:
                    depth, v = 0, t
                    while isinstance(v, ast.Subscript):
                        depth, v = depth + 1, v.value
                    if depth >= 2 and isinstance(v, ast.Attribute) and v.attr in saved and v.attr != "_backup":
                        n += 1
                        r.require(copies, f"grid-state:{f.qualname}:{norm(st_)[:60]}", f, node=st_,
                                  msg=f"`{norm(st_)[:80]}` overwrites a part of {v.attr} where it is, but backUp() saved that very object by reference: the backup changes with it and "
                                      "restoreBackup cannot undo the edit (e.g. an axial expansion inside a retainState scope)")
    # (a') the same through a local alias:  z = grid._bounds[2]; z[:] = ...   (the alias IS the saved object or a part of it)
    MUT = {"sort", "append", "extend", "insert", "pop", "remove", "clear", "reverse", "fill", "resize", "put", "itemset", "update"}
    for m in idx.modules.values():
        if not m.name.startswith("armi.") or ".tests" in m.name:
            continue
        for f in m.all_funcs():
            aliases = {}
            for st_ in walk_local(f.node):
                if isinstance(st_, ast.Assign) and len(st_.targets) == 1 and isinstance(st_.targets[0], ast.Name):
                    v = st_.value
                    while isinstance(v, ast.Subscript):
                        v = v.value
                    if isinstance(v, ast.Attribute) and v.attr in saved and v.attr != "_backup":
                        aliases[st_.targets[0].id] = (v.attr, st_)
            if not aliases:
                continue
            for s in iter_stores(f.node):
                base = s.node
                while isinstance(base, (ast.Subscript, ast.Attribute)):
                    base = base.value
                if not (isinstance(base, ast.Name) and base.id in aliases):
                    continue
                if s.kind in ("subscript", "subscript-aug", "subscript-del") or (s.kind == "aug" and isinstance(s.node, ast.Name)) or (s.kind == "mutcall" and getattr(s, "method", None) in MUT):
                    attr = aliases[base.id][0]
                    n += 1
                    r.require(copies, f"grid-state-alias:{f.qualname}:{norm(s.stmt)[:60]}", f, node=s.stmt,
                              msg=f"`{norm(aliases[base.id][1])[:60]}` makes `{base.id}` an alias of the grid's {attr}, and `{norm(s.stmt)[:60]}` then edits it in place; "
                                  f"backUp() saved {attr} by reference, so the retained copy changes too and restoreBackup cannot undo the edit")
    # (b) in-place mutation of parameter-held containers: frozen list
    for f in idx.all_funcs():
        for s in iter_stores(f.node):
            ch = s.chain or ""
            parts = ch.split(".")
            hit = s.kind in ("mutcall", "subscript", "subscript-aug", "subscript-del") and len(parts) >= 3 and parts[-2] == "p"
            if not hit and s.kind in ("subscript", "subscript-aug") and isinstance(s.node, ast.Subscript) and isinstance(s.node.value, ast.Subscript) and (dotted(s.node.value.value) or "").endswith(".p"):
                hit = True
            if not hit:
                continue
            key = f"param-inplace:{f.qualname}:{norm(s.stmt)[:60]}"
            r.require(f.qualname in INPLACE, key, f, node=s.stmt, msg="a parameter-held container is mutated in place: this bypasses the read-only guard and the `assigned` tracking that retainState's keep-set relies on")
    # (c) the number-density in-place update marks the collection as modified since anything (incl. since backup)
    u = idx.method("armi.reactor.components.component.Component", "updateNumberDensities")

    def ev(nd):
        if isinstance(nd, ast.Assign) and norm(nd.targets[0]) == "self.p.assigned" and norm(nd.value).endswith("SINCE_ANYTHING"):
            return ["marked"]
        if isinstance(nd, ast.Assign) and norm(nd.targets[0]) == "self.p.paramDefs['numberDensities'].assigned" and norm(nd.value).endswith("SINCE_ANYTHING"):
            return ["defmarked"]
        return []
    fl = Flow(u.node, ev).run()
    for e in fl.normal_exits():
        r.require(e.state.get("marked", (0, 0))[0] >= 1 and e.state.get("defmarked", (0, 0))[0] >= 1, "updateNumberDensities:marks-assigned", u,
                  msg="after the in-place update the collection and the definition must be flagged SINCE_ANYTHING, otherwise a kept numberDensities is lost when a retainState scope ends")


def r7_readonly_first(idx, r):
    """Known-finding rule: an in-place mutation of a parameter container should be dominated by a
    guarded store on the same collection, so that a read-only collection refuses before anything changes."""
    for f in idx.all_funcs():
        if f.qualname not in INPLACE:
            continue
        for s in iter_stores(f.node):
            ch = s.chain or ""
            parts = ch.split(".")
            hit = s.kind in ("mutcall", "subscript", "subscript-aug", "subscript-del") and len(parts) >= 3 and parts[-2] == "p"
            if not hit and s.kind in ("subscript", "subscript-aug") and isinstance(s.node, ast.Subscript) and isinstance(s.node.value, ast.Subscript) and (dotted(s.node.value.value) or "").endswith(".p"):
                hit = True
            if not hit:
                continue
            base = ".".join(parts[: parts.index("p") + 1]) if "p" in parts else (dotted(s.node.value.value) if isinstance(s.node, ast.Subscript) and isinstance(s.node.value, ast.Subscript) else "")

            def ev(nd, base=base):
                if isinstance(nd, (ast.Assign,)) and any(isinstance(t, ast.Attribute) and norm(t.value) == base for t in nd.targets):
                    return ["guarded"]
                if isinstance(nd, ast.Assign) and any(isinstance(t, ast.Subscript) and norm(t.value) == base for t in nd.targets):
                    return ["guarded"]
                # wrapper: these setters end in a guarded store on <obj>.p on every normal path
                if isinstance(nd, ast.Call) and call_attr(nd) in ("setNumberDensity", "setNumberDensities", "updateNumberDensities") and isinstance(nd.func, ast.Attribute) \
                        and norm(nd.func.value) + ".p" == base:
                    return ["guarded"]
                return []
            fl = Flow(f.node, ev).run()
            stt = fl.state_before(s.stmt if not isinstance(s.stmt, ast.Call) else s.stmt) or {}
            r.require(stt.get("guarded", (0, 0))[0] >= 1, f"readonly-first:{f.qualname}", f, node=s.stmt,
                      msg="on a read-only collection this in-place mutation happens before (or without) any refusal: the value changes although every assignment should be refused")


def r8_setter_siblings(idx, r):
    """Parameter.setter builds one of several sibling closures. Every closure that stores a value (directly or through the
    user's setter) must mark BOTH the definition and the collection as assigned: retainState's keep-set re-applies a kept
    parameter only when its collection says something was assigned since the backup."""
    f = idx.method("armi.reactor.parameters.parameterDefinitions.Parameter", "setter")
    if f is None:
        raise AnchorMissing("Parameter.setter")
    closures = [n for n in ast.walk(f.node) if isinstance(n, ast.FunctionDef) and n is not f.node]
    storing = []
    for c in closures:
        p_self = c.args.args[0].arg if c.args.args else None
        stores = any(isinstance(x, ast.Call) and (dotted(x.func) == "setattr" or dotted(x.func) == f.params()[1]) for x in ast.walk(c))
        if not stores:
            continue
        storing.append(c)
        marks_coll = any(isinstance(x, ast.Assign) and norm(x.targets[0]) == f"{p_self}.assigned" and "SINCE_ANYTHING" in norm(x.value) for x in ast.walk(c))
        marks_def = any(isinstance(x, ast.Assign) and norm(x.targets[0]) == "self.assigned" and "SINCE_ANYTHING" in norm(x.value) for x in ast.walk(c))
        kind = "user-setter" if any(isinstance(x, ast.Call) and dotted(x.func) == f.params()[1] for x in ast.walk(c)) else "default-setter"
        r.require(marks_coll and marks_def, f"closure:{kind}:marks-assigned", f, node=c,
                  msg=f"the {kind} closure stores the value but does not set {'the collection' if not marks_coll else 'the definition'} `.assigned = SINCE_ANYTHING` like its sibling: "
                      "a kept parameter with such a setter (mgFlux, xsType, ...) assigned inside a retainState scope is reverted on exit")
    if len(storing) < 2:
        raise AnalysisError(f"Parameter.setter: {len(storing)} storing closures found, expected the default and the user-setter one")


def r9_definitions_matched_by_identity(idx, r):
    """The keep-set of a StateRetainer is a set of parameter DEFINITIONS; restoreBackup intersects it with the collection's own definitions.
    Definitions of different levels share names (Block.power / Core.power, kInf, ...), and Parameter.__eq__ compares names: membership in a
    set is by identity only as long as __hash__ mixes in id(self).  With a name-only hash, naming one level's definition keeps the same-named
    parameter of every other level too."""
    c = idx.cls("armi.reactor.parameters.parameterDefinitions.Parameter")
    eq, hs = c.methods.get("__eq__"), c.methods.get("__hash__")
    if eq is None and hs is None:
        r.ok("Parameter:identity-semantics", c)
        return
    if eq is None or hs is None:
        raise AnalysisError("Parameter defines only one of __eq__/__hash__")
    eqt = " ".join(norm(x) for x in eq.node.body)
    by_identity = " is " in eqt and ".name" not in eqt
    ret = next((x for x in walk_local(hs.node) if isinstance(x, ast.Return) and x.value is not None), None)
    has_id = ret is not None and any(isinstance(x, ast.Call) and dotted(x.func) == "id" and x.args and norm(x.args[0]) == "self" for x in ast.walk(ret.value))
    r.require(by_identity or has_id, "Parameter:set-membership-by-identity", hs, node=ret,
              msg=f"Parameter.__hash__ is `{norm(ret.value) if ret is not None else '?'}` while __eq__ compares names: a keep-set naming only one level's definition of a shared name "
                  "(power, kInf, ...) also matches the other levels' definitions, whose new values then survive the scope instead of being rolled back")
    rb = idx.method("armi.reactor.parameters.parameterCollections.ParameterCollection", "restoreBackup")
    r.require(any((isinstance(x, ast.Call) and call_attr(x) == "intersection") or (isinstance(x, ast.Compare) and any(isinstance(o, ast.In) for o in x.ops)) for x in ast.walk(rb.node)), "restoreBackup:keep-set-membership", rb,
              msg="restoreBackup selects the kept parameters by membership of the definition in the keep-set")


def r10_validity_flags(idx, r):
    """Block.derivedMustUpdate says whether the cached volume of the block's derived-shape component is stale.  It is consumed (set False) by
    the first volume query and is not a parameter, so the backup does not cover it: a change pending when the scope opened, consumed inside the
    scope, leaves after the roll-back a restored (stale) cached volume with a cleared flag.  The restore must therefore re-arm the flag on
    every path (recomputing is always right)."""
    blk = idx.cls("armi.reactor.blocks.Block")
    consumers = [f for m in idx.modules.values() if m.name.startswith("armi.reactor") and ".tests" not in m.name for f in m.all_funcs()
                 if any(s_.attr == "derivedMustUpdate" and norm(s_.value) == "False" and s_.chain != "self.derivedMustUpdate" for s_ in iter_stores(f.node))]
    if not consumers:
        raise AnchorMissing("a consumer that clears <block>.derivedMustUpdate")
    f = blk.methods.get("restoreBackup")
    if f is None:
        r.violate("Block.restoreBackup:re-arms-derivedMustUpdate", blk, "Block inherits restoreBackup unchanged: the derived-shape validity flag is neither saved nor re-armed, so a pending geometry change "
                  "consumed inside a retainState scope leaves the restored (stale) derived volume marked as current")
        return

    def ev(nd):
        if isinstance(nd, ast.Assign) and norm(nd) == "self.derivedMustUpdate = True":
            return ["armed"]
        if isinstance(nd, ast.Call) and ((dotted(nd.func) or "").endswith(".restoreBackup") or is_super_restore(nd)):
            return ["base"]
        return []

    def is_super_restore(nd):
        return isinstance(nd.func, ast.Attribute) and nd.func.attr == "restoreBackup" and isinstance(nd.func.value, ast.Call) and dotted(nd.func.value.func) == "super"
    fl = Flow(f.node, ev).run()
    bad = [e for e in fl.normal_exits() if e.state.get("armed", (0, 0))[0] < 1 or e.state.get("base", (0, 0))[0] < 1]
    r.require(not bad, "Block.restoreBackup:re-arms-derivedMustUpdate", f, msg="after the roll-back the derived shape must be marked for recomputation on every path, and the base restore must run")


def r11_keep_comparison_total(idx, r):
    """When the scope exits, a kept parameter's current value is compared with the restored one to decide whether to re-apply it.  The two may
    be arrays of DIFFERENT shapes (the kept value was re-dimensioned inside the scope): an element-wise `!=` / `==` followed by .any()/.all()
    raises ValueError there, which aborts StateRetainer.__exit__ half way - every object later in the traversal keeps its in-scope state."""
    f = idx.method("armi.reactor.parameters.parameterCollections.ParameterCollection", "restoreBackup")
    n = 0
    for c in iter_calls(f.node):
        if call_attr(c) in ("any", "all") and isinstance(c.func, ast.Attribute) and isinstance(c.func.value, ast.Compare) and any(isinstance(o, (ast.Eq, ast.NotEq)) for o in c.func.value.ops):
            n += 1
            r.violate("restoreBackup:array-comparison-cannot-raise", f, f"`{norm(c)}` compares the kept and the restored value element by element: for arrays of different shapes numpy raises, the exception "
                      "leaves StateRetainer.__exit__ and the remaining objects are not rolled back (and the kept value is lost)", node=c)
    # the same for values that are not arrays: `a != b` between a numpy scalar and a list, or between Flags and None, raises; every bare
    # (in)equality of the two values sits inside a try whose handler catches it
    par = f.module.parents()
    names = {"retainedValue", "currentValue"}
    for x in walk_local(f.node):
        if isinstance(x, ast.Compare) and any(isinstance(o, (ast.Eq, ast.NotEq)) for o in x.ops) and {norm(x.left), norm(x.comparators[0])} == names:
            cur, guarded = x, False
            while cur is not f.node:
                p_ = par[cur]
                if isinstance(p_, ast.Try) and cur in p_.body and any(h.type is None or norm(h.type) in ("Exception", "BaseException", "(ValueError, AttributeError, TypeError)") or "Exception" in norm(h.type) for h in p_.handlers):
                    guarded = True
                cur = p_
            n2 = f"restoreBackup:scalar-comparison-cannot-raise"
            r.require(guarded, n2, f, node=x, msg=f"`{norm(x)}` can raise (numpy scalar against a list: ambiguous truth value; Flags against None: AttributeError): the exception aborts the roll-back of every object visited later")
    tot = [c for c in iter_calls(f.node) if dotted(c.func) in ("np.array_equal", "numpy.array_equal", "np.array_equiv")]
    r.require(n == 0 and bool(tot) or n == 0 and not any(isinstance(x, ast.Attribute) and x.attr == "ndarray" for x in ast.walk(f.node)), "restoreBackup:shape-safe-array-comparison", f,
              msg="array-valued kept parameters are compared with a shape-safe predicate (np.array_equal)")


def link_scan_rule(idx, r):
    """shared with C03 (R03.13): the routine that lifts dimension links out of the parameters scans the complete DIMENSION_NAMES table"""
    f = idx.method("armi.reactor.components.component.Component", "_getLinkedDimsAndValues")
    loop = next((x for x in walk_local(f.node) if isinstance(x, ast.For)), None)
    r.require(loop is not None and norm(loop.iter) == "self.DIMENSION_NAMES", "_getLinkedDimsAndValues:scans-every-dimension", f, node=loop,
              msg=f"links are looked for in `{norm(loop.iter) if loop is not None else '?'}` only: a linked dimension outside that table (e.g. `mult: fuel.mult`) stays in the parameters, is pickled with "
                  "a copy of the neighbour, and after any retainState scope follows that dead copy instead of the live neighbour")


def r12_links_and_flags(idx, r):
    """(a) ANY dimension of a component can hold a link to a neighbour (mult, modArea included): the routine that lifts links out of the
    parameters before they are pickled scans the complete DIMENSION_NAMES table - a linked dimension left in place is pickled together with
    a ghost copy of the neighbour and after the scope points at that copy.  (b) the SINCE_BACKUP bit of a collection's `assigned` word is
    what restoreBackup reads to honour the keep-set: only the backup machinery itself clears it; every other `&= ~mask` names the one bit
    it is about."""
    link_scan_rule(idx, r)
    n = 0
    for m in idx.modules.values():
        if not m.name.startswith("armi.") or ".tests" in m.name:
            continue
        for fn in m.all_funcs():
            for x in walk_local(fn.node):
                if isinstance(x, ast.AugAssign) and isinstance(x.op, ast.BitAnd) and norm(x.target).endswith(".assigned") and isinstance(x.value, ast.UnaryOp) and isinstance(x.value.op, ast.Invert):
                    n += 1
                    mask = norm(x.value.operand)
                    owner = fn.qualname in ("ParameterCollection.backUp", "ParameterCollection.restoreBackup", "ParameterDefinitionCollection.resetAssignmentFlag")
                    wide = mask.endswith("SINCE_ANYTHING") or mask.endswith("SINCE_BACKUP")
                    r.require(owner or not wide, f"{fn.qualname}:clears-only-its-own-bit", fn, node=x,
                              msg=f"`{norm(x)}` also clears the SINCE_BACKUP bit: a keep-set scope in which the state is marked synchronised loses the kept values at exit (restoreBackup believes nothing was assigned)")
    if n < 3:
        raise AnalysisError(f"only {n} sites clearing assignment bits found")


def r13_refusal_point_first_and_fresh_cache(idx, r):
    """(a) `_changeOtherDensParamsByFactor` scales detailedNDens / pinNDens IN PLACE (`*=` on the stored arrays, which a read-only parameter
    collection cannot refuse).  Every caller therefore makes a plain assignment into `self.p` first - that is where a read-only collection
    raises - so that a refused change has changed nothing.  (b) Composite.backUp sets the live cache aside and continues with a NEW dict on
    every path: if the old dict stays in place when it happens to be empty, the saved reference and the live cache are one object and
    everything cached inside the scope survives restoreBackup."""
    n = 0
    for f in idx.all_funcs():
        if ".tests" in f.module.name or f.name == "_changeOtherDensParamsByFactor":
            continue
        calls = [c for c in iter_calls(f.node) if call_attr(c) == "_changeOtherDensParamsByFactor"]
        if not calls:
            continue

        def ev(nd):
            if isinstance(nd, ast.Assign) and any(isinstance(t, ast.Attribute) and norm(t.value) == "self.p" for t in nd.targets):
                return ["refusal-point"]
            return []
        fl = Flow(f.node, ev).run()
        for c in calls:
            n += 1
            st = fl.state_before(c) or {}
            r.require(st.get("refusal-point", (0, 0))[0] >= 1, f"{f.qualname}:in-place-scaling-after-the-guarded-assignment", f, node=c,
                      msg=f"`{norm(c)}` scales detailedNDens/pinNDens in place before any assignment a read-only collection could refuse: the call is refused (the assignment raises) but the vectors are already multiplied")
    if n < 1:
        raise AnchorMissing("callers of _changeOtherDensParamsByFactor")
    for b in [f_ for f_ in idx.all_funcs() if f_.name == "backUp" and f_.cls is not None and ".tests" not in f_.module.name
              and any(isinstance(x, ast.Assign) and any(norm(t) == "self._backupCache" for t in x.targets) and "self.cached" in norm(x.value) for x in walk_local(f_.node))]:
        _backup_fresh_cache(b, r)
    se = idx.method("armi.reactor.composites.StateRetainer", "__exit__")
    fl_ = Flow(se.node, lambda nd: ["restored"] if isinstance(nd, ast.Call) and call_attr(nd) == "_enterExitHelper" and "restoreBackup" in norm(nd) else []).run()
    r.require(not fl_.must_at_normal_exits("restored"), "StateRetainer.__exit__:restores-however-the-scope-ends", se,
              msg="a path leaves __exit__ without restoring the backups: a scope left through an exception keeps its edits and leaves its backups on the stacks, so an enclosing scope later pops the wrong one")
    pc = idx.method("armi.reactor.parameters.parameterCollections.ParameterCollection", "__init__")
    sts_ = [s_ for s_ in iter_stores(pc.node) if s_.kind == "subscript" and norm(s_.node.value) == "self.__dict__"]
    if len(sts_) != 1:
        raise AnchorMissing("ParameterCollection.__init__: self.__dict__[key] = val")
    conds_ = [norm(t) for t, _p in path_conditions(pc.node, sts_[0].stmt) if "_state" not in norm(t)]
    r.require(not conds_, "ParameterCollection.__init__:every-field-of-the-state-installed", pc, node=sts_[0].stmt,
              msg=f"a field of the copied/unpickled state is only installed under {conds_}: the fields left out (`_hist`, the values kept under (name, timestep) keys) are missing in every deep copy")


def _backup_fresh_cache(b, r):
    cname = b.cls.name

    def ev2(nd):
        if isinstance(nd, ast.Assign) and any(norm(t) == "self._backupCache" for t in nd.targets) and "self.cached" in norm(nd.value):
            return ["saved"]
        if isinstance(nd, ast.Assign) and any(norm(t) == "self.cached" for t in nd.targets) and norm(nd.value) in ("{}", "dict()"):
            return ["fresh"]
        return []
    fl = Flow(b.node, ev2).run()
    miss = fl.must_at_normal_exits("fresh") + fl.must_at_normal_exits("saved")
    r.require(not miss, f"{cname}.backUp:live-cache-replaced-by-a-new-dict-on-every-path", b, node=miss[0].node if miss and miss[0].node is not None else b.node,
              msg="a path leaves backUp with the saved dict still installed as the live cache: what is cached inside the scope is written into the saved object and survives the roll-back")
    fresh = [x for x in walk_local(b.node) if isinstance(x, ast.Assign) and any(norm(t) == "self.cached" for t in x.targets)]
    r.require(all((fl.state_before(x) or {}).get("saved", (0, 0))[0] >= 1 for x in fresh), f"{cname}.backUp:saved-before-replaced", b, msg="the live cache is set aside before it is replaced")


def r14_pairing(idx, r):
    from ..pairing import pairing_rule
    pairing_rule(idx, r, ["armi.reactor.parameters", "armi.reactor.composites", "armi.reactor.components.component", "armi.reactor.grids.structuredGrid"], 80)


def r15_serial_floor(idx, r):
    """Objects created after a database load get fresh serial numbers: Database.load raises the global counter to the MAXIMUM serial in the
    file (clause of R06.9) - the last object in layout order need not carry the largest one."""
    from ..report import Only
    from .c06 import r9_identity_floor
    r9_identity_floor(idx, Only(r, ["load:serial-floor"]))


def _tri_not(v):
    return None if v is None else (not v)


def r16_every_saved_field_put_back(idx, r):
    """Family: every class whose backUp pushes a tuple `(self.a, self.b, ..., <previous backup>)` onto a per-object stack.  Each field saved
    there is state the scope returns to: restoreBackup must assign it from the popped entry (same position) on EVERY normal path.  The only
    conditions under which a field may be left as it is: (1) a test on the keep-set (a kept definition keeps its `assigned` flags), and
    (2) a test that THIS field is still the very object that was saved (`popped_i is self.field_i`) - then there is nothing to put back.
    That some OTHER saved field is unchanged says nothing about this one."""
    pairs = [c for c in idx.all_classes() if "backUp" in c.methods and "restoreBackup" in c.methods and ".tests" not in c.module.name]
    fam = 0
    for c in sorted(pairs, key=lambda c: c.fq):
        tp = _tuple_push(c)
        if tp is None:
            continue
        fld, s, b, rb = tp
        elts = list(s.value.elts)
        fields = []  # (position, text of the attribute that must receive the popped element)
        for i, e in enumerate(elts):
            if isinstance(e, ast.Attribute) and norm(e).startswith("self."):
                fields.append((i, norm(e)))
            elif s.attr in norm(e):
                fields.append((i, fld))  # the previous entry of the stack (whatever way it is read)
        if not fields:
            continue
        fam += 1
        # names bound to a position of the popped entry / to the whole entry
        counts = {}
        for st in iter_stores(rb.node):
            if isinstance(st.node, ast.Name):
                counts[st.attr] = counts.get(st.attr, 0) + 1
        pos_alias, whole = {}, set()
        for x in walk_local(rb.node):
            if isinstance(x, ast.Assign) and len(x.targets) == 1 and norm(x.value) == fld:
                t = x.targets[0]
                if isinstance(t, (ast.Tuple, ast.List)) and len(t.elts) == len(elts):
                    for j, te in enumerate(t.elts):
                        if isinstance(te, ast.Name) and counts.get(te.id) == 1:
                            pos_alias[te.id] = j
                elif isinstance(t, ast.Name) and counts.get(t.id) == 1:
                    whole.add(t.id)

        def is_entry(v):
            return norm(v) == fld or (isinstance(v, ast.Name) and v.id in whole)

        def pos_of(v):
            if isinstance(v, ast.Name) and v.id in pos_alias:
                return pos_alias[v.id]
            if isinstance(v, ast.Subscript) and is_entry(v.value):
                try:
                    k = ast.literal_eval(v.slice)
                except (ValueError, TypeError, SyntaxError):
                    return None
                if isinstance(k, int) and not isinstance(k, bool) and -len(elts) <= k < len(elts):
                    return k % len(elts)
            return None

        def ev(n):
            if not isinstance(n, ast.Assign):
                return []
            out = []
            for t in n.targets:
                if isinstance(t, (ast.Tuple, ast.List)):
                    if isinstance(n.value, (ast.Tuple, ast.List)) and len(n.value.elts) == len(t.elts):
                        prs = [(te, pos_of(ve)) for te, ve in zip(t.elts, n.value.elts)]
                    elif is_entry(n.value) and len(t.elts) == len(elts):
                        prs = [(te, j) for j, te in enumerate(t.elts)]
                    else:
                        prs = []
                else:
                    prs = [(t, pos_of(n.value))]
                for te, j in prs:
                    if j is not None and (j, norm(te)) in fields:
                        out.append(f"put:{j}")
            return out

        env = single_assign_env(rb.node)
        keep = [p for p in rb.params()[1:]]

        def assume_for(i, txt, pol):
            def tri(t):
                if isinstance(t, ast.UnaryOp) and isinstance(t.op, ast.Not):
                    return _tri_not(tri(t.operand))
                if isinstance(t, ast.BoolOp):
                    vs = [tri(v) for v in t.values]
                    if isinstance(t.op, ast.And):
                        return False if any(v is False for v in vs) else (True if all(v is True for v in vs) else None)
                    return True if any(v is True for v in vs) else (False if all(v is False for v in vs) else None)
                if isinstance(t, ast.Compare) and len(t.ops) == 1 and isinstance(t.ops[0], (ast.Is, ast.IsNot)):
                    a, b_ = t.left, t.comparators[0]
                    for u, w in ((a, b_), (b_, a)):
                        if norm(u) == txt and pos_of(w) == i:
                            return isinstance(t.ops[0], ast.IsNot)  # the path of interest: the field is NOT the saved object any more
                return None

            def assume(t):
                t = propagate(t, env)
                if keep and any(isinstance(x, ast.Name) and x.id in keep for x in ast.walk(t)):
                    return pol
                return tri(t)
            return assume

        for i, txt in fields:
            miss = None
            for pol in ((True, False) if keep else (None,)):
                fl = Flow(rb.node, ev, assume=assume_for(i, txt, pol)).run()
                if not fl.normal_exits():
                    raise AnalysisError(f"{c.name}.restoreBackup: no normal exit found")
                m_ = fl.must_at_normal_exits(f"put:{i}")
                if not m_:
                    miss = None
                    break
                miss = m_
            what = "the previous entry of the backup stack" if txt == fld else txt
            consequence = ("the stack is not popped, so the enclosing scope later restores this scope's entry" if txt == fld else
                           f"whatever was assigned to {txt} inside a retainState scope survives the scope on that path (for a grid: bounds re-meshed inside the scope while pitch and offset stay the same objects)")
            r.require(miss is None, f"{c.name}.restoreBackup:puts-back:{txt}", rb, node=(miss[0].node if miss and miss[0].node is not None else rb.node),
                      msg=f"{c.name}.backUp saves {what} at position {i} of {fld}, but a path through restoreBackup leaves without assigning it back from the popped entry, and that path "
                          f"is selected neither by the keep-set nor by `{txt} is <the saved object>`: {consequence}")
    if fam < 4:
        raise AnalysisError(f"only {fam} tuple-push backUp/restoreBackup pairs found (grid, parameter definition, composite, material, component expected)")


_CONVERTERS = ("set", "frozenset", "list", "tuple", "sorted")
_EMPTY = ("[]", "()", "set()", "frozenset()", "None", "{}", "list()", "tuple()")


def _keeps_members(e, is_src):
    """Does expression `e` evaluate to a collection holding EVERY member of the source collection (the members themselves, not projections)?
    -> (True, '') | (False, why it loses members) | (None, '') when the form is not recognised."""
    if is_src(e):
        return True, ""
    if isinstance(e, ast.BoolOp) and isinstance(e.op, ast.Or) and all(norm(v) in _EMPTY for v in e.values[1:]):
        return _keeps_members(e.values[0], is_src)
    if isinstance(e, ast.IfExp):
        t = e.test
        while isinstance(t, ast.UnaryOp) and isinstance(t.op, ast.Not):
            t = t.operand
        about_src = is_src(t) or (isinstance(t, ast.Compare) and len(t.ops) == 1 and isinstance(t.ops[0], (ast.Is, ast.IsNot)) and is_src(t.left) and norm(t.comparators[0]) == "None")
        if not about_src:
            return None, ""
        res = [(_keeps_members(x, is_src) if norm(x) not in _EMPTY else (True, "")) for x in (e.body, e.orelse)]
        for k, why in res:
            if k is not True:
                return k, why
        return True, ""
    if isinstance(e, ast.Call):
        d = dotted(e.func)
        if d in _CONVERTERS and len(e.args) == 1 and not isinstance(e.args[0], ast.Starred):
            return _keeps_members(e.args[0], is_src)
        if d in ("copy.copy", "copy.deepcopy") and e.args:
            return _keeps_members(e.args[0], is_src)
        if isinstance(e.func, ast.Attribute):
            recv, meth = e.func.value, e.func.attr
            if meth == "copy" and not e.args:
                return _keeps_members(recv, is_src)
            if meth in ("intersection", "difference", "symmetric_difference"):
                k, why = _keeps_members(recv, is_src)
                if k is True:
                    return False, f"`.{meth}(...)` removes members"
                return k, why
            if meth in ("values", "keys") and not e.args and isinstance(recv, ast.DictComp) and len(recv.generators) == 1:
                g = recv.generators[0]
                k, why = _keeps_members(g.iter, is_src)
                if k is not True:
                    return k, why
                if not isinstance(g.target, ast.Name):
                    return None, ""
                v = g.target.id
                if g.ifs:
                    return False, f"the filter `{norm(g.ifs[0])}` drops members"
                key, val = norm(recv.key), norm(recv.value)
                injective = key in (v, f"id({v})")
                if meth == "keys":
                    return (True, "") if key == v else (False, f"members are replaced by `{key}`")
                if val != v:
                    return False, f"members are replaced by `{val}`"
                if injective:
                    return True, ""
                return False, (f"the members are first keyed by `{key}`, so of several definitions that agree in it only ONE survives - and definitions of different levels do share "
                               "names (power on Block and Core, THmassFlowRate on Block and Assembly)")
        return None, ""
    if isinstance(e, (ast.SetComp, ast.ListComp, ast.GeneratorExp)) and len(e.generators) == 1:
        g = e.generators[0]
        k, why = _keeps_members(g.iter, is_src)
        if k is not True:
            return k, why
        if not isinstance(g.target, ast.Name):
            return None, ""
        if g.ifs:
            return False, f"the filter `{norm(g.ifs[0])}` drops members"
        if norm(e.elt) != g.target.id:
            return False, f"members are replaced by `{norm(e.elt)}`"
        return True, ""
    if isinstance(e, ast.Subscript) and isinstance(e.slice, ast.Slice):
        k, why = _keeps_members(e.value, is_src)
        return (False, "a slice keeps only part of the members") if k is True else (k, why)
    if isinstance(e, ast.BinOp) and isinstance(e.op, (ast.BitAnd, ast.Sub, ast.BitXor)):
        k, why = _keeps_members(e.left, is_src)
        return (False, f"`{norm(e)}` removes members") if k is True else (k, why)
    return None, ""


def r17_keepset_reaches_consumers_whole(idx, r):
    """Family: every hop of the keep-set between the caller of retainState and the two consumers (ParameterCollection.restoreBackup intersects
    it with its own definitions, Parameter.restoreBackup tests `self in` it).  The hops are enumerated from the index: every function that has
    the keep-set parameter (named as in the consumer's signature), every call in it that hands the keep-set on, every attribute it is parked
    in, and every call that hands that attribute on.  At each hop the expression handed on holds EVERY member that came in: it is the
    collection itself, or a plain container conversion / member-for-member comprehension of it.  Filtering, slicing, set difference and
    de-duplication by a projection (name) lose members: a definition named to be kept that is lost on the way is rolled back."""
    cons = idx.method(PC, "restoreBackup")
    if cons is None or len(cons.params()) < 2:
        raise AnchorMissing("ParameterCollection.restoreBackup(self, <keep-set>)")
    ks = cons.params()[1]
    fam = [f for m in idx.modules.values() if m.name.startswith("armi.") and ".tests" not in m.name for f in m.all_funcs()
           if ks in [a.arg for a in f.node.args.posonlyargs + f.node.args.args + f.node.args.kwonlyargs]]
    if len(fam) < 6:
        raise AnalysisError(f"only {len(fam)} functions take the keep-set `{ks}` (retainState, StateRetainer.__init__, the restoreBackup family expected)")
    LOSING = {"remove", "discard", "pop", "clear", "difference_update", "intersection_update", "symmetric_difference_update", "__delitem__", "popitem"}

    def hops(f, is_src, src_txt):
        """the places of f where the keep-set is handed on: (kind, node, expression)"""
        env = single_assign_env(f.node)
        out = []
        mentions = lambda x: any(is_src(y) for y in ast.walk(x))
        for c in iter_calls(f.node):
            d = dotted(c.func)
            if d in _CONVERTERS or d in ("copy.copy", "copy.deepcopy", "len", "bool", "isinstance", "id", "iter"):
                continue
            if isinstance(c.func, ast.Attribute) and mentions(propagate(c.func.value, env)):
                continue  # a method of the keep-set itself (the consumer's .intersection), or of something made from it
            for a in list(c.args) + [k.value for k in c.keywords]:
                if isinstance(a, ast.Lambda):
                    continue  # a deferred body: the calls inside it are hops of their own (iter_calls descends into it)
                pa = propagate(a, env)
                if mentions(pa):
                    out.append(("call", c, pa))
        for s_ in iter_stores(f.node, include_nested=False):
            if s_.kind == "assign" and isinstance(s_.node, ast.Attribute) and s_.value is not None and isinstance(s_.stmt, ast.Assign) and len(s_.stmt.targets) == 1 and s_.stmt.targets[0] is s_.node:
                pv = propagate(s_.value, env)
                if mentions(pv):
                    out.append(("store", s_, pv))
            elif s_.kind == "mutcall" and s_.method in LOSING and is_src(propagate(s_.node.func.value, env)):
                out.append(("mutation", s_, s_.node))
        return out

    def judge(f, kind, node, expr, is_src, src_txt, label):
        where_ = node.stmt if kind != "call" else node
        if kind == "mutation":
            r.violate(f"{f.qualname}:{label}:members-removed-in-place", f, f"`{norm(node.node)}` removes members from the keep-set {src_txt} on its way to restoreBackup: "
                      "a definition named to be kept that is removed here is rolled back when the scope ends instead of keeping its new value", node=where_)
            return None
        k, why = _keeps_members(expr, is_src)
        tgt = (f"stored in {node.chain}" if kind == "store" else f"handed to {norm(node.func)}(...)")
        key = f"{f.qualname}:{label}:{'parks' if kind == 'store' else 'hands-on'}-every-member:{node.chain if kind == 'store' else norm(node.func)}"
        if k is None:
            r.undecided(key, f, f"`{norm(expr)[:100]}` ({tgt}) is not a recognised member-preserving form of {src_txt}", node=where_)
            return None
        r.require(k, key, f, node=where_, msg=f"the keep-set {src_txt} is {tgt} as `{norm(expr)[:110]}`: {why}; a definition named to be kept that is lost here "
                  "is rolled back when the retainState scope ends instead of keeping its new value")
        return k

    n = 0
    parked = []  # (class, attribute) the keep-set is parked in
    for f in sorted(fam, key=lambda f: f.fq):
        is_src = lambda x: isinstance(x, ast.Name) and x.id == ks
        for kind, node, expr in hops(f, is_src, f"`{ks}`"):
            n += 1
            judge(f, kind, node, expr, is_src, f"`{ks}`", "param")
            if kind == "store" and f.cls is not None and node.chain and node.chain.startswith("self."):
                parked.append((f, node.chain))
    if not parked:
        raise AnchorMissing("the attribute in which StateRetainer keeps the keep-set between __enter__ and __exit__")
    for f0, chain in parked:
        attr = chain.split(".", 1)[1]
        # who may write the parking attribute: only the function that received the keep-set
        for g, s_ in all_stores(idx, attr):
            if ".tests" in g.module.name or not g.module.name.startswith("armi.") or s_.chain is None or "." not in s_.chain:
                continue
            if g is f0 and s_.kind == "assign":
                continue
            if g.cls is f0.cls or s_.kind in ("mutcall", "subscript-del", "del"):
                r.violate(f"{g.qualname}:rewrites:{attr}", g, f"`{norm(s_.stmt)[:80]}` changes {chain} after {f0.qualname} stored the keep-set there: restoreBackup no longer sees the definitions named to be kept", node=s_.stmt)
        r.ok(f"{f0.cls.name}.{attr}:single-writer", f0)
        n += 1
        is_attr = lambda x, chain=chain: isinstance(x, ast.Attribute) and norm(x) == chain
        used = 0
        for g in f0.cls.methods.values():
            if g is f0:
                continue
            for kind, node, expr in hops(g, is_attr, f"`{chain}`"):
                n += 1
                used += 1
                judge(g, kind, node, expr, is_attr, f"`{chain}`", "attr")
        if not used:
            r.violate(f"{f0.cls.name}.{attr}:handed-on", f0, f"{chain} is stored but no method of {f0.cls.name} hands it on: the keep-set never reaches restoreBackup and every parameter is rolled back")
    if n < 6:
        raise AnalysisError(f"only {n} hops of the keep-set found")



def r18_optional_part_tested_for_none(idx, r):
    """F105.  A composite whose state has an optional part (the spatial grid) saves and restores that part only when it is there.  "There"
    is `is not None`: the part may define __len__ (a grid without built locations, an empty collection) and is then FALSE while present,
    so a truth test skips its backUp at scope entry - and the restoreBackup at scope exit, if reached after the part became true, pops an
    empty stack, or is skipped as well and leaves the in-scope pitch/bounds in place.  Family: every backUp / restoreBackup method of the
    tree; every call `<self.part>.backUp()` / `<self.part>.restoreBackup(...)` in it that stands under path conditions mentioning that
    part: each such condition is an identity comparison with None."""
    n = 0
    for c in sorted(idx.all_classes(), key=lambda c: c.fq):
        if ".tests." in c.fq:
            continue
        for mname in ("backUp", "restoreBackup"):
            f = c.methods.get(mname)
            if f is None:
                continue
            env = single_assign_env(f.node)
            for call in iter_calls(f.node):
                if not (isinstance(call.func, ast.Attribute) and call.func.attr == mname):
                    continue
                part = norm(propagate(call.func.value, env))
                if not part.startswith("self.") or part in ("self.p",):
                    continue
                for test, pol in path_conditions(f.node, call):
                    t = propagate(test, env)
                    names = {norm(x) for x in ast.walk(t) if isinstance(x, (ast.Attribute, ast.Name))}
                    if part not in names:
                        continue
                    n += 1
                    inner = t.operand if isinstance(t, ast.UnaryOp) and isinstance(t.op, ast.Not) else t
                    by_identity = (isinstance(inner, ast.Compare) and len(inner.ops) == 1 and isinstance(inner.ops[0], (ast.Is, ast.IsNot))
                                   and {norm(inner.left), norm(inner.comparators[0])} == {part, "None"})
                    r.require(by_identity, f"{c.name}.{mname}:{part}:present-means-not-None", f, node=test,
                              msg=f"{c.name}.{mname} saves/restores `{part}` only under `{norm(test)}`, a truth test of the part itself: an object that defines __len__ (a grid in which no "
                                  "location has been built yet) is false while it is there, so it is not backed up at scope entry and the scope exit fails on the empty backup or leaves the "
                                  "pitch/bounds changed inside the scope in place - compare with None")
    if n < 2:
        raise AnchorMissing(f"only {n} guarded backUp/restoreBackup delegations to an optional part found (Composite.backUp / restoreBackup and the spatial grid expected)")


def run(idx, chk):
    chk.explanation = (
        "C16: StateRetainer's enter/exit symmetry and traversal; every backUp/restoreBackup pair in the tree pushing and popping a stack with "
        "matching tuple order; keep-set captured before and re-applied after the roll-back; owners of the global serial counter and fresh serials "
        "after state load; read-only guard dominating the store and the list of bypasses; no in-place mutation of grid state saved by reference; "
        "frozen list of in-place mutations of parameter containers. Exact restoration of every value is NOT decided."
    )
    chk.undecided_clauses = ["exact restoration of every value", "cache non-leakage beyond the push/pop structure"]
    chk.run_rule("R16.1", "StateRetainer backs up on enter and restores (with the keep-set) on exit over the same deep traversal", lambda r: r1_scope(idx, r), floor=6, necessary="scope protocol")
    chk.run_rule("R16.2", "every backUp pushes (saved value contains the previous one) and every restoreBackup pops in the same order", lambda r: r2_push_pop(idx, r), floor=8, necessary="nested scopes unwind last-in first-out")
    chk.run_rule("R16.3", "keep-set values captured before the roll-back and re-applied after it; definitions keep `assigned` only for the keep-set", lambda r: r3_keepset(idx, r), floor=7, necessary="parameters named to be kept retain their new values")
    chk.run_rule("R16.4", "the global serial counter is advanced only by ParameterCollection.__init__/Database.load; copies get a fresh serial through __init__", lambda r: r4_serials(idx, r), floor=8,
                 necessary="serial numbers are never shared by two live objects")
    chk.run_rule("R16.5", "the read-only test dominates the store; only __init__/__setattr__ bypass it; makeParametersReadOnly is deep", lambda r: r5_readonly(idx, r), floor=6, necessary="after read-only every assignment is refused")
    chk.run_rule("R16.6", "grid state saved by reference is never mutated in place; in-place edits of parameter containers are the frozen list and mark `assigned`", lambda r: r6_inplace(idx, r), floor=10,
                 necessary="a backup that aliases live state cannot restore it")
    chk.run_rule("R16.7", "in-place mutation of a parameter container is preceded by a guarded store on the same collection (read-only refuses first)", lambda r: r7_readonly_first(idx, r), floor=5,
                 necessary="'after a reactor is made read-only ... no value changes'")
    chk.run_rule("R16.8", "every value-storing closure of Parameter.setter marks definition and collection as assigned", lambda r: r8_setter_siblings(idx, r), floor=2,
                 necessary="parameters named to be kept retain their new values (the keep-set is applied only when the collection reports an assignment)")
    chk.run_rule("R16.9", "parameter definitions are matched against the keep-set by identity (hash mixes in id(self) while equality is by name)", lambda r: r9_definitions_matched_by_identity(idx, r), floor=2,
                 necessary="exactly the parameters named in the keep-set keep their new values; everything else is rolled back")
    chk.run_rule("R16.10", "the roll-back re-arms the validity flag of the block's derived-shape volume (it is not part of the saved state)", lambda r: r10_validity_flags(idx, r), floor=1,
                 necessary="after the scope every derived value (volumes included) is that of the restored state")
    chk.run_rule("R16.11", "the comparison that decides whether a kept value is re-applied cannot raise for arrays of different shapes", lambda r: r11_keep_comparison_total(idx, r), floor=2,
                 necessary="the roll-back completes for every object of the scope, whatever the kept values are")
    chk.run_rule("R16.12", "links are lifted out of every dimension before pickling; only the backup machinery clears the SINCE_BACKUP bit", lambda r: r12_links_and_flags(idx, r), floor=4,
                 necessary="after the scope every object is as before except the kept parameters, which keep their new values")
    chk.run_rule("R16.13", "in-place scaling of density vectors comes after the guarded assignment; backUp installs a new cache dict on every path", lambda r: r13_refusal_point_first_and_fresh_cache(idx, r), floor=7,
                 necessary="a refused mutation changes nothing; after a retain-state scope no value computed inside it is served")
    chk.run_rule("R16.14", "arguments stand at the parameter they are named after; sibling calls forward the same pass-through parameters", lambda r: r14_pairing(idx, r), floor=1,
                 necessary="the keep-set reaches restoreBackup")
    chk.run_rule("R16.15", "Database.load raises the serial counter to the maximum stored serial (R06.9)", lambda r: r15_serial_floor(idx, r), floor=1,
                 necessary="no two live objects share a serial number")
    chk.run_rule("R16.16", "every field a tuple backUp saves is assigned back from the popped entry on every path of restoreBackup (skipped only for the keep-set or when that very field is still the saved object)",
                 lambda r: r16_every_saved_field_put_back(idx, r), floor=11,
                 necessary="arbitrary assignments (grid pitch or BOUNDS included) are undone when the scope ends: a saved field that one path does not put back keeps its in-scope value")
    chk.run_rule("R16.17", "at every hop from retainState to restoreBackup the keep-set is handed on with every member (container conversions only: no filter, slice, difference or de-duplication by name)",
                 lambda r: r17_keepset_reaches_consumers_whole(idx, r), floor=7,
                 necessary="the parameters named to be kept retain their new values - every one of them, also two same-named definitions of different levels")
    chk.run_rule("R16.18", "an optional part of the state (the spatial grid) is saved and restored whenever it is not None - never skipped because it is empty", lambda r: r18_optional_part_tested_for_none(idx, r), floor=2,
                 necessary="assignments to grid pitch or bounds inside a retain-state scope are undone when the scope ends, also for a grid that has no locations built at scope entry")
